//! C01 — morphemes partition the original text byte-for-byte (lossless surfaces).
//! Pipeline-level run of the real tokenizer (plugin stacks x dictionaries x modes); the partition predicate of
//! Model/Buffer.v is evaluated on the implementation's output and the reported offsets / surfaces are compared with the
//! model's to_orig* applied to the implementation's own offset map.
use crate::common::*;
use serde_json::{json, Value};
use std::collections::HashMap;
use sudachi::analysis::node::LatticeNode;
use sudachi::analysis::mlist::MorphemeList;
use sudachi::analysis::stateful_tokenizer::StatefulTokenizer;
use sudachi::analysis::stateless_tokenizer::DictionaryAccess;
use sudachi::analysis::Mode;
use sudachi::config::ConfigBuilder;
use sudachi::dic::build::DictBuilder;
use sudachi::dic::dictionary::JapaneseDictionary;
use sudachi::dic::storage::{Storage, SudachiDicData};
use sudachi::dic::DictionaryLoader;
use sudachi::input_text::InputTextIndex;

fn res(f: &str) -> String {
    format!("{}/sudachi/tests/resources/{}", repo(), f)
}

// ---------------------------------------------------------------- dictionaries
/// base words (already in normalised form, so that they are reachable after input-text rewriting)
const POOL: [&str; 24] = [
    "キロ", "メートル", "アパート", "株式", "会社", "ab", "c", "abc", "東京", "大学", "かんじ", "漢字", "カ", "ガ", "スー", "パー", "fi", "iii", "さ", "ー", "1", "百",
    "é", "𠮷野",
];

#[derive(Clone, Debug)]
struct DictSpec {
    kind: u8, // 0 shipped system + shipped user, 1 generated system, 2 generated system + generated user
    seed: u64,
}

struct BuiltDict {
    system: Vec<u8>,
    user: Option<Vec<u8>>,
    words: Vec<String>,
}

fn shipped_words() -> Vec<String> {
    let lex = std::fs::read_to_string(res("lex.csv")).unwrap();
    lex.lines().filter_map(|l| l.split(',').next()).filter(|w| !w.is_empty() && w.len() < 40).map(|s| s.to_string()).collect()
}

fn row(surface: &str, cost: i32, mode: &str, a: &str, b: &str) -> String {
    format!("{s},7,7,{c},{s},名詞,普通名詞,一般,*,*,*,ヨミ,{s},*,{m},{a},{b},*,*", s = surface, c = cost, m = mode, a = a, b = b)
}

fn build_dict(spec: &DictSpec) -> Result<BuiltDict, String> {
    if spec.kind == 0 {
        let mut words = shipped_words();
        words.extend(["ぴらる", "府", "東京府", "すだち", "ぴさる", "かぼす"].iter().map(|s| s.to_string()));
        return Ok(BuiltDict {
            system: std::fs::read(res("system.dic.test")).map_err(|e| e.to_string())?,
            user: Some(std::fs::read(res("user.dic.test")).map_err(|e| e.to_string())?),
            words,
        });
    }
    let mut rng = Rng::new(spec.seed);
    let lex = std::fs::read_to_string(res("lex.csv")).map_err(|e| e.to_string())?;
    let mut nrows = lex.lines().count();
    let mut words = shipped_words();
    let mut extra = String::new();
    // base words
    let nbase = 4 + rng.below(8) as usize;
    let mut base: Vec<(usize, String)> = vec![];
    for _ in 0..nbase {
        let w = *rng.pick(&POOL);
        if base.iter().any(|(_, x)| x == w) {
            continue;
        }
        extra.push('\n');
        extra.push_str(&row(w, 2000 + rng.below(3000) as i32, "A", "*", "*"));
        base.push((nrows, w.to_string()));
        words.push(w.to_string());
        nrows += 1;
    }
    // compounds with well-formed A / B splits (units concatenate to the headword)
    let ncomp = 1 + rng.below(4) as usize;
    let mut comps: Vec<(usize, String)> = vec![];
    for _ in 0..ncomp {
        let k = 2 + rng.below(2) as usize;
        let units: Vec<&(usize, String)> = (0..k).map(|_| rng.pick(&base)).collect();
        let surface: String = units.iter().map(|u| u.1.as_str()).collect();
        if words.iter().any(|w| *w == surface) {
            continue;
        }
        let a = units.iter().map(|u| u.0.to_string()).collect::<Vec<_>>().join("/");
        let b = if rng.chance(1, 2) { a.clone() } else { "*".to_string() };
        extra.push('\n');
        extra.push_str(&row(&surface, 500 + rng.below(1500) as i32, "C", &a, &b));
        comps.push((nrows, surface.clone()));
        words.push(surface);
        nrows += 1;
    }
    let mut b = DictBuilder::new_system();
    b.read_conn(std::fs::read(res("matrix_10x10.def")).map_err(|e| e.to_string())?.as_slice()).map_err(|e| format!("{:?}", e))?;
    let text = format!("{}{}", lex, extra);
    b.read_lexicon(text.as_bytes()).map_err(|e| format!("{:?}", e))?;
    b.resolve().map_err(|e| format!("{:?}", e))?;
    let mut system = vec![];
    b.compile(&mut system).map_err(|e| format!("{:?}", e))?;
    let mut user = None;
    if spec.kind == 2 {
        let loaded = DictionaryLoader::read_system_dictionary(&system).map_err(|e| format!("{:?}", e))?.to_loaded().ok_or("no grammar")?;
        let mut ub = DictBuilder::new_user(&loaded);
        let mut rows = vec![];
        // a plain user word, and a user compound split into a system word and a user word
        let u0 = format!("{}{}", rng.pick(&POOL), rng.pick(&POOL));
        rows.push(row(&u0, 100, "A", "*", "*"));
        words.push(u0.clone());
        let sysw = rng.pick(&base).clone();
        let comp = format!("{}{}", sysw.1, u0);
        rows.push(row(&comp, -500, "C", &format!("{}/U0", sysw.0), &format!("{}/U0", sysw.0)));
        words.push(comp);
        ub.read_lexicon(rows.join("\n").as_bytes()).map_err(|e| format!("{:?}", e))?;
        ub.resolve().map_err(|e| format!("{:?}", e))?;
        let mut ubytes = vec![];
        ub.compile(&mut ubytes).map_err(|e| format!("{:?}", e))?;
        user = Some(ubytes);
    }
    Ok(BuiltDict { system, user, words })
}

// ---------------------------------------------------------------- plugin stacks
#[derive(Clone, Debug)]
struct Stack {
    input: Vec<u8>, // 0 default (NFKC / lower-casing / rewrite table), 1 prolonged sound marks, 2 ignore yomigana; in this order
    oov: u8,        // 0 simple, 1 mecab + simple, 2 mecab + regex + simple
    rewrite: u8,    // 0 none, 1 numeric(normalize), 2 katakana(min 3), 3 numeric(no normalize) + katakana(min 1), 4 numeric + katakana(3)
}

fn stack_json(s: &Stack) -> Value {
    let input: Vec<Value> = s
        .input
        .iter()
        .map(|k| match k {
            0 => json!({"class": "com.worksap.nlp.sudachi.DefaultInputTextPlugin"}),
            1 => json!({"class": "com.worksap.nlp.sudachi.ProlongedSoundMarkPlugin",
                        "prolongedSoundMarks": ["ー", "-", "⁓", "〜", "〰"], "replacementSymbol": "ー"}),
            _ => json!({"class": "com.worksap.nlp.sudachi.IgnoreYomiganaPlugin",
                        "leftBrackets": ["(", "（"], "rightBrackets": [")", "）"], "maxYomiganaLength": 4}),
        })
        .collect();
    let pos = json!(["名詞", "普通名詞", "一般", "*", "*", "*"]);
    let simple = json!({"class": "com.worksap.nlp.sudachi.SimpleOovPlugin", "oovPOS": pos, "leftId": 8, "rightId": 8, "cost": 6000});
    let mecab = json!({"class": "com.worksap.nlp.sudachi.MeCabOovPlugin", "charDef": "char.def", "unkDef": "unk2.def", "userPOS": "allow"});
    let regex = json!({"class": "com.worksap.nlp.sudachi.RegexOovProvider", "oovPOS": pos, "leftId": 5, "rightId": 5, "cost": -3000,
                       "regex": "[-a-zA-Z0-9]+", "maxLength": 64, "userPOS": "allow"});
    let oov = match s.oov {
        0 => vec![simple],
        1 => vec![mecab, simple],
        _ => vec![mecab, regex, simple],
    };
    let num = |n: bool| json!({"class": "com.worksap.nlp.sudachi.JoinNumericPlugin", "enableNormalize": n});
    let kat = |m: u32| json!({"class": "com.worksap.nlp.sudachi.JoinKatakanaOovPlugin", "oovPOS": pos, "minLength": m});
    let rewrite = match s.rewrite {
        0 => vec![],
        1 => vec![num(true)],
        2 => vec![kat(3)],
        3 => vec![num(false), kat(1)],
        _ => vec![num(true), kat(3)],
    };
    json!({"path": res(""), "characterDefinitionFile": "char.def", "inputTextPlugin": input, "oovProviderPlugin": oov, "pathRewritePlugin": rewrite})
}

fn load(d: &BuiltDict, s: &Stack) -> Result<JapaneseDictionary, String> {
    let cfg = ConfigBuilder::from_bytes(stack_json(s).to_string().as_bytes()).map_err(|e| format!("{:?}", e))?.build();
    let mut data = SudachiDicData::new(Storage::Owned(d.system.clone()));
    if let Some(u) = &d.user {
        data.add_user(Storage::Owned(u.clone()));
    }
    JapaneseDictionary::from_cfg_storage(&cfg, data).map_err(|e| format!("{:?}", e))
}

// ---------------------------------------------------------------- inputs
const SPECIAL: [&str; 56] = [
    "㍿", "㌔", "ｱﾞ", "ﾊﾟ", "ｶﾞ", "ﬁ", "Ⅲ", "ⅲ", "１２３", "ＡＢＣ", "ABC", "Abc", "か\u{3099}", "é", "e\u{301}", "㈱", "½", "ǆ", "ﾟ", "\u{FDFA}", "\u{337F}", "ｷﾛ", "ｱﾊﾟｰﾄ",
    "漢字(かんじ)", "東京（とうきょう）", "都(と)", "京都(きょうとふ)", "字(じ", "(かんじ)", "大学（だいがく）に", // yomigana
    "ー", "ーー", "〜〜〜", "あーーー", "-", "--", "⁓〰", "スーーパー", // prolonged sound marks
    "1", "123", "1,000", "3.14", "二十", "五百", "〇", "１，０００", "六三四", "1.", ",5", // numerals
    "アイウ", "アイアイウ", "カタカナ", "ケ", "ヴ", // katakana
    " ", "。",
];
const MISC: [&str; 14] = ["　", "、", "\n", "\t", "😀", "\u{10FFFF}", "a", "Z", "特a", "な。な", "\u{200D}", "👍\u{1F3FD}", "\u{0}", "𠮷"];

fn gen_text(rng: &mut Rng, words: &[String]) -> String {
    match rng.below(20) {
        0 => return String::new(),
        1 => return crate::c08::rand_string(rng, 10),
        2..=7 => return gen_dense(rng, words),
        _ => {}
    }
    let n = 1 + rng.below(7);
    let mut s = String::new();
    for _ in 0..n {
        match rng.below(10) {
            0..=3 => s.push_str(rng.pick(words).as_str()),
            4..=7 => s.push_str(*rng.pick(&SPECIAL)),
            8 => s.push_str(*rng.pick(&MISC)),
            _ => s.push(*rng.pick(&crate::c08::ALPHABET)),
        }
    }
    s
}

// ---------------------------------------------------------------- one analysis
struct MorphOut {
    b: usize,
    e: usize,
    bc: usize,
    ec: usize,
    surface: String,
}
struct Analysis {
    cur: String,
    m2o: Vec<usize>,
    /// path in the coordinates of the rewritten text; None when observed through a reused MorphemeList
    nodes: Option<Vec<(usize, usize, usize, usize)>>,
    morphs: Vec<MorphOut>,
    /// an accessor of a reported morpheme (begin/end/begin_c/end_c/surface) panicked: its range does not fit the input
    accessor_panic: Option<String>,
}

/// everything the API reports for every morpheme of the list; a panic of an accessor is an observation, not an accident:
/// tokenization succeeded, so a morpheme whose offsets / surface cannot be obtained is a lost piece of the input
fn read_morphs<T: DictionaryAccess>(ml: &MorphemeList<T>) -> (Vec<MorphOut>, Option<String>) {
    let mut out = vec![];
    for i in 0..ml.len() {
        let r = catch(|| {
            let m = ml.get(i);
            let surface = m.surface().to_string();
            MorphOut { b: m.begin(), e: m.end(), bc: m.begin_c(), ec: m.end_c(), surface }
        });
        match r {
            Ok(m) => out.push(m),
            Err(p) => {
                let before: Vec<(usize, usize)> = out.iter().map(|m| (m.b, m.e)).collect();
                let msg = format!("morpheme {} of {}: begin/end/surface panicked ({}); byte ranges read before it: {:?}", i, ml.len(), p, before);
                return (out, Some(msg));
            }
        }
    }
    (out, None)
}

fn mode_of(m: u8) -> Mode {
    match m {
        0 => Mode::A,
        1 => Mode::B,
        _ => Mode::C,
    }
}

/// Ok(None) = tokenization rejected the input (Err); Err = tokenization panicked (C03's subject)
fn analyse(dict: &JapaneseDictionary, text: &str, mode: u8) -> Result<Option<Analysis>, String> {
    let first = catch(|| {
        // first run: the input buffer and the path in the coordinates of the rewritten text
        let mut tok = StatefulTokenizer::new(dict, mode_of(mode));
        tok.reset().push_str(text);
        if tok.do_tokenize().is_err() {
            return None;
        }
        let (cur, m2o) = {
            let inp = tok.verif_input();
            let cur = inp.current().to_string();
            let m2o: Vec<usize> = (0..=cur.len()).map(|i| inp.to_orig(i..i).start).collect();
            (cur, m2o)
        };
        let mut input = Default::default();
        let mut path = vec![];
        let mut subset = Default::default();
        tok.swap_result(&mut input, &mut path, &mut subset);
        let nodes: Vec<(usize, usize, usize, usize)> = path.iter().map(|n| (n.begin(), n.end(), n.begin_bytes(), n.end_bytes())).collect();
        // second run: what the API reports
        let mut tok2 = StatefulTokenizer::new(dict, mode_of(mode));
        tok2.reset().push_str(text);
        if tok2.do_tokenize().is_err() {
            return None;
        }
        match tok2.into_morpheme_list() {
            Ok(ml) => Some((cur, m2o, nodes, ml)),
            Err(_) => None,
        }
    })?;
    Ok(first.map(|(cur, m2o, nodes, ml)| {
        let (morphs, accessor_panic) = read_morphs(&ml);
        Analysis { cur, m2o, nodes: Some(nodes), morphs, accessor_panic }
    }))
}

fn oracle(text: &str, a: &Analysis) -> Option<String> {
    if a.cur.is_empty() {
        return if a.morphs.is_empty() { None } else { Some("morphemes reported although the normalised text is empty".into()) };
    }
    if a.morphs.is_empty() {
        return Some(format!("no morphemes although the normalised text is {:?}", a.cur));
    }
    let mut pos = 0;
    let mut cat = String::new();
    for (i, m) in a.morphs.iter().enumerate() {
        if m.b != pos {
            return Some(format!("morpheme {} begins at byte {} but the previous one ended at {}", i, m.b, pos));
        }
        if m.e < m.b || m.e > text.len() || !text.is_char_boundary(m.b) || !text.is_char_boundary(m.e) {
            return Some(format!("morpheme {} has range {}..{} which is not a character-aligned range of the input", i, m.b, m.e));
        }
        if m.surface != text[m.b..m.e] {
            return Some(format!("morpheme {} surface {:?} is not the input text {:?} of its range {}..{}", i, m.surface, &text[m.b..m.e], m.b, m.e));
        }
        if m.bc != text[..m.b].chars().count() || m.ec != text[..m.e].chars().count() {
            return Some(format!("morpheme {} code-point offsets {}..{} do not match byte range {}..{}", i, m.bc, m.ec, m.b, m.e));
        }
        cat.push_str(&m.surface);
        pos = m.e;
    }
    if pos != text.len() {
        return Some(format!("last morpheme ends at byte {} of {}", pos, text.len()));
    }
    if cat != text {
        return Some("concatenated surfaces differ from the input".into());
    }
    None
}

fn term(text: &str, a: &Analysis) -> String {
    let morphs = clist(a.morphs.iter().map(|m| format!("mkM {} {} {} {} {}", cnu(m.b), cnu(m.e), cnu(m.bc), cnu(m.ec), cbytes(m.surface.as_bytes()))));
    match &a.nodes {
        Some(nodes) => format!(
            "check_c01 {} {} {} {} {}",
            cbytes(text.as_bytes()),
            cbytes(a.cur.as_bytes()),
            clist(a.m2o.iter().map(|x| cnu(*x))),
            clist(nodes.iter().map(|n| format!("({}, {}, {}, {})", cnu(n.0), cnu(n.1), cnu(n.2), cnu(n.3)))),
            morphs
        ),
        None => format!("check_c01_report {} {} {} {}", cbytes(text.as_bytes()), cbytes(a.cur.as_bytes()), clist(a.m2o.iter().map(|x| cnu(*x))), morphs),
    }
}

fn desc(text: &str, mode: u8, st: &Stack, ds: &DictSpec) -> Value {
    let mname = ["A", "B", "C"][mode as usize];
    json!({"kind": "c01", "text": text, "mode": mname,
           "stack": {"input": st.input, "oov": st.oov, "rewrite": st.rewrite},
           "dict": {"kind": ds.kind, "seed": ds.seed.to_string()}})
}

fn run_one(sink: &mut Sink, dict: &JapaneseDictionary, text: &str, mode: u8, st: &Stack, ds: &DictSpec, verbose: bool) -> usize {
    let d = desc(text, mode, st, ds);
    sink.tag(&format!("mode={}", ["A", "B", "C"][mode as usize]));
    match analyse(dict, text, mode) {
        Err(p) => {
            // a panic of analysis is C03's subject; for C01 it is only counted (well-formed generated dictionaries do not get here)
            if verbose {
                println!("analysis panicked: {}", p);
            }
            sink.tag("analysis_panicked(not C01)");
            sink.case_rust_only(d, false);
            0
        }
        Ok(None) => {
            if verbose {
                println!("tokenization rejected the input");
            }
            sink.tag("rejected_by_tokenizer");
            sink.case_rust_only(d, false);
            0
        }
        Ok(Some(a)) => record(sink, text, &a, d, verbose),
    }
}

/// one successful analysis: tags, Coq term, Rust-side statement of the property
fn record(sink: &mut Sink, text: &str, a: &Analysis, d: Value, verbose: bool) -> usize {
    let rewritten = a.cur != text;
    let identity = a.m2o.iter().enumerate().all(|(i, x)| i == *x);
    sink.tag(if rewritten { "text_rewritten" } else { "text_unchanged" });
    if a.cur.len() > text.len() {
        sink.tag("rewritten_longer");
    }
    if a.cur.len() < text.len() {
        sink.tag("rewritten_shorter");
    }
    if a.morphs.iter().any(|m| m.b == m.e) {
        sink.tag("has_empty_range_morpheme");
    }
    if a.cur.is_empty() {
        sink.tag("normalised_empty");
    }
    // a cut of the rewritten text whose image differs from its own offset, behind which the map is not a plain shift:
    // the situation in which offsets of the rewritten and of the original text can be mixed up
    if a.m2o.windows(2).enumerate().any(|(i, w)| w[0] != i && w[1] != w[0] + 1 && w[1] != w[0]) {
        sink.tag("edit_behind_a_length_changing_edit");
    }
    sink.tag(&format!("morphemes={}", usize::min(a.morphs.len(), 10)));
    if verbose {
        println!("input      : {:?}", text);
        println!("normalised : {:?}", a.cur);
        println!("m2o        : {:?}", a.m2o);
        println!("nodes      : {:?}", a.nodes);
        for m in &a.morphs {
            println!("  {}..{} (cp {}..{}) {:?}", m.b, m.e, m.bc, m.ec, m.surface);
        }
    }
    if let Some(p) = &a.accessor_panic {
        // no complete report exists: nothing to hand to the model, the failure is the observation itself
        if verbose {
            println!("accessors  : {}", p);
        }
        let id = sink.case_rust_only(d, false);
        let what = if a.cur.is_empty() {
            format!("morphemes reported although the normalised text is empty, and they cannot be read back: {}", p)
        } else {
            format!("tokenization succeeded but the morphemes cannot be read back: {}", p)
        };
        sink.fail(id, &what, "");
        return a.morphs.len();
    }
    // very long inputs are checked by the Rust-side statement of the property only (no Coq term of that size)
    let id = if text.len() > 3000 {
        sink.tag("long_input_rust_oracle_only");
        sink.case_rust_only(d, false)
    } else {
        sink.case(term(text, a), d, (!identity || rewritten) && a.morphs.len() > 1)
    };
    let o = oracle(text, a);
    if verbose {
        println!("oracle     : {:?}", o);
    }
    if let Some(w) = o {
        sink.fail(id, &w, "");
    }
    a.morphs.len()
}

// ---------------------------------------------------------------- reuse of one tokenizer and one result list
/// One StatefulTokenizer and one MorphemeList are reused for a whole sequence of inputs
/// (reset / do_tokenize / collect_results, as the CLI and the Python binding with `out=` do); inputs whose normalised form
/// is empty are frequent and may come at any position; the mode may be switched between inputs.
/// Every step is a case of its own; its description holds the whole prefix of the session.
fn run_session(sink: &mut Sink, dict: &JapaneseDictionary, texts: &[String], modes: &[u8], st: &Stack, ds: &DictSpec, verbose_last: bool) {
    let mut tok = StatefulTokenizer::new(dict, mode_of(modes[0]));
    let mut list = MorphemeList::empty(dict);
    let mut collected_nonempty = 0usize;
    for k in 0..texts.len() {
        let text = &texts[k];
        let verbose = verbose_last && k + 1 == texts.len();
        let mnames: Vec<&str> = modes[..=k].iter().map(|m| ["A", "B", "C"][*m as usize]).collect();
        let d = json!({"kind": "c01-session", "texts": &texts[..=k], "modes": mnames,
                       "stack": {"input": st.input, "oov": st.oov, "rewrite": st.rewrite},
                       "dict": {"kind": ds.kind, "seed": ds.seed.to_string()}});
        sink.tag("session_step");
        let step = catch(|| {
            tok.set_mode(mode_of(modes[k]));
            tok.reset().push_str(text);
            if tok.do_tokenize().is_err() {
                return None;
            }
            let (cur, m2o) = {
                let inp = tok.verif_input();
                let cur = inp.current().to_string();
                let m2o: Vec<usize> = (0..=cur.len()).map(|i| inp.to_orig(i..i).start).collect();
                (cur, m2o)
            };
            if list.collect_results(&mut tok).is_err() {
                return None;
            }
            Some((cur, m2o))
        });
        match step {
            Err(p) => {
                if verbose {
                    println!("analysis panicked: {}", p);
                }
                sink.tag("analysis_panicked(not C01)");
                sink.case_rust_only(d, false);
                return; // the state of tokenizer and list after a panic is nobody's contract
            }
            Ok(None) => {
                if verbose {
                    println!("tokenization rejected the input");
                }
                sink.tag("rejected_by_tokenizer");
                sink.case_rust_only(d, false);
            }
            Ok(Some((cur, m2o))) => {
                let (morphs, accessor_panic) = read_morphs(&list);
                if cur.is_empty() {
                    sink.tag(&format!("session_empty_after_{}_nonempty", usize::min(collected_nonempty, 3)));
                } else {
                    collected_nonempty += 1;
                }
                let a = Analysis { cur, m2o, nodes: None, morphs, accessor_panic };
                record(sink, text, &a, d, verbose);
            }
        }
    }
}

/// texts in which (almost) every segment is rewritten by some input-text plugin, with separators that make morphemes
/// begin exactly at rewritten segments: with two or more plugins configured, later edits land behind length-changing
/// earlier ones whatever the order of the plugins is
const BY_DEFAULT: [&str; 14] = ["ＡＢＣ", "㈱", "㌔", "ｶﾞ", "１２３", "\u{FDFA}", "ＡＢ", "Ⅲ", "ABC", "㍿", "ｱﾊﾟｰﾄ", "½", "ﬁ", "か\u{3099}"];
const BY_PSM: [&str; 9] = ["ーー", "ーーー", "〜〜", "--", "ー〜〰", "あーー", "すごーーい", "スーーパー", "-ー"];
const BY_YOMI: [&str; 5] = ["漢字(かんじ)", "東京（とうきょう）", "都(と)", "大学（だいがく）", "京都(きょう)"];
const SEPARATORS: [&str; 9] = ["、", "。", " ", "に", "東京", "は", "X", "", ""];

fn gen_dense(rng: &mut Rng, words: &[String]) -> String {
    let n = 2 + rng.below(5);
    let mut s = String::new();
    for i in 0..n {
        if i > 0 {
            s.push_str(*rng.pick(&SEPARATORS));
        }
        match rng.below(7) {
            0 | 1 => s.push_str(*rng.pick(&BY_DEFAULT)),
            2 | 3 => s.push_str(*rng.pick(&BY_PSM)),
            4 | 5 => s.push_str(*rng.pick(&BY_YOMI)),
            _ => s.push_str(rng.pick(words).as_str()),
        }
    }
    s
}

fn gen_stack(rng: &mut Rng) -> Stack {
    let mut input = vec![];
    for k in 0..3u8 {
        if rng.chance(2, 3) {
            input.push(k);
        }
    }
    if rng.chance(1, 5) {
        input.reverse();
    }
    Stack { input, oov: rng.below(3) as u8, rewrite: rng.below(5) as u8 }
}

pub fn run(args: &Args) {
    let mut sink = Sink::new("C01", &args.out, &["Model.Buffer"], args.seed, &args.tier);
    sink.rule("real tokenizer (StatefulTokenizer) x plugin stacks {any sub-sequence / some reorderings of NFKC+lower-casing+rewrite table, prolonged-sound-mark collapsing, yomigana deletion} x OOV {simple; mecab+simple; mecab+regex+simple} x path rewriting {none, numeric, katakana, both} x dictionaries {shipped system+user; generated system with well-formed A/B splits; generated system + generated user dictionary referring to it} x modes A/B/C x inputs mixing dictionary words, NFKC-expanding characters (U+FDFA, ㍿, ㌔, half-width kana + marks), yomigana brackets, prolonged marks, numerals, katakana, combining marks, 4-byte characters, empty input. Every case: the path in rewritten-text coordinates, the offset map and everything Morpheme reports. Two further input classes: texts in which almost every segment is rewritten by some input-text plugin with separators that make morphemes begin at rewritten segments (later plugins edit behind length-changing earlier ones), and sessions of 3..8 inputs (1/4 empty, at any position, optional mode switches) on ONE tokenizer and ONE MorphemeList through collect_results. A panic of begin/end/surface after a successful tokenization counts as a failure of C01. non-trivial = offset map is not the identity and more than one morpheme, distinct Coq term");
    if let Some(p) = &args.replay {
        let v: Value = serde_json::from_str(&std::fs::read_to_string(p).unwrap()).unwrap();
        let c = &v["case"];
        let st = Stack {
            input: c["stack"]["input"].as_array().unwrap().iter().map(|x| x.as_u64().unwrap() as u8).collect(),
            oov: c["stack"]["oov"].as_u64().unwrap() as u8,
            rewrite: c["stack"]["rewrite"].as_u64().unwrap() as u8,
        };
        let ds = DictSpec { kind: c["dict"]["kind"].as_u64().unwrap() as u8, seed: c["dict"]["seed"].as_str().unwrap().parse().unwrap() };
        let mode = match c["mode"].as_str().unwrap_or("C") {
            "A" => 0,
            "B" => 1,
            _ => 2,
        };
        let bd = build_dict(&ds).expect("dictionary");
        let dict = load(&bd, &st).expect("load");
        println!("configuration: {}", stack_json(&st));
        if c["kind"] == "c01-session" {
            let texts: Vec<String> = c["texts"].as_array().unwrap().iter().map(|x| x.as_str().unwrap().to_string()).collect();
            let modes: Vec<u8> = c["modes"].as_array().unwrap().iter().map(|m| match m.as_str().unwrap() { "A" => 0, "B" => 1, _ => 2 }).collect();
            println!("session on one tokenizer and one result list, inputs {:?}, modes {}; the last step:", texts, c["modes"]);
            run_session(&mut sink, &dict, &texts, &modes, &st, &ds, true);
            sink.finish();
            return;
        }
        run_one(&mut sink, &dict, c["text"].as_str().unwrap(), mode, &st, &ds, true);
        sink.finish();
        return;
    }
    let mut rng = Rng::new(args.seed);
    let mut built: HashMap<(u8, u64), BuiltDict> = HashMap::new();
    // directed cases on the shipped configuration first
    let full = Stack { input: vec![0, 1, 2], oov: 1, rewrite: 4 };
    let ds0 = DictSpec { kind: 0, seed: 0 };
    built.insert((0, 0), build_dict(&ds0).expect("shipped dictionaries"));
    {
        let dict = load(&built[&(0, 0)], &full).expect("shipped configuration loads");
        let directed = [
            "", "東京都", "京都東京都京都", "東京都に行った", "ｱｲｱｲｳ", "東京（とうきょう）都", "漢字(かんじ)に", "あーーーーに", "㍿東京", "\u{FDFA}京都", "１，０００に", "六三四",
            "特A", "な。な", "アイアイウ", "東京府", "ぴらる", "ＡＢ", "か\u{3099}", "東京(と)(と)都", "(と)", "ーー", "東京ーーー都〜〜", "1.5.2", "二〇二四", " ", "　 　",
        ];
        for t in directed {
            for mode in 0..3 {
                run_one(&mut sink, &dict, t, mode, &full, &ds0, false);
                sink.tag("directed");
            }
        }
        // reuse sessions: empty inputs first, in the middle, repeated, last
        for (texts, mode) in [
            (vec!["", "京都", ""], 2u8),
            (vec!["京都", "東京都に行った", "", "", "京都"], 2),
            (vec!["東京都に行った", "京都にいく", "", "東京に行く", " ", "", "京都"], 0),
            (vec!["ＡＢ東京都（と）にすごーーい", "", "東京都", ""], 1),
        ] {
            let texts: Vec<String> = texts.iter().map(|s| s.to_string()).collect();
            let modes = vec![mode; texts.len()];
            run_session(&mut sink, &dict, &texts, &modes, &full, &ds0, false);
            sink.tag("directed");
        }
        // the length limit: exactly MAX_LENGTH bytes would need a 49149-character lattice; only the rejection is exercised here
        let long = "a".repeat(49150);
        run_one(&mut sink, &dict, &long, 2, &full, &ds0, false);
    }
    let nconf = args.n(60, 600);
    let per = args.n(10, 30);
    for _ in 0..nconf {
        let st = gen_stack(&mut rng);
        let ds = DictSpec { kind: rng.below(3) as u8, seed: if rng.chance(1, 2) { 1 + rng.below(4) } else { rng.next() >> 8 } };
        let ds = if ds.kind == 0 { ds0.clone() } else { ds };
        let key = (ds.kind, ds.seed);
        if !built.contains_key(&key) {
            match build_dict(&ds) {
                Ok(b) => {
                    built.insert(key, b);
                }
                Err(e) => {
                    // a generated dictionary that does not compile is outside C01 (C06); counted only
                    sink.tag("generated_dictionary_rejected");
                    eprintln!("dictionary {:?} not built: {}", ds, e);
                    continue;
                }
            }
        }
        let bd = &built[&key];
        let dict = match load(bd, &st) {
            Ok(d) => d,
            Err(e) => {
                sink.tag("configuration_rejected");
                eprintln!("configuration {:?} not loaded: {}", st, e);
                continue;
            }
        };
        sink.tag(&format!("dict_kind={}", ds.kind));
        sink.tag(&format!("input_plugins={:?}", st.input));
        sink.tag(&format!("oov={} rewrite={}", st.oov, st.rewrite));
        for _ in 0..per {
            let text = gen_text(&mut rng, &bd.words);
            let counts: Vec<usize> = (0..3).map(|mode| run_one(&mut sink, &dict, &text, mode, &st, &ds, false)).collect();
            if counts[0] > counts[2] {
                sink.tag("mode_A_splits_further_than_C");
            }
            if counts[1] > counts[2] {
                sink.tag("mode_B_splits_further_than_C");
            }
        }
        // sessions on one tokenizer + one result list
        for _ in 0..args.n(2, 6) {
            let n = 3 + rng.below(6) as usize;
            let texts: Vec<String> = (0..n)
                .map(|_| match rng.below(8) {
                    0 | 1 => String::new(),
                    2 => gen_dense(&mut rng, &bd.words),
                    _ => gen_text(&mut rng, &bd.words),
                })
                .collect();
            let m0 = rng.below(3) as u8;
            let switch = rng.chance(1, 4);
            let modes: Vec<u8> = (0..n).map(|_| if switch { rng.below(3) as u8 } else { m0 }).collect();
            run_session(&mut sink, &dict, &texts, &modes, &st, &ds, false);
        }
    }
    sink.finish();
}
