//! C08 — code-point offsets agree with byte offsets; the offset map is monotone and anchored.
//! Unit-level differential run of `InputBuffer` (start_build / with_editor / build / to_orig ...) against Model/Buffer.v.
use crate::common::*;
use serde_json::{json, Value};
use sudachi::dic::grammar::Grammar;
use sudachi::dic::DictionaryLoader;
use sudachi::input_text::{InputBuffer, InputTextIndex};

/// characters of every UTF-8 width, including the extremes of each width class
pub const ALPHABET: [char; 28] = [
    'a', 'b', 'Z', '1', ' ', '\u{0}', '\u{7f}', // 1 byte
    '\u{80}', 'é', 'ß', '\u{7ff}', // 2 bytes
    '\u{800}', 'あ', 'ア', '宇', 'ー', '㍿', 'ｶ', '\u{ffff}', // 3 bytes
    '\u{10000}', '𠮷', '😀', '\u{10ffff}', // 4 bytes
    'x', 'ｱ', 'ﾞ', '〜', '9',
];

/// first characters that invite special treatment of the start of a text: byte order mark, zero-width space, no-break
/// space, ideographic space, a combining mark, NUL, a 4-byte character
pub const FIRST_CHARS: [char; 7] = ['\u{feff}', '\u{200b}', '\u{a0}', '\u{3000}', '\u{301}', '\u{0}', '😀'];

/// one text in five gets one of FIRST_CHARS in front (sometimes twice, sometimes it is the whole text)
pub fn special_first(rng: &mut Rng, s: String) -> String {
    if !rng.chance(1, 5) {
        return s;
    }
    let f = *rng.pick(&FIRST_CHARS);
    match rng.below(8) {
        0 => f.to_string(),
        1 => format!("{}{}{}", f, f, s),
        _ => format!("{}{}", f, s),
    }
}

#[derive(Clone, Debug)]
pub struct EditSpec {
    pub s: usize,
    pub e: usize,
    pub w: String,
    pub kind: u8, // 0 replace_ref, 1 replace_own, 2 replace_char (single char only), 3 replace_char_iter
}

pub fn rand_string(rng: &mut Rng, max_chars: u64) -> String {
    let n = rng.below(max_chars + 1);
    (0..n).map(|_| *rng.pick(&ALPHABET)).collect()
}

pub fn boundaries(s: &str) -> Vec<usize> {
    let mut v: Vec<usize> = s.char_indices().map(|(i, _)| i).collect();
    v.push(s.len());
    v
}

fn pick_kind(rng: &mut Rng, w: &str) -> u8 {
    let n = w.chars().count();
    loop {
        let k = rng.below(4) as u8;
        if k == 2 && n != 1 {
            continue;
        }
        if k == 3 && n == 0 {
            continue;
        }
        return k;
    }
}

/// ordered, non-overlapping edits on character boundaries of `cur` (deletions, insertions, shorter / longer / equal
/// replacements; adjacent edits and edits at start / end are frequent)
pub fn gen_valid_batch(rng: &mut Rng, cur: &str) -> Vec<EditSpec> {
    let b = boundaries(cur);
    let nb = b.len();
    let k = 1 + rng.below(4) as usize;
    // choose 2k cut points (with repetition => empty ranges and adjacency), sorted
    let mut cuts: Vec<usize> = (0..2 * k)
        .map(|_| match rng.below(6) {
            0 => 0,
            1 => nb - 1,
            _ => rng.below(nb as u64) as usize,
        })
        .collect();
    cuts.sort();
    let mut edits = vec![];
    for i in 0..k {
        let (s, e) = (b[cuts[2 * i]], b[cuts[2 * i + 1]]);
        let w = match rng.below(6) {
            0 | 1 => String::new(),
            2 => (*rng.pick(&ALPHABET)).to_string(),
            3 => {
                // same number of characters, possibly different widths
                cur[s..e].chars().map(|_| *rng.pick(&ALPHABET)).collect()
            }
            _ => rand_string(rng, 4),
        };
        if s == e && w.is_empty() && rng.chance(3, 4) {
            continue; // a no-op edit is legal but dull: keep it rare
        }
        let kind = pick_kind(rng, &w);
        edits.push(EditSpec { s, e, w, kind });
    }
    edits
}

/// edits outside the property's scope: unsorted, overlapping, reversed, off-boundary, out of range
fn gen_malformed_batch(rng: &mut Rng, cur: &str) -> Vec<EditSpec> {
    let mut edits = gen_valid_batch(rng, cur);
    let len = cur.len();
    let bad = match rng.below(6) {
        0 => EditSpec { s: len + 1 + rng.below(3) as usize, e: len + 4, w: "x".into(), kind: 0 },
        1 => EditSpec { s: rng.below(len as u64 + 1) as usize, e: len + 1 + rng.below(3) as usize, w: rand_string(rng, 2), kind: 0 },
        2 => {
            let a = rng.below(len as u64 + 1) as usize;
            let b = rng.below(len as u64 + 1) as usize;
            EditSpec { s: a.max(b), e: a.min(b), w: rand_string(rng, 2), kind: 1 }
        }
        3 => EditSpec { s: rng.below(len as u64 + 1) as usize, e: rng.below(len as u64 + 2) as usize, w: rand_string(rng, 2), kind: 0 },
        4 => EditSpec { s: 0, e: len, w: rand_string(rng, 1), kind: 1 },
        _ => EditSpec { s: rng.below(len as u64 + 1) as usize, e: rng.below(len as u64 + 1) as usize, w: String::new(), kind: 0 },
    };
    let pos = rng.below(edits.len() as u64 + 1) as usize;
    edits.insert(pos, bad);
    if rng.chance(1, 3) {
        edits.reverse();
    }
    edits
}

pub fn batch_is_valid(cur: &str, edits: &[EditSpec]) -> bool {
    let mut start = 0;
    for e in edits {
        if !(start <= e.s && e.s <= e.e && e.e <= cur.len() && cur.is_char_boundary(e.s) && cur.is_char_boundary(e.e)) {
            return false;
        }
        start = e.e;
    }
    true
}

/// 0 = Ok, 1 = Err, 2 = panic
pub fn apply_batch(buf: &mut InputBuffer, edits: &[EditSpec]) -> u8 {
    let r = catch(|| {
        buf.with_editor(|_, mut ed| {
            for e in edits {
                match e.kind {
                    0 => ed.replace_ref(e.s..e.e, &e.w),
                    1 => ed.replace_own(e.s..e.e, e.w.clone()),
                    2 => ed.replace_char(e.s..e.e, e.w.chars().next().unwrap()),
                    _ => {
                        let mut it = e.w.chars();
                        let c = it.next().unwrap();
                        ed.replace_char_iter(e.s..e.e, c, it)
                    }
                }
            }
            Ok(ed)
        })
    });
    match r {
        Ok(Ok(())) => 0,
        Ok(Err(_)) => 1,
        Err(_) => 2,
    }
}

pub struct Dump {
    pub cur: String,
    pub m2o: Vec<usize>,
    pub c2b: Vec<usize>,
    pub b2c: Vec<usize>,
    pub obyte: Vec<usize>,
    pub ochar: Vec<Option<usize>>,
}

/// everything observable of a built (RO) buffer
pub fn dump_of(buf: &InputBuffer) -> Dump {
    let cur = buf.current().to_string();
    let len = cur.len();
    let nch = cur.chars().count();
    Dump {
        m2o: (0..=len).map(|i| buf.to_orig(i..i).start).collect(),
        c2b: (0..=nch).map(|c| buf.to_curr_byte_idx(c)).collect(),
        b2c: (0..=len).map(|i| buf.ch_idx(i)).collect(),
        obyte: (0..=nch).map(|c| buf.to_orig_byte_idx(c)).collect(),
        ochar: (0..=nch).map(|c| catch(|| buf.to_orig_char_idx(c)).ok()).collect(),
        cur,
    }
}

/// the character-level accessors of the built buffer (InputTextIndex and friends): can_bow / cat_at_char are inputs of
/// the model (they depend on char.def), the rest is compared
pub struct CharDump {
    pub bow: Vec<bool>,
    pub cats: Vec<u32>,
    pub pairs: Vec<(usize, usize, Option<String>, Option<String>, Option<u32>)>,
    pub dists: Vec<(usize, usize, Option<usize>)>,
    pub wcl: Vec<Option<usize>>,
}

pub fn char_dump_of(buf: &InputBuffer) -> CharDump {
    let cur = buf.current().to_string();
    let nch = cur.chars().count();
    let mut pairs = vec![];
    for a in 0..=nch + 1 {
        for b in [a.saturating_sub(1), a, a + 1, a + 2, nch, nch + 1] {
            if pairs.iter().any(|p: &(usize, usize, Option<String>, Option<String>, Option<u32>)| p.0 == a && p.1 == b) {
                continue;
            }
            pairs.push((
                a,
                b,
                catch(|| buf.curr_slice_c(a..b).to_string()).ok(),
                catch(|| buf.orig_slice_c(a..b).to_string()).ok(),
                catch(|| buf.cat_of_range(a..b).bits()).ok(),
            ));
        }
    }
    let mut dists = vec![];
    for cpt in 0..=nch + 1 {
        for off in [0, 1, 2, nch, nch + 3] {
            dists.push((cpt, off, catch(|| buf.char_distance(cpt, off)).ok()));
        }
    }
    CharDump {
        bow: (0..cur.len()).map(|i| buf.can_bow(i)).collect(),
        cats: (0..nch).map(|c| buf.cat_at_char(c).bits()).collect(),
        pairs,
        dists,
        wcl: (0..=nch + 1).map(|c| catch(|| buf.get_word_candidate_length(c)).ok()).collect(),
    }
}

pub fn char_term(orig: &str, d: &Dump, c: &CharDump) -> String {
    let ob = |s: &Option<String>| copt(s.as_ref().map(|x| cbytes(x.as_bytes())));
    format!(
        "check_c08_chars {} {} {} {} {} {} {} {}",
        cbytes(orig.as_bytes()),
        cbytes(d.cur.as_bytes()),
        clist(d.m2o.iter().map(|x| cnu(*x))),
        clist(c.bow.iter().map(|b| cbool(*b).to_string())),
        clist(c.cats.iter().map(|x| cn(*x))),
        clist(c.pairs.iter().map(|(a, b, cs, os, cr)| format!("({}, {}, {}, {}, {})", cnu(*a), cnu(*b), ob(cs), ob(os), copt(cr.map(cn))))),
        clist(c.dists.iter().map(|(a, b, d)| format!("({}, {}, {})", cnu(*a), cnu(*b), copt(d.map(cnu))))),
        clist(c.wcl.iter().map(|x| copt(x.map(cnu))))
    )
}

/// independent statement of what the character-level accessors must return
pub fn char_oracle(orig: &str, d: &Dump, c: &CharDump) -> Option<String> {
    let cur = &d.cur;
    let nch = cur.chars().count();
    let coff: Vec<usize> = cur.char_indices().map(|(i, _)| i).chain(std::iter::once(cur.len())).collect();
    // ch_idx: every byte carries the index of its character; ch_idx(to_curr_byte_idx(i)) = i on a non-empty text
    if !cur.is_empty() {
        for (i, off) in coff.iter().enumerate() {
            if d.c2b.get(i) != Some(off) {
                return Some(format!("to_curr_byte_idx({}) = {:?}, character {} starts at byte {}", i, d.c2b.get(i), i, off));
            }
            if d.b2c.get(*off) != Some(&i) {
                return Some(format!("ch_idx({}) = {:?}, but byte {} is the start of character {}", off, d.b2c.get(*off), off, i));
            }
        }
        for (p, k) in d.b2c.iter().enumerate().take(cur.len()) {
            let want = coff.iter().filter(|o| **o <= p).count() - 1;
            if *k != want {
                return Some(format!("ch_idx({}) = {}, but byte {} belongs to character {}", p, k, p, want));
            }
        }
    }
    for (a, b, cs, os, cr) in &c.pairs {
        let inside = a <= b && *b <= nch;
        let want_c = if inside { Some(cur[coff[*a]..coff[*b]].to_string()) } else { None };
        let want_o = if inside { Some(orig[d.obyte[*a]..d.obyte[*b]].to_string()) } else { None };
        if inside && (*cs != want_c || *os != want_o) {
            return Some(format!("curr_slice_c / orig_slice_c of characters {}..{}: {:?} / {:?}, expected {:?} / {:?}", a, b, cs, os, want_c, want_o));
        }
        if a < b && *b <= nch {
            let want = c.cats[*a..*b].iter().fold(sudachi::dic::category_type::CategoryType::all().bits(), |x, y| x & y);
            if *cr != Some(want) {
                return Some(format!("cat_of_range({}..{}) = {:?}, the intersection of the characters' classes is {:#x}", a, b, cr, want));
            }
        }
        if a >= b && *cr != Some(0) {
            return Some(format!("cat_of_range of the empty range {}..{} = {:?}", a, b, cr));
        }
    }
    for (cpt, off, dd) in &c.dists {
        if *cpt <= nch {
            let want = usize::min(cpt + off, nch) - cpt;
            if *dd != Some(want) {
                return Some(format!("char_distance({}, {}) = {:?}, expected {}", cpt, off, dd, want));
            }
        }
    }
    for (ci, w) in c.wcl.iter().enumerate() {
        if ci < nch {
            let mut want = nch - ci;
            for i in ci + 1..nch {
                if c.bow[coff[i]] {
                    want = i - ci;
                    break;
                }
            }
            if *w != Some(want) {
                return Some(format!("get_word_candidate_length({}) = {:?}, expected {}", ci, w, want));
            }
        }
    }
    None
}

pub fn dump_term(d: &Dump) -> String {
    format!(
        "(mkDump {} {} {} {} {} {})",
        cbytes(d.cur.as_bytes()),
        clist(d.m2o.iter().map(|x| cnu(*x))),
        clist(d.c2b.iter().map(|x| cnu(*x))),
        clist(d.b2c.iter().map(|x| cnu(*x))),
        clist(d.obyte.iter().map(|x| cnu(*x))),
        clist(d.ochar.iter().map(|x| copt(x.map(cnu))))
    )
}

fn edits_term(b: &[EditSpec]) -> String {
    clist(b.iter().map(|e| format!("mk_edit {} {} {}", cnu(e.s), cnu(e.e), cbytes(e.w.as_bytes()))))
}

/// independent statement of the property on what the implementation reports (in-scope cases only)
pub fn oracle(orig: &str, d: &Dump) -> Option<String> {
    let len = d.cur.len();
    if d.m2o.len() != len + 1 {
        return Some("offset map has the wrong length".into());
    }
    if d.m2o[0] != 0 {
        return Some(format!("start of the rewritten text maps to {} instead of 0", d.m2o[0]));
    }
    if !d.cur.is_empty() && d.m2o[len] != orig.len() {
        return Some(format!("end of the rewritten text maps to {} instead of {}", d.m2o[len], orig.len()));
    }
    for i in 1..=len {
        if d.m2o[i - 1] > d.m2o[i] {
            return Some(format!("offset map decreases at {}: {} > {}", i, d.m2o[i - 1], d.m2o[i]));
        }
    }
    for i in 0..=len {
        if d.cur.is_char_boundary(i) && !orig.is_char_boundary(d.m2o[i]) {
            return Some(format!("boundary {} of the rewritten text maps to {} inside a character of the original", i, d.m2o[i]));
        }
    }
    let nch = d.obyte.len();
    for c in 0..nch {
        let b = d.obyte[c];
        if !orig.is_char_boundary(b) {
            return Some(format!("character {} maps to byte {} which is not a boundary", c, b));
        }
        let want = orig[..b].chars().count();
        if d.ochar[c] != Some(want) {
            return Some(format!("code-point offset of character {} is {:?}, but {} code points precede byte {}", c, d.ochar[c], want, b));
        }
    }
    for i in 0..nch {
        for j in i..nch {
            let (bi, bj) = (d.obyte[i], d.obyte[j]);
            let (ci, cj) = (d.ochar[i].unwrap(), d.ochar[j].unwrap());
            if ci > cj {
                return Some(format!("code-point range {}..{} is reversed", ci, cj));
            }
            let by_cp: String = orig.chars().skip(ci).take(cj - ci).collect();
            if by_cp != orig[bi..bj] {
                return Some(format!("slicing by code points {}..{} gives {:?}, by bytes {}..{} gives {:?}", ci, cj, by_cp, bi, bj, &orig[bi..bj]));
            }
        }
    }
    None
}

/// shadow of the rewritten text: every character with the byte offset it had in the original (None = produced by an
/// edit) and whether its mapped start must still be exact (it never was the first character after a deletion before it)
type Shadow = Vec<(char, Option<usize>, bool)>;

fn shadow_apply(sh: &Shadow, cur: &str, edits: &[EditSpec]) -> Shadow {
    let mut offs: Vec<usize> = cur.char_indices().map(|(i, _)| i).collect();
    // an implementation whose working text is not the text it was given (fewer characters than the shadow) must end up as
    // a reported failure of the oracles, not as a crash here: the missing positions count as lying behind every edit
    while offs.len() < sh.len() {
        offs.push(usize::MAX);
    }
    let mut out: Shadow = vec![];
    let mut k = 0;
    for e in edits {
        while k < sh.len() && offs[k] < e.s {
            out.push(sh[k]);
            k += 1;
        }
        for c in e.w.chars() {
            out.push((c, None, false));
        }
        while k < sh.len() && offs[k] < e.e {
            k += 1;
        }
    }
    while k < sh.len() {
        out.push(sh[k]);
        k += 1;
    }
    if let Some(first) = out.first_mut() {
        if first.1.map_or(false, |q| q != 0) {
            first.2 = false;
        }
    }
    out
}

fn shadow_oracle(sh: &Shadow, d: &Dump) -> Option<String> {
    let mut p = 0;
    for (c, origin, exact) in sh {
        let w = c.len_utf8();
        if let Some(q) = origin {
            if !(d.m2o[p] <= *q && q + w <= d.m2o[p + w]) {
                return Some(format!("unreplaced character {:?} (original bytes {}..{}) is reported at {}..{}", c, q, q + w, d.m2o[p], d.m2o[p + w]));
            }
            if *exact && d.m2o[p] != *q {
                return Some(format!("unreplaced character {:?} at original byte {} is mapped to {}", c, q, d.m2o[p]));
            }
        }
        p += w;
    }
    None
}

fn desc(orig: &str, batches: &[Vec<EditSpec>]) -> Value {
    json!({"kind": "c08", "orig": orig,
           "batches": batches.iter().map(|b| b.iter().map(|e| json!([e.s, e.e, e.w, e.kind])).collect::<Vec<_>>()).collect::<Vec<_>>()})
}

pub fn test_grammar() -> Grammar<'static> {
    let bytes = std::fs::read(format!("{}/sudachi/tests/resources/system.dic.test", repo())).expect("system.dic.test");
    let bytes: &'static [u8] = Box::leak(bytes.into_boxed_slice());
    DictionaryLoader::read_system_dictionary(bytes).expect("load test dictionary").to_loaded().expect("grammar").grammar
}

struct Outcome {
    statuses: Vec<u8>,
    dump: Option<Dump>,
    chars: Option<CharDump>,
    in_scope: bool,
    shadow: Shadow,
}

/// run the implementation; `gen` produces the next batch from the current text
fn run_impl(grammar: &Grammar, orig: &str, batches: &mut Vec<Vec<EditSpec>>, gen: &mut dyn FnMut(usize, &str) -> Option<Vec<EditSpec>>) -> Outcome {
    let mut buf = InputBuffer::from(orig);
    let mut statuses = vec![];
    let mut in_scope = true;
    let mut shadow: Shadow = orig.char_indices().map(|(i, c)| (c, Some(i), true)).collect();
    let mut k = 0;
    loop {
        let cur = buf.current().to_string();
        let b = if k < batches.len() {
            batches[k].clone()
        } else {
            match gen(k, &cur) {
                Some(b) => {
                    batches.push(b.clone());
                    b
                }
                None => break,
            }
        };
        k += 1;
        let valid = batch_is_valid(&cur, &b);
        in_scope &= valid;
        let st = apply_batch(&mut buf, &b);
        statuses.push(st);
        if st == 2 {
            return Outcome { statuses, dump: None, chars: None, in_scope: false, shadow };
        }
        if st == 0 && in_scope {
            shadow = shadow_apply(&shadow, &cur, &b);
            if buf.current().is_empty() {
                in_scope = false;
            }
        }
    }
    let built = catch(|| buf.build(grammar));
    let dump = match built {
        Ok(Ok(())) => catch(|| dump_of(&buf)).ok(),
        _ => None,
    };
    let chars = if dump.is_some() { catch(|| char_dump_of(&buf)).ok() } else { None };
    Outcome { statuses, dump, chars, in_scope, shadow }
}

fn emit(sink: &mut Sink, orig: &str, batches: &[Vec<EditSpec>], out: &Outcome, verbose: bool) {
    let term = format!(
        "check_c08 {} {} {} {}",
        cbytes(orig.as_bytes()),
        clist(batches.iter().map(|b| edits_term(b))),
        clist(out.statuses.iter().map(|s| cn(*s))),
        copt(out.dump.as_ref().map(dump_term))
    );
    let nedits: usize = batches.iter().map(|b| b.len()).sum();
    let nontrivial = out.in_scope && nedits > 0 && out.dump.is_some();
    sink.tag(&format!("batches={}", batches.len()));
    sink.tag(if out.in_scope { "in_scope" } else { "out_of_scope" });
    if out.statuses.contains(&2) {
        sink.tag("impl_panicked");
    }
    if out.statuses.contains(&1) {
        sink.tag("impl_err");
    }
    let widths: std::collections::BTreeSet<usize> = orig.chars().map(|c| c.len_utf8()).collect();
    sink.tag(&format!("orig_widths={}", widths.len()));
    for b in batches {
        for e in b {
            sink.tag(if e.w.is_empty() && e.s < e.e {
                "edit_delete"
            } else if e.s == e.e {
                "edit_insert"
            } else if e.w.len() > e.e.saturating_sub(e.s) {
                "edit_expand"
            } else if e.w.len() < e.e.saturating_sub(e.s) {
                "edit_shrink"
            } else {
                "edit_equal_len"
            });
        }
        for w in b.windows(2) {
            if w[0].e == w[1].s {
                sink.tag("adjacent_edits");
            }
        }
    }
    let id = sink.case(term, desc(orig, batches), nontrivial);
    if verbose {
        println!("original  : {:?}", orig);
        for (k, b) in batches.iter().enumerate() {
            println!("batch {}   : {:?}", k, b.iter().map(|e| (e.s, e.e, e.w.as_str())).collect::<Vec<_>>());
        }
        println!("statuses  : {:?} (0 ok, 1 err, 2 panic)", out.statuses);
        if let Some(d) = &out.dump {
            println!("current   : {:?}", d.cur);
            println!("m2o       : {:?}", d.m2o);
            println!("orig byte : {:?}", d.obyte);
            println!("orig char : {:?}", d.ochar);
        }
    }
    if out.in_scope {
        match &out.dump {
            None => sink.fail(id, "well-formed batches made the implementation fail (panic in build or accessors)", ""),
            Some(d) => {
                // the oracle slices the texts by the offsets the implementation reports: offsets that do not describe the
                // texts must become a reported failure, not a crash of this harness
                let o = match catch(|| oracle(orig, d).or_else(|| shadow_oracle(&out.shadow, d))) {
                    Ok(o) => o,
                    Err(p) => Some(format!("the reported offset map does not describe the texts (evaluating it panicked: {})", p)),
                };
                if verbose {
                    println!("oracle    : {:?}", o);
                }
                if let Some(w) = o {
                    sink.fail(id, &w, "");
                }
            }
        }
    }
    // character-level accessors of the same built buffer: a case of its own (every second buffer, to bound the volume)
    if let (Some(d), true) = (&out.dump, out.in_scope) {
        if id % 2 == 0 || verbose {
            match &out.chars {
                None => {
                    let cid = sink.case_rust_only(desc(orig, batches), false);
                    sink.fail(cid, "a character-level accessor (can_bow / cat_at_char) panicked inside the text", "");
                }
                Some(c) => {
                    let (ct, o) = match catch(|| (char_term(orig, d, c), char_oracle(orig, d, c))) {
                        Ok(x) => x,
                        Err(p) => ("false".to_string(), Some(format!("the character-level tables do not describe the texts (evaluating them panicked: {})", p))),
                    };
                    let cid = sink.case(ct, desc(orig, batches), d.cur.chars().count() > 1);
                    sink.tag("char_level_accessors");
                    if verbose {
                        println!("can_bow   : {:?}", c.bow);
                        println!("wcl       : {:?}", c.wcl);
                        println!("char-level oracle: {:?}", o);
                    }
                    if let Some(w) = o {
                        sink.fail(cid, &w, "");
                    }
                }
            }
        }
    }
}

/// every special first character: alone and in front of ordinary text; untouched, with batches that leave the first
/// character alone (it must keep mapping to itself and the start to the start), with an insertion in front of it, with
/// the character itself replaced / deleted
fn directed_first_chars() -> Vec<(String, Vec<Vec<(usize, usize, &'static str)>>)> {
    let mut v = vec![];
    for f in FIRST_CHARS {
        let w = f.len_utf8();
        v.push((f.to_string(), vec![]));
        v.push((f.to_string(), vec![vec![]]));
        v.push((format!("{}{}", f, f), vec![vec![(w, 2 * w, "")]]));
        let t = format!("{}東京Ｔ", f);
        v.push((t.clone(), vec![]));
        v.push((t.clone(), vec![vec![(w + 6, w + 9, "t")]]));
        v.push((t.clone(), vec![vec![(w + 3, w + 6, "")], vec![(w + 3, w + 6, "tt")], vec![(w, w + 3, "京都")]]));
        v.push((t.clone(), vec![vec![(0, 0, "x")], vec![(1 + w + 6, 1 + w + 9, "")]]));
        v.push((t.clone(), vec![vec![(0, w, "é")]]));
        v.push((t, vec![vec![(0, w, ""), (w + 6, w + 9, "t")]]));
    }
    v
}

fn directed() -> Vec<(&'static str, Vec<Vec<(usize, usize, &'static str)>>)> {
    vec![
        // the unit tests of edit.rs
        ("宇宙人", vec![vec![(3, 6, "銀")]]),
        ("宇宙人", vec![vec![(0, 3, "銀河")]]),
        ("宇宙人", vec![vec![(6, 9, "銀河")]]),
        ("宇宙人", vec![vec![(0, 6, "")]]),
        ("宇宙人", vec![vec![(3, 9, "")]]),
        ("âｂC1あ", vec![vec![(0, 2, "a"), (2, 5, "b"), (5, 6, "c")]]),
        ("あ", vec![vec![(0, 3, "abc")]]),
        // three stacked batches on a 1-2-3-4-byte string: adjacent edits, deletion at start, expansion at end
        ("aéあ😀", vec![vec![(0, 1, ""), (1, 3, "ee")], vec![(2, 5, "x"), (5, 9, "😀😀")], vec![(0, 1, "éé"), (1, 2, "")]]),
        // everything deleted, then an insertion into the empty text (end is no longer anchored: out of scope)
        ("ab", vec![vec![(0, 2, "")], vec![(0, 0, "x")]]),
        // insertion at the very start after a deletion at the very start
        ("aあb", vec![vec![(0, 1, "")], vec![(0, 0, "😀")], vec![(4, 7, ""), (7, 8, "cc")]]),
        ("", vec![vec![(0, 0, "")]]),
        ("", vec![vec![(0, 0, "a")]]),
    ]
}

pub fn run(args: &Args) {
    let mut sink = Sink::new("C08", &args.out, &["Model.Buffer", "Model.TokResult"], args.seed, &args.tier);
    sink.rule("random originals (0..14 characters over an alphabet of 1/2/3/4-byte characters incl. the extremes of every width; one in five with a special first character: U+FEFF, U+200B, U+00A0, U+3000, a combining mark, NUL, a 4-byte character; every run has directed cases with each of them alone and in front of text, untouched / edited behind it / inserted before it / replaced / deleted, also on a reused buffer and through the tokenizer with and without input-text plugins) x 1..4 successive batches of 1..4 ordered non-overlapping edits on character boundaries (delete / insert / shrink / expand / equal length; at start, middle, end; adjacent) through replace_ref/own/char/char_iter; every byte offset and every character index of the result is queried. Separate stream of malformed batches (unsorted, overlapping, reversed, off-boundary, out of range) compares Ok/Err/panic only. non-trivial = in scope, at least one edit, distinct Coq term. SESSION stream: one InputBuffer object reused for 1..3 texts (reset + new text), every text rewritten by 1..4 batches of which 2/5 are rejected by their closure after it recorded edits (with_editor answers Err); after every batch status, current() and the offset map are compared with the model and with a fresh reference buffer to which only the accepted batches are applied. PIPELINE stream (shared generators with C01): the real tokenizer on generated plugin stacks x dictionaries (display form != key, exact / prefix-only / other-length split declarations) x modes A/B/C x requested field subsets x on-demand split_into x reuse sessions; for every reported morpheme begin_c/end_c = code points of the original before begin/end, slice by code points = slice by bytes = surface");
    let grammar = test_grammar();
    if let Some(p) = &args.replay {
        if crate::c01::is_pipeline_case(p) {
            crate::c01::replay_for(crate::c01::Prop::C08, &mut sink, p);
            sink.finish();
            return;
        }
        let v: Value = serde_json::from_str(&std::fs::read_to_string(p).unwrap()).unwrap();
        let case = &v["case"];
        if case["kind"] == "c08-session" {
            let mut phases: Vec<Phase> = case["phases"]
                .as_array()
                .unwrap()
                .iter()
                .map(|ph| Phase {
                    orig: ph["orig"].as_str().unwrap().to_string(),
                    steps: ph["steps"]
                        .as_array()
                        .unwrap()
                        .iter()
                        .map(|s| StepSpec {
                            fails: s["fails"].as_bool().unwrap(),
                            edits: s["edits"].as_array().unwrap().iter().map(|e| EditSpec { s: e[0].as_u64().unwrap() as usize, e: e[1].as_u64().unwrap() as usize, w: e[2].as_str().unwrap().to_string(), kind: e[3].as_u64().unwrap() as u8 }).collect(),
                        })
                        .collect(),
                })
                .collect();
            run_session_case(&mut sink, &mut phases, &mut None, true);
            sink.finish();
            return;
        }
        if case["kind"] == "c08" {
            let orig = case["orig"].as_str().unwrap().to_string();
            let mut batches: Vec<Vec<EditSpec>> = case["batches"]
                .as_array()
                .unwrap()
                .iter()
                .map(|b| {
                    b.as_array()
                        .unwrap()
                        .iter()
                        .map(|e| EditSpec {
                            s: e[0].as_u64().unwrap() as usize,
                            e: e[1].as_u64().unwrap() as usize,
                            w: e[2].as_str().unwrap().to_string(),
                            kind: e[3].as_u64().unwrap() as u8,
                        })
                        .collect()
                })
                .collect();
            let out = run_impl(&grammar, &orig, &mut batches, &mut |_, _| None);
            emit(&mut sink, &orig, &batches, &out, true);
        } else {
            limits(&mut sink, true);
        }
        sink.finish();
        return;
    }
    let mut rng = Rng::new(args.seed);
    for (orig, bs) in directed() {
        let mut batches: Vec<Vec<EditSpec>> = bs
            .iter()
            .map(|b| b.iter().map(|(s, e, w)| EditSpec { s: *s, e: *e, w: w.to_string(), kind: 0 }).collect())
            .collect();
        let out = run_impl(&grammar, orig, &mut batches, &mut |_, _| None);
        emit(&mut sink, orig, &batches, &out, false);
        sink.tag("directed");
    }
    for (orig, bs) in directed_first_chars() {
        for kind in [0u8, 1] {
            let mut batches: Vec<Vec<EditSpec>> = bs
                .iter()
                .map(|b| b.iter().map(|(s, e, w)| EditSpec { s: *s, e: *e, w: w.to_string(), kind }).collect())
                .collect();
            let out = run_impl(&grammar, &orig, &mut batches, &mut |_, _| None);
            emit(&mut sink, &orig, &batches, &out, false);
            sink.tag("directed");
            sink.tag("special_first_character");
        }
    }
    limits(&mut sink, false);
    let n = args.n(900, 20000);
    for _ in 0..n {
        let orig = {
            let mut s = rand_string(&mut rng, 14);
            if s.is_empty() && rng.chance(9, 10) {
                s = rand_string(&mut rng, 6);
            }
            special_first(&mut rng, s)
        };
        let nb = 1 + rng.below(4) as usize;
        let mut batches = vec![];
        let mut r2 = rng.fork();
        let out = run_impl(&grammar, &orig, &mut batches, &mut |k, cur| if k < nb { Some(gen_valid_batch(&mut r2, cur)) } else { None });
        emit(&mut sink, &orig, &batches, &out, false);
    }
    if args.thorough() {
        exhaustive(&mut sink, &grammar, &mut rng);
    }
    // malformed stream
    let n = args.n(250, 4000);
    for _ in 0..n {
        let orig = rand_string(&mut rng, 8);
        let orig = special_first(&mut rng, orig);
        let nb = 1 + rng.below(3) as usize;
        let bad_at = rng.below(nb as u64) as usize;
        let mut batches = vec![];
        let mut r2 = rng.fork();
        let out = run_impl(&grammar, &orig, &mut batches, &mut |k, cur| {
            if k >= nb {
                None
            } else if k == bad_at {
                Some(gen_malformed_batch(&mut r2, cur))
            } else {
                Some(gen_valid_batch(&mut r2, cur))
            }
        });
        emit(&mut sink, &orig, &batches, &out, false);
        sink.tag("malformed_stream");
    }
    // one InputBuffer reused for several texts, batches rejected by their closure after recording edits
    session_stream(&mut sink, &mut rng, args.n(300, 4000));
    // pipeline level (first sentence of the property): every morpheme the real tokenizer reports -- modes A/B/C, on-demand
    // splits, requested field subsets, dictionaries whose display forms differ from their keys, reuse sessions -- must carry
    // code-point offsets equal to the number of code points of the original before its byte offsets
    crate::c01::pipeline(crate::c01::Prop::C08, &mut sink, args, &mut rng);
    sink.finish();
}

// ================================================================== one InputBuffer, several texts, closures that fail
/// One batch of a session: the closure records `edits` and then answers Ok (commit) or Err (the batch is rejected).
#[derive(Clone, Debug)]
struct StepSpec {
    fails: bool,
    edits: Vec<EditSpec>,
}

/// 0 = Ok, 1 = Err, 2 = panic
fn apply_step(buf: &mut InputBuffer, st: &StepSpec) -> u8 {
    let r = catch(|| {
        buf.with_editor(|_, mut ed| {
            for e in &st.edits {
                match e.kind {
                    0 => ed.replace_ref(e.s..e.e, &e.w),
                    1 => ed.replace_own(e.s..e.e, e.w.clone()),
                    2 => ed.replace_char(e.s..e.e, e.w.chars().next().unwrap()),
                    _ => {
                        let mut it = e.w.chars();
                        let c = it.next().unwrap();
                        ed.replace_char_iter(e.s..e.e, c, it)
                    }
                }
            }
            if st.fails {
                Err(sudachi::error::SudachiError::EosBosDisconnect)
            } else {
                Ok(ed)
            }
        })
    });
    match r {
        Ok(Ok(())) => 0,
        Ok(Err(_)) => 1,
        Err(_) => 2,
    }
}

/// current() and the offset map of a buffer in RW state; None when reading it panics (a map shorter than the text)
fn observe(buf: &InputBuffer) -> Option<(Vec<u8>, Vec<usize>)> {
    catch(|| {
        // bytes, not a String: whatever a broken buffer holds is recorded, never formatted as text
        let cur = buf.current().as_bytes().to_vec();
        let m2o: Vec<usize> = (0..=cur.len()).map(|i| buf.to_orig(i..i).start).collect();
        (cur, m2o)
    })
    .ok()
}
fn show_obs(o: &Option<(Vec<u8>, Vec<usize>)>) -> String {
    match o {
        None => "unreadable (reading it panics)".to_string(),
        Some((c, m)) => format!("{:?} {:?}", String::from_utf8_lossy(c), m),
    }
}

struct Phase {
    orig: String,
    steps: Vec<StepSpec>,
}

fn session_desc(phases: &[Phase]) -> Value {
    json!({"kind": "c08-session", "phases": phases.iter().map(|p| json!({"orig": p.orig,
        "steps": p.steps.iter().map(|s| json!({"fails": s.fails, "edits": s.edits.iter().map(|e| json!([e.s, e.e, e.w, e.kind])).collect::<Vec<_>>()})).collect::<Vec<_>>()})).collect::<Vec<_>>()})
}

/// Runs the phases on ONE InputBuffer (reset + new text between them).  `gen` = Some: steps are generated from the state
/// of a reference buffer as the session goes (and stored into `phases`); None: the stored steps are replayed.
/// Reference: a FRESH buffer per text to which only the batches whose closure answers Ok are applied -- what the sequence of
/// accepted batches defines, independent of anything a rejected batch or an earlier text may have left behind.
fn run_session_case(sink: &mut Sink, phases: &mut Vec<Phase>, gen: &mut Option<&mut Rng>, verbose: bool) {
    let mut buf = InputBuffer::new();
    // every batch stays alive until the session is over: replace_ref hands out borrowed strings
    let mut arena: Vec<Box<StepSpec>> = vec![];
    let mut terms = vec![];
    let mut failure: Option<String> = None;
    let mut rejected_with_edits = 0u64;
    for pi in 0..phases.len() {
        let orig = phases[pi].orig.clone();
        buf.reset().push_str(&orig);
        let started = catch(|| buf.start_build().is_ok()).unwrap_or(false);
        let mut obs_terms = vec![];
        if started {
            let mut reference = InputBuffer::from(orig.as_str());
            let nsteps = if let Some(rng) = gen.as_mut() { 1 + rng.below(4) as usize } else { phases[pi].steps.len() };
            for k in 0..nsteps {
                if let Some(rng) = gen.as_mut() {
                    let cur = reference.current().to_string();
                    let fails = rng.chance(2, 5);
                    let mut edits = gen_valid_batch(rng, &cur);
                    if fails && edits.is_empty() {
                        edits.push(EditSpec { s: 0, e: 0, w: "x".into(), kind: 0 });
                    }
                    phases[pi].steps.push(StepSpec { fails, edits });
                }
                arena.push(Box::new(phases[pi].steps[k].clone()));
                let st: &StepSpec = unsafe { &*(arena.last().unwrap().as_ref() as *const StepSpec) };
                if st.fails && !st.edits.is_empty() {
                    rejected_with_edits += 1;
                }
                let status = apply_step(&mut buf, st);
                let want_status = if st.fails { 1 } else { apply_batch(&mut reference, &st.edits) };
                let got = observe(&buf);
                let want = observe(&reference);
                if verbose {
                    println!("text {:?} batch {} ({}): {:?}", orig, k, if st.fails { "closure answers Err" } else { "closure answers Ok" }, st.edits.iter().map(|e| (e.s, e.e, e.w.as_str())).collect::<Vec<_>>());
                    println!("  implementation: status {} state {}", status, show_obs(&got));
                    println!("  reference     : status {} state {}", want_status, show_obs(&want));
                }
                let (cur, m2o) = got.clone().unwrap_or_default();
                obs_terms.push(format!("({}, {}, {})", cn(status), cbytes(&cur), clist(m2o.iter().map(|x| cnu(*x)))));
                if failure.is_none() && (status != want_status || (status != 2 && got != want)) {
                    failure = Some(format!(
                        "text {} batch {}: after the batch the buffer is (status {}) {}, the accepted batches alone give (status {}) {}",
                        pi, k, status, show_obs(&got), want_status, show_obs(&want)
                    ));
                }
                if status == 2 || want_status == 2 {
                    // the state after a panic is nobody's contract: the session ends here
                    phases[pi].steps.truncate(k + 1);
                    phases.truncate(pi + 1);
                    break;
                }
            }
        }
        let steps_term = clist(phases[pi].steps.iter().map(|s| format!("({}, {})", cbool(s.fails), edits_term(&s.edits))));
        terms.push(format!("({}, {}, {})", cbytes(orig.as_bytes()), steps_term, clist(obs_terms)));
        if pi + 1 >= phases.len() {
            break;
        }
    }
    sink.tag("session_on_one_buffer");
    sink.tag_n("session_batches_rejected_after_recording_edits", rejected_with_edits);
    sink.tag(&format!("session_texts={}", phases.len()));
    let id = sink.case(format!("check_c08_session {}", clist(terms)), session_desc(phases), rejected_with_edits > 0);
    if verbose {
        println!("oracle    : {:?}", failure);
    }
    if let Some(w) = failure {
        sink.fail(id, &w, "");
    }
}

fn session_stream(sink: &mut Sink, rng: &mut Rng, n: usize) {
    // directed: a rejected batch with edits, then an accepted one; then a new text on the same buffer
    let mut directed = vec![
        Phase { orig: "宇宙人".into(), steps: vec![StepSpec { fails: true, edits: vec![EditSpec { s: 0, e: 3, w: "銀河".into(), kind: 0 }] }, StepSpec { fails: false, edits: vec![EditSpec { s: 6, e: 9, w: "星".into(), kind: 0 }] }] },
        Phase { orig: "☆東京都★".into(), steps: vec![StepSpec { fails: true, edits: vec![EditSpec { s: 0, e: 3, w: "星".into(), kind: 1 }] }] },
        Phase { orig: "京都東京都".into(), steps: vec![StepSpec { fails: false, edits: vec![] }, StepSpec { fails: false, edits: vec![EditSpec { s: 6, e: 6, w: "x".into(), kind: 0 }] }] },
    ];
    run_session_case(sink, &mut directed, &mut None, false);
    sink.tag("directed");
    // every special first character on a reused buffer: untouched text, a rejected batch, an accepted one behind the first character
    for f in FIRST_CHARS {
        let w = f.len_utf8();
        let t = format!("{}東京Ｔ", f);
        let mut phases = vec![
            Phase { orig: "京都".into(), steps: vec![] },
            Phase { orig: t.clone(), steps: vec![] },
            Phase { orig: t.clone(), steps: vec![StepSpec { fails: true, edits: vec![EditSpec { s: 0, e: w, w: "".into(), kind: 0 }] }, StepSpec { fails: false, edits: vec![EditSpec { s: w + 6, e: w + 9, w: "t".into(), kind: 0 }] }] },
            Phase { orig: f.to_string(), steps: vec![StepSpec { fails: false, edits: vec![] }] },
        ];
        run_session_case(sink, &mut phases, &mut None, false);
        sink.tag("directed");
        sink.tag("special_first_character");
    }
    for _ in 0..n {
        let ntexts = 1 + rng.below(3) as usize;
        let mut phases: Vec<Phase> = (0..ntexts)
            .map(|_| {
                let mut s = rand_string(rng, 8);
                if s.is_empty() {
                    s = rand_string(rng, 5);
                }
                Phase { orig: special_first(rng, s), steps: vec![] }
            })
            .collect();
        let mut r2 = rng.fork();
        run_session_case(sink, &mut phases, &mut Some(&mut r2), false);
    }
}

/// the two length limits (MAX_LENGTH on the original, REALLY_MAX_LENGTH on the rewritten text)
fn limits(sink: &mut Sink, verbose: bool) {
    let max_len = u16::MAX as usize / 4 * 3; // what the documentation of the limit says; the model reads the constant from the source
    for len in [max_len - 1, max_len, max_len + 1, 65535, 65536] {
        let s = "a".repeat(len);
        let mut buf = InputBuffer::new();
        buf.reset().push_str(&s);
        let ok = catch(|| buf.start_build().is_ok());
        if verbose {
            println!("start_build on {} bytes: {:?}", len, ok);
        }
        let id = sink.case(
            format!("check_c08_start (repeat 97%N (N.to_nat {})) {}", cnu(len), cbool(ok == Ok(true))),
            json!({"kind": "c08-limit", "len": len}),
            true,
        );
        sink.tag("limit_start_build");
        if ok.is_err() {
            sink.fail(id, "start_build panicked", "");
        }
    }
    // one batch on a 49149-byte original: (deletion of d bytes at `dpos`, expansion by x bytes at `xpos`)
    let s = "a".repeat(max_len);
    for (first_del, d, x) in [
        (false, 0usize, 16386usize), // exactly 65535: accepted
        (false, 0, 16387),           // 65536: rejected
        (false, 100, 16487),         // expansion first: running length exceeds the limit before the deletion: early return
        (true, 100, 16486),          // deletion first: running length never exceeds the limit: accepted
        (true, 100, 16487),
    ] {
        let mut edits = vec![];
        let del = EditSpec { s: if first_del { 0 } else { 10 + 1 }, e: if first_del { d } else { 10 + 1 + d }, w: String::new(), kind: 0 };
        let exp = EditSpec { s: if first_del { d + 5 } else { 0 }, e: if first_del { d + 6 } else { 1 }, w: "b".repeat(x + 1), kind: 1 };
        if first_del {
            if d > 0 {
                edits.push(del);
            }
            edits.push(exp);
        } else {
            edits.push(exp);
            if d > 0 {
                edits.push(del);
            }
        }
        let mut buf = InputBuffer::from(s.as_str());
        let st = apply_batch(&mut buf, &edits);
        let len = buf.current().len();
        if verbose {
            println!("batch {:?} on {} bytes: status {} length {}", edits.iter().map(|e| (e.s, e.e, e.w.len())).collect::<Vec<_>>(), max_len, st, len);
        }
        let et = clist(edits.iter().map(|e| format!("mk_edit {} {} (repeat 98%N (N.to_nat {}))", cnu(e.s), cnu(e.e), cnu(e.w.len()))));
        sink.case(
            format!("check_c08_big (repeat 97%N (N.to_nat {})) {} {} {}", cnu(max_len), et, cn(st), cnu(len)),
            json!({"kind": "c08-limit", "first_del": first_del, "d": d, "x": x}),
            true,
        );
        sink.tag("limit_commit");
    }
}

/// thorough tier: every original of <= 3 characters over one character per UTF-8 width x every batch of <= 2 ordered,
/// non-overlapping edits with replacements from {"", "x", "あ", "xé"}; every fourth case is followed by a random batch
fn exhaustive(sink: &mut Sink, grammar: &Grammar, rng: &mut Rng) {
    let chars = ['a', 'é', 'あ', '😀'];
    let repl = ["", "x", "あ", "xé"];
    let mut originals = vec![String::new()];
    let mut frontier = vec![String::new()];
    for _ in 0..3 {
        let mut next = vec![];
        for s in &frontier {
            for c in chars {
                let mut x = s.clone();
                x.push(c);
                next.push(x);
            }
        }
        originals.extend(next.iter().cloned());
        frontier = next;
    }
    let mut count = 0u64;
    for orig in &originals {
        let b = boundaries(orig);
        let mut ranges = vec![];
        for i in 0..b.len() {
            for j in i..b.len() {
                ranges.push((b[i], b[j]));
            }
        }
        let mut batches: Vec<Vec<EditSpec>> = vec![];
        for r1 in &ranges {
            for w1 in repl {
                let e1 = EditSpec { s: r1.0, e: r1.1, w: w1.to_string(), kind: 0 };
                batches.push(vec![e1.clone()]);
                for r2 in &ranges {
                    if r2.0 < r1.1 {
                        continue;
                    }
                    for w2 in repl {
                        batches.push(vec![e1.clone(), EditSpec { s: r2.0, e: r2.1, w: w2.to_string(), kind: 1 }]);
                    }
                }
            }
        }
        for first in batches {
            count += 1;
            let follow = count % 4 == 0;
            let mut bs = vec![first];
            let mut r2 = rng.fork();
            let out = run_impl(grammar, orig, &mut bs, &mut |k, cur| if follow && k == 1 { Some(gen_valid_batch(&mut r2, cur)) } else { None });
            emit(sink, orig, &bs, &out, false);
        }
    }
    sink.tag_n("exhaustive_small_scope", count);
}
