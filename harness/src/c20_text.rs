//! C20, text layer — the real MeCabOovPlugin::set_up (through Config + JapaneseDictionary::from_cfg_storage) on generated
//! category-definition texts (charDef) and unk.def texts, incl. malformed lines.  Recorded: load status, the kind (and line)
//! of the error value, and — for loaded plugins — the candidates the plugin hands out on probe texts (begin, end, left_id,
//! right_id, cost, POS id), which expose the category infos (invoke / group / length) and the templates per category in order.
use super::{forbid_mode, mode_json_field, Env, PosMode, SYS_POS};
use crate::common::*;
use serde_json::{json, Value};
use sudachi::analysis::created::CreatedWords;
use sudachi::analysis::node::{LatticeNode, RightId};
use sudachi::analysis::stateful_tokenizer::StatefulTokenizer;
use sudachi::analysis::stateless_tokenizer::DictionaryAccess;
use sudachi::analysis::Mode;
use sudachi::config::ConfigBuilder;
use sudachi::dic::dictionary::JapaneseDictionary;
use sudachi::dic::storage::{Storage, SudachiDicData};
use sudachi::input_text::{InputBuffer, InputTextIndex};

pub struct TextCase {
    pub nl: i64,
    pub nr: i64,
    pub allow: PosMode,
    pub chardef: String,
    pub unkdef: String,
}

const PROBES: [&str; 12] = ["abc", "a", "12", "京都", "京", "あいう", "アイ", "  ", "αβγ", "дж", "!?", "abc12"];
const NAMES: [&str; 12] = ["DEFAULT", "ALPHA", "NUMERIC", "KANJI", "HIRAGANA", "KATAKANA", "SPACE", "SYMBOL", "GREEK", "CYRILLIC", "KANJINUMERIC", "USER1"];

struct Outcome {
    status: &'static str,
    msg: String,
    kind: u64,
    line: Option<u64>,
    probes: Vec<(Vec<u32>, usize, u64, Vec<(usize, usize, u16, u16, i16, u32)>)>,
    probes_skipped: bool,
    analysis: Option<String>,
}

fn first_number_after(s: &str, marker: &str) -> Option<u64> {
    let i = s.find(marker)? + marker.len();
    let digits: String = s[i..].chars().take_while(|c| c.is_ascii_digit()).collect();
    digits.parse().ok()
}

/// error value -> (kind code shared with Model/UnkDefText.err_code, line if the value carries one)
fn classify(dbg: &str) -> (u64, Option<u64>) {
    if dbg.contains("InvalidFormat(") {
        (7, first_number_after(dbg, "InvalidFormat("))
    } else if dbg.contains("InvalidCharacterCategoryType(") {
        (2, None)
    } else if dbg.contains("InvalidCategoryType(") {
        (8, first_number_after(dbg, "InvalidCategoryType("))
    } else if dbg.contains("MultipleTypeDefinition(") {
        (9, first_number_after(dbg, "MultipleTypeDefinition("))
    } else if dbg.contains("ParseIntError") {
        (4, None)
    } else if dbg.contains("InvalidPartOfSpeech") {
        (5, None)
    } else if dbg.contains("InvalidDataFormat(") {
        if dbg.contains("is undefined in char definition") {
            (3, first_number_after(dbg, "InvalidDataFormat("))
        } else if dbg.contains("max grammar") {
            (6, None)
        } else {
            (1, first_number_after(dbg, "InvalidDataFormat("))
        }
    } else {
        (0, None)
    }
}

/// independent reading of the accepted category lines, only to decide whether probing is affordable (a huge `length` makes
/// provide_oov produce that many candidates)
fn max_declared_length(chardef: &str) -> u64 {
    let mut m = 0;
    for l in chardef.lines() {
        let cols: Vec<&str> = l.split_whitespace().collect();
        if cols.len() >= 4 && !cols[0].starts_with('#') && !cols[0].starts_with("0x") {
            let t = cols[3].trim_start_matches('+');
            m = m.max(t.parse::<u64>().unwrap_or(if t.len() > 3 && t.chars().all(|c| c.is_ascii_digit()) { u64::MAX } else { 0 }));
        }
    }
    m
}

fn run_impl(env: &mut Env, case: &TextCase) -> Outcome {
    let bytes = env.dictionary(case.nl, case.nr);
    std::fs::write(env.dir.join("text_catdef.def"), &case.chardef).unwrap();
    std::fs::write(env.dir.join("text_unk.def"), &case.unkdef).unwrap();
    let cfg_text = format!(
        "{{\"path\":{},\"characterDefinitionFile\":\"char.def\",\"oovProviderPlugin\":[{{\"class\":\"com.worksap.nlp.sudachi.SimpleOovPlugin\",\"oovPOS\":{},\"leftId\":0,\"rightId\":0,\"cost\":3000}},{{\"class\":\"com.worksap.nlp.sudachi.MeCabOovPlugin\",\"charDef\":\"text_catdef.def\",\"unkDef\":\"text_unk.def\"{}}}]}}",
        serde_json::to_string(&env.dir.to_string_lossy()).unwrap(),
        serde_json::to_string(&SYS_POS[0].split(',').collect::<Vec<_>>()).unwrap(),
        mode_json_field(&case.allow)
    );
    let cfg = ConfigBuilder::from_bytes(cfg_text.as_bytes()).expect("config json").build();
    let mut out = Outcome { status: "SErr", msg: String::new(), kind: 0, line: None, probes: vec![], probes_skipped: false, analysis: None };
    let dict = match catch(|| JapaneseDictionary::from_cfg_storage(&cfg, SudachiDicData::new(Storage::Owned(bytes)))) {
        Err(p) => {
            out.status = "SPanic";
            out.msg = p;
            return out;
        }
        Ok(Err(e)) => {
            out.msg = format!("{:?}", e);
            let (k, l) = classify(&out.msg);
            out.kind = k;
            out.line = l;
            return out;
        }
        Ok(Ok(d)) => d,
    };
    out.status = "SOk";
    // VERIF_C20_PROBE_ALL=1: probe and analyse even with a huge declared length (investigation of the candidate explosion)
    if max_declared_length(&case.chardef) > 64 && std::env::var("VERIF_C20_PROBE_ALL").is_err() {
        out.probes_skipped = true;
        return out;
    }
    let plugin = &dict.oov_provider_plugins()[1];
    for t in PROBES {
        let mut input = InputBuffer::from(t);
        input.build(dict.grammar()).unwrap();
        let n = t.chars().count();
        let cs: Vec<u32> = (0..n).map(|i| input.cat_at_char(i).bits()).collect();
        let offs: Vec<usize> = if n == 1 { vec![0] } else { vec![0, n - 1] };
        for off in offs {
            for other in [CreatedWords::empty(), CreatedWords::single(1i64)] {
                let mut v = vec![];
                if catch(|| plugin.provide_oov(&input, off, other, &mut v)).is_err() {
                    out.analysis = Some(format!("provide_oov panicked on {:?} at {}", t, off));
                    continue;
                }
                let nodes = v.iter().map(|x| (x.begin(), x.end(), x.left_id(), x.right_id(), x.cost(), x.word_id().word())).collect();
                out.probes.push((cs.clone(), off, if other.is_empty() { 0 } else { 1 }, nodes));
            }
        }
    }
    // the accepted plugin in a full analysis (debug profile: any id outside the matrix trips an assertion)
    if env.debug {
        for t in ["abc京都に行くア12 x。", "αβ дж!?"] {
            let r = catch(|| {
                let mut tok = StatefulTokenizer::new(&dict, Mode::C);
                tok.reset().push_str(t);
                tok.do_tokenize().map(|_| ())
            });
            if let Err(p) = r {
                out.analysis = Some(format!("analysis of {:?} panicked: {}", t, p));
            }
        }
    }
    out
}

fn sys_pos_term() -> String {
    format!("(map pos_key {})", clist(SYS_POS.iter().map(|p| clist(p.split(',').map(ctext)))))
}

pub fn emit(sink: &mut Sink, env: &mut Env, case: &TextCase, shape: &str, verbose: bool) {
    let out = run_impl(env, case);
    let probes = clist(out.probes.iter().map(|(cs, off, other, nodes)| {
        format!(
            "({}, {}%nat, {}, {})",
            clist(cs.iter().map(|c| cn(*c))),
            off,
            cn(*other),
            clist(nodes.iter().map(|(b, e, l, r, c, p)| format!("Oov.mkNode {}%nat {}%nat {} {} {} {}", b, e, cn(*l), cn(*r), cz(*c as i64), cn(*p))))
        )
    }));
    let term = format!(
        "check_mecab_text_m (mkGram {} {} {}) {} {} {} {} {} {} {}",
        cz(case.nl),
        cz(case.nr),
        sys_pos_term(),
        match case.allow {
            Some(b) => format!("(Some {})", cbool(b)),
            None => "None".to_string(),
        },
        ctext(&case.chardef),
        ctext(&case.unkdef),
        out.status,
        cn(out.kind),
        copt(out.line.map(cn)),
        probes
    );
    sink.tag(&format!("text:{}", shape));
    sink.tag(&format!("text:impl={}", out.status));
    if out.status == "SErr" {
        sink.tag(&format!("text:error_kind={}", out.kind));
    }
    if out.probes_skipped {
        sink.tag("text:probes_skipped_huge_length");
    }
    sink.tag_n("text:probe_calls", out.probes.len() as u64);
    let d = json!({"kind": "c20-text", "shape": shape, "nl": case.nl, "nr": case.nr, "allow": case.allow,
                   "chardef": case.chardef, "unkdef": case.unkdef, "profile": if env.debug { "debug" } else { "release" }});
    let id = sink.case(term, d, shape != "all_valid" || out.status != "SOk");
    if verbose {
        println!("category definitions (charDef):\n{}", case.chardef);
        println!("unk.def:\n{}", case.unkdef);
        println!("implementation: load {} {}", out.status, out.msg);
        println!("  error kind {} line {:?}", out.kind, out.line);
        for (cs, off, other, nodes) in &out.probes {
            println!("  probe classes {:?} offset {} other_words {}: {:?}", cs, off, other, nodes);
        }
    }
    if out.status == "SPanic" {
        sink.fail(id, &format!("loading panicked instead of returning an error: {}", out.msg), "");
    }
    if let Some(a) = &out.analysis {
        sink.fail(id, &format!("definition texts were accepted, then {}", a), "");
    }
    if out.status == "SOk" && case.allow != Some(true) {
        // independent reading: a data line whose POS columns are none of the dictionary's POS
        let absent = case.unkdef.lines().map(|l| l.trim()).filter(|l| !l.is_empty() && !l.starts_with('#')).any(|l| {
            let c: Vec<&str> = l.split(',').collect();
            c.len() >= 10 && !SYS_POS.iter().any(|p| p.split(',').collect::<Vec<_>>() == c[4..10])
        });
        if absent {
            sink.fail(id, &format!("unk.def names a part of speech that is not in the dictionary while userPOS is {}, yet the plugin loaded", if case.allow.is_none() { "not mentioned" } else { "\"forbid\"" }), "");
        }
    }
    if out.status == "SErr" && out.kind == 0 {
        sink.fail(id, &format!("error value of an unexpected kind: {}", out.msg), "");
    }
}

// ------------------------------------------------------------------ generators

fn ws(rng: &mut Rng) -> &'static str {
    match rng.below(12) {
        0 => "\t",
        1 => "  ",
        2 => " \t ",
        3 => "\u{3000}",
        _ => " ",
    }
}

struct CatLine {
    name: String,
    inv: String,
    grp: String,
    len: String,
}

fn render_cat(l: &CatLine, rng: &mut Rng) -> String {
    let mut s = String::new();
    if rng.chance(1, 8) {
        s.push_str(ws(rng));
    }
    s.push_str(&l.name);
    for c in [&l.inv, &l.grp, &l.len] {
        s.push_str(ws(rng));
        s.push_str(c);
    }
    if rng.chance(1, 4) {
        s.push_str(ws(rng));
        s.push_str("# comment 1 2");
    }
    if rng.chance(1, 8) {
        s.push_str(" ");
    }
    s
}

fn eol(rng: &mut Rng) -> &'static str {
    if rng.chance(1, 6) {
        "\r\n"
    } else {
        "\n"
    }
}

/// valid category definitions for a random subset of the class names
fn gen_cats(rng: &mut Rng) -> Vec<CatLine> {
    let mut v = vec![];
    for n in NAMES.iter() {
        if *n == "DEFAULT" || rng.chance(2, 3) {
            v.push(CatLine {
                name: n.to_string(),
                inv: if rng.chance(1, 2) { "1" } else { "0" }.into(),
                grp: if rng.chance(1, 2) { "1" } else { "0" }.into(),
                len: rng.pick(&["0", "1", "2", "3", "12", "+2"]).to_string(),
            });
        }
    }
    v
}

fn pos_cols(rng: &mut Rng, allow_new: bool) -> Vec<String> {
    if allow_new && rng.chance(1, 3) {
        vec!["名詞".into(), format!("利用者{}", rng.below(3)), "*".into(), "*".into(), "*".into(), "*".into()]
    } else {
        SYS_POS[rng.below(3) as usize].split(',').map(|s| s.to_string()).collect()
    }
}

struct UnkLine {
    cols: Vec<String>,
}

fn gen_unk(rng: &mut Rng, cats: &[CatLine], nl: i64, nr: i64, allow: bool) -> Vec<UnkLine> {
    let mut v = vec![];
    let n = 1 + rng.below(8);
    for _ in 0..n {
        let c = &cats[rng.below(cats.len() as u64) as usize];
        let mut cols = vec![c.name.clone(), rng.below(nr as u64).to_string(), rng.below(nl as u64).to_string(), rng.range(-500, 9000).to_string()];
        cols.extend(pos_cols(rng, allow));
        if rng.chance(1, 6) {
            cols.push("extra".into());
        }
        v.push(UnkLine { cols });
    }
    v
}

fn render_chardef(cats: &[String], rng: &mut Rng) -> String {
    let mut s = String::new();
    for l in cats {
        if rng.chance(1, 6) {
            s.push_str("# a comment line");
            s.push_str(eol(rng));
        }
        if rng.chance(1, 8) {
            s.push_str(eol(rng));
        }
        if rng.chance(1, 6) {
            s.push_str("0x0030..0x0039 NUMERIC #0-9");
            s.push_str(eol(rng));
        }
        s.push_str(l);
        s.push_str(eol(rng));
    }
    if rng.chance(1, 5) {
        // no line terminator at the end of the file
        while s.ends_with('\n') || s.ends_with('\r') {
            s.pop();
        }
    }
    s
}

fn render_unk(lines: &[String], rng: &mut Rng) -> String {
    let mut s = String::new();
    for l in lines {
        if rng.chance(1, 6) {
            s.push_str("#DEFAULT,0,0,0,comment");
            s.push_str(eol(rng));
        }
        if rng.chance(1, 8) {
            s.push_str("   ");
            s.push_str(eol(rng));
        }
        if rng.chance(1, 10) {
            s.push(' ');
        }
        s.push_str(l);
        if rng.chance(1, 10) {
            s.push_str(" \t");
        }
        s.push_str(eol(rng));
    }
    if rng.chance(1, 5) {
        while s.ends_with('\n') || s.ends_with('\r') {
            s.pop();
        }
    }
    s
}

fn bad_number(rng: &mut Rng) -> String {
    rng.pick(&["x", "", " 5", "5 ", "1e3", "1.0", "０", "32768", "-32769", "99999999999999999999999", "--1", "+", "-", "0x10", "1_0"]).to_string()
}

fn dims(rng: &mut Rng) -> (i64, i64) {
    let a = *rng.pick(&[1i64, 2, 3, 5, 10]);
    (a, if rng.chance(1, 2) { a } else { *rng.pick(&[1i64, 2, 3, 5, 10]) })
}

/// bytes that are no UTF-8 text (outside the model, which takes code points): the readers must answer with an error value
fn emit_raw(sink: &mut Sink, env: &mut Env, chardef: &[u8], unkdef: &[u8], shape: &str) {
    let bytes = env.dictionary(3, 3);
    std::fs::write(env.dir.join("text_catdef.def"), chardef).unwrap();
    std::fs::write(env.dir.join("text_unk.def"), unkdef).unwrap();
    let cfg_text = format!(
        "{{\"path\":{},\"characterDefinitionFile\":\"char.def\",\"oovProviderPlugin\":[{{\"class\":\"com.worksap.nlp.sudachi.MeCabOovPlugin\",\"charDef\":\"text_catdef.def\",\"unkDef\":\"text_unk.def\"}}]}}",
        serde_json::to_string(&env.dir.to_string_lossy()).unwrap()
    );
    let cfg = ConfigBuilder::from_bytes(cfg_text.as_bytes()).expect("config json").build();
    let r = catch(|| JapaneseDictionary::from_cfg_storage(&cfg, SudachiDicData::new(Storage::Owned(bytes))).map(|_| ()));
    sink.tag(&format!("text:{}", shape));
    let id = sink.case_rust_only(json!({"kind": "c20-text-raw", "shape": shape, "chardef_bytes": chardef, "unkdef_bytes": unkdef}), true);
    match r {
        Err(p) => sink.fail(id, &format!("loading panicked on a definition file that is not UTF-8 text: {}", p), ""),
        Ok(Ok(())) => sink.fail(id, "a definition file that is not UTF-8 text was accepted", ""),
        Ok(Err(_)) => {}
    }
}

pub fn replay(sink: &mut Sink, env: &mut Env, c: &Value) {
    if c["kind"] == "c20-text-raw" {
        let b = |x: &Value| -> Vec<u8> { x.as_array().unwrap().iter().map(|v| v.as_u64().unwrap() as u8).collect() };
        println!("replaying C20 raw definition files");
        emit_raw(sink, env, &b(&c["chardef_bytes"]), &b(&c["unkdef_bytes"]), "replay");
        return;
    }
    let case = TextCase {
        nl: c["nl"].as_i64().unwrap(),
        nr: c["nr"].as_i64().unwrap(),
        allow: c["allow"].as_bool(),
        chardef: c["chardef"].as_str().unwrap().to_string(),
        unkdef: c["unkdef"].as_str().unwrap().to_string(),
    };
    println!("replaying C20 text case on a {}x{} matrix", case.nl, case.nr);
    emit(sink, env, &case, "replay", true);
}

pub fn run(sink: &mut Sink, env: &mut Env, rng: &mut Rng, n: usize) {
    // ---- directed
    let base_cd = "DEFAULT 0 1 0\nALPHA 1 1 0\nNUMERIC 1 1 0\nKANJI 0 0 2\n";
    let pos = SYS_POS[0];
    let directed: Vec<(&str, String, String)> = vec![
        ("directed_valid", base_cd.into(), format!("ALPHA,1,1,100,{}\nKANJI,0,0,5,{}\nALPHA,0,1,-3,{}\n", pos, pos, SYS_POS[1])),
        ("directed_empty_files", "".into(), "".into()),
        ("directed_only_comments", "# nothing\n\n0x0041 ALPHA\n".into(), "# nothing\n".into()),
        ("directed_id_eq_dimension", base_cd.into(), format!("ALPHA,3,0,100,{}\n", pos)),
        ("directed_id_eq_dimension", base_cd.into(), format!("ALPHA,0,3,100,{}\n", pos)),
        ("directed_negative_id", base_cd.into(), format!("ALPHA,-1,0,100,{}\n", pos)),
        ("directed_nine_columns", base_cd.into(), "ALPHA,1,1,100,a,b,c,d,e\n".into()),
        ("directed_empty_category", base_cd.into(), format!(",1,1,100,{}\n", pos)),
        ("directed_undefined_category", base_cd.into(), format!("HIRAGANA,1,1,100,{}\n", pos)),
        ("directed_unknown_category_name", base_cd.into(), format!("alpha,1,1,100,{}\n", pos)),
        ("directed_composite_category", "DEFAULT 0 1 0\nALPHA|NUMERIC 1 1 2\n".into(), format!("ALPHA | NUMERIC,1,1,100,{}\nNUMERIC|ALPHA,0,0,1,{}\n", pos, pos)),
        ("directed_hex_category", "DEFAULT 0 1 0\nALPHA 1 1 2\n".into(), format!("0x20,1,1,100,{}\n", pos)),
        ("directed_duplicate_category", "DEFAULT 0 1 0\nALPHA 1 1 0\nALPHA 0 0 2\n".into(), format!("ALPHA,1,1,100,{}\n", pos)),
        ("directed_three_columns", "DEFAULT 0 1\n".into(), "".into()),
        ("directed_flag_not_0_1", "DEFAULT yes 2 1\nALPHA 01 true 2\n".into(), format!("ALPHA,1,1,100,{}\nDEFAULT,1,1,100,{}\n", pos, pos)),
        ("directed_length_grid", "DEFAULT 0 1 -1\n".into(), "".into()),
        ("directed_length_grid", "DEFAULT 0 1 4294967296\n".into(), "".into()),
        ("directed_length_grid", "DEFAULT 0 1 4294967295\n".into(), format!("DEFAULT,1,1,100,{}\n", pos)),
        ("directed_crlf_and_trailing_space", "DEFAULT 0 1 0 \r\nALPHA\t1  1\u{3000}2\r\n".into(), format!(" ALPHA,1,1,100,{} \r\n\r\nDEFAULT,0,0,0,{}", pos, pos)),
        ("directed_number_with_space", base_cd.into(), format!("ALPHA, 1,1,100,{}\n", pos)),
        ("directed_plus_sign", base_cd.into(), format!("ALPHA,+1,+0,+100,{}\nALPHA,-0,1,-0,{}\n", pos, pos)),
        ("directed_cost_grid", base_cd.into(), format!("ALPHA,1,1,32767,{}\nALPHA,1,1,-32768,{}\n", pos, pos)),
        ("directed_cost_grid", base_cd.into(), format!("ALPHA,1,1,32768,{}\n", pos)),
        ("directed_absent_pos", base_cd.into(), "ALPHA,1,1,100,名詞,未登録,*,*,*,*\n".into()),
        ("directed_pos_with_space", base_cd.into(), "ALPHA,1,1,100, 名詞,固有名詞,地名,一般,*,*\n".into()),
    ];
    for (shape, cd, ud) in directed {
        for allow in [Some(false), Some(true), None] {
            emit(sink, env, &TextCase { nl: 3, nr: 3, allow, chardef: cd.clone(), unkdef: ud.clone() }, shape, false);
        }
    }
    emit(sink, env, &TextCase { nl: 3, nr: 2, allow: None, chardef: base_cd.into(), unkdef: format!("ALPHA,2,1,0,{}\n", pos) }, "directed_non_square", false);
    emit(sink, env, &TextCase { nl: 3, nr: 2, allow: Some(false), chardef: base_cd.into(), unkdef: format!("ALPHA,1,2,0,{}\n", pos) }, "directed_non_square", false);
    let good_cd = b"DEFAULT 0 1 0\nALPHA 1 1 0\n";
    let good_ud = format!("ALPHA,1,1,100,{}\n", pos);
    emit_raw(sink, env, b"DEFAULT 0 1 0\nALPHA \xff 1 0\n", good_ud.as_bytes(), "raw_invalid_utf8_in_category_definitions");
    emit_raw(sink, env, good_cd, b"ALPHA,1,1,100,\xe5\x90,b,c,d,e,f\n", "raw_invalid_utf8_in_unk_def");
    emit_raw(sink, env, good_cd, b"\xff\xfeA\x00L\x00", "raw_utf16_unk_def");
    // ---- structured stream: valid texts with exactly one damaged line
    for it in 0..n {
        let (nl, nr) = dims(rng);
        let allow: PosMode = if rng.chance(1, 2) { Some(true) } else { forbid_mode(rng) };
        let cats = gen_cats(rng);
        let unk = gen_unk(rng, &cats, nl, nr, allow == Some(true));
        let mut cat_lines: Vec<String> = cats.iter().map(|c| render_cat(c, rng)).collect();
        let mut unk_lines: Vec<String> = unk.iter().map(|u| u.cols.join(",")).collect();
        let shape: &str;
        let what = if it % 4 == 0 { 0 } else { 1 + rng.below(16) };
        let ci = rng.below(cat_lines.len() as u64) as usize;
        let ui = rng.below(unk_lines.len() as u64) as usize;
        match what {
            0 => shape = "all_valid",
            1 => {
                let k = rng.below(4) as usize;
                cat_lines[ci] = [&cats[ci].name, "1", "0", "2"][..k].join(" ");
                shape = "cat_too_few_columns";
            }
            2 => {
                cat_lines[ci] = format!("{} 1 0 2", rng.pick(&["alpha", "FOO", "ALPHA|", "|", "ALPHA||NUMERIC", "Ａ", "ALPHA,KANJI", "0"]));
                shape = "cat_bad_name";
            }
            3 => {
                let dup = cat_lines[rng.below(cat_lines.len() as u64) as usize].clone();
                cat_lines.insert(rng.below(cat_lines.len() as u64 + 1) as usize, dup);
                shape = "cat_duplicate";
            }
            4 => {
                cat_lines[ci] = format!("{} 1 0 {}", cats[ci].name, rng.pick(&["x", "-1", "4294967296", "1.0", "+", "３", "99999999999999999999", "0x2"]));
                shape = "cat_bad_length";
            }
            5 => {
                cat_lines[ci] = format!("{} {} {} 2", cats[ci].name, rng.pick(&["2", "true", "01", "1", "+1", "x"]), rng.pick(&["2", "yes", "1", "00", "１"]));
                shape = "cat_flag_not_0_1";
            }
            6 => {
                cat_lines.push(format!("{}|{} 1 1 2", rng.pick(&["USER2", "USER3"]), rng.pick(&["USER4", "0x8000", "USER3"])));
                shape = "cat_composite";
            }
            7 => {
                let k = rng.below(10) as usize;
                unk_lines[ui] = unk[ui].cols[..k].join(",");
                shape = "unk_too_few_columns";
            }
            8 => {
                let mut c = unk[ui].cols.clone();
                c[0] = rng.pick(&["", "alpha", "FOO", "ALPHA|", " ", "|", "ＡＬＰＨＡ"]).to_string();
                unk_lines[ui] = c.join(",");
                shape = "unk_bad_category";
            }
            9 => {
                let mut c = unk[ui].cols.clone();
                let undefined: Vec<&&str> = NAMES.iter().filter(|n| !cats.iter().any(|x| x.name == **n)).collect();
                c[0] = if undefined.is_empty() { "USER4".to_string() } else { undefined[rng.below(undefined.len() as u64) as usize].to_string() };
                unk_lines[ui] = c.join(",");
                shape = "unk_undefined_category";
            }
            10 => {
                let mut c = unk[ui].cols.clone();
                let k = 1 + rng.below(3) as usize;
                c[k] = bad_number(rng);
                unk_lines[ui] = c.join(",");
                shape = "unk_bad_number";
            }
            11 => {
                let mut c = unk[ui].cols.clone();
                if rng.chance(1, 2) {
                    c[1] = rng.pick(&[nr, nr + 1, nl, -1, 32767, nr - 1]).to_string();
                } else {
                    c[2] = rng.pick(&[nl, nl + 1, nr, -1, 32767, nl - 1]).to_string();
                }
                unk_lines[ui] = c.join(",");
                shape = "unk_id_grid";
            }
            12 => {
                let mut c = unk[ui].cols.clone();
                c[3] = rng.pick(&["32767", "-32768", "32768", "-32769", "+7", "-0"]).to_string();
                unk_lines[ui] = c.join(",");
                shape = "unk_cost_grid";
            }
            13 => {
                let mut c = unk[ui].cols.clone();
                let k = 4 + rng.below(6) as usize;
                c[k] = rng.pick(&["", " 名詞", "名詞 ", "存在しない", "*"]).to_string();
                unk_lines[ui] = c.join(",");
                shape = "unk_pos_changed";
            }
            14 => {
                let mut c = unk[ui].cols.clone();
                c[0] = format!(" {} ", c[0]);
                let k = 1 + rng.below(3) as usize;
                c[k] = format!("{}{}", if rng.chance(1, 2) { "+" } else { "" }, c[k].trim_start_matches('-'));
                unk_lines[ui] = c.join(",");
                shape = "unk_padded_category_and_plus";
            }
            15 => {
                // two damaged lines: the first one decides
                let a = rng.below(unk_lines.len() as u64) as usize;
                let mut c = unk[a].cols.clone();
                c[2] = bad_number(rng);
                unk_lines[a] = c.join(",");
                let mut c2 = unk[ui].cols.clone();
                c2[1] = (nr + 3).to_string();
                unk_lines[ui] = c2.join(",");
                shape = "unk_two_damaged_lines";
            }
            _ => {
                cat_lines[ci] = format!("{} 1 1 {}", cats[ci].name, rng.pick(&["4294967295", "70000", "65"]));
                shape = "cat_huge_length";
            }
        }
        let case = TextCase { nl, nr, allow, chardef: render_chardef(&cat_lines, rng), unkdef: render_unk(&unk_lines, rng) };
        emit(sink, env, &case, shape, false);
    }
}
