//! C13 — unknown-word candidates follow the character-class definition.
//!
//! One case = (generated char.def / unk.def / provider list / lexicon, text).  The implementation is observed at three
//! levels: the built `InputBuffer` (classes, can_bow, cat_continuous_len), every provider through the public
//! `OovProviderPlugin` trait (all/sampled offsets x several `CreatedWords` x pre-filled result vectors), and the lattice of a
//! real tokenization through the `verif` hook.  The Coq term re-computes all of it with the model and evaluates the
//! property predicates (continuity = left-to-right specification, MeCab candidates = prescription, a candidate at every
//! processed position) on the implementation's output.
use crate::common::*;
use serde_json::{json, Value};
use std::collections::BTreeMap;
use std::path::PathBuf;
use sudachi::analysis::created::CreatedWords;
use sudachi::analysis::mlist::MorphemeList;
use sudachi::analysis::node::{LatticeNode, RightId};
use sudachi::analysis::stateful_tokenizer::StatefulTokenizer;
use sudachi::analysis::stateless_tokenizer::DictionaryAccess;
use sudachi::analysis::{Mode, Node};
use sudachi::config::ConfigBuilder;
use sudachi::dic::build::DictBuilder;
use sudachi::dic::dictionary::JapaneseDictionary;
use sudachi::dic::storage::{Storage, SudachiDicData};
use sudachi::dic::word_id::WordId;
use sudachi::input_text::{InputBuffer, InputTextIndex};

const CLASSES: [(&str, u32); 18] = [
    ("DEFAULT", 1),
    ("SPACE", 2),
    ("KANJI", 4),
    ("SYMBOL", 8),
    ("NUMERIC", 16),
    ("ALPHA", 32),
    ("HIRAGANA", 64),
    ("KATAKANA", 128),
    ("KANJINUMERIC", 256),
    ("GREEK", 512),
    ("CYRILLIC", 1024),
    ("USER1", 2048),
    ("USER2", 4096),
    ("USER3", 8192),
    ("USER4", 16384),
    ("NOOOVBOW", 1 << 30),
    ("NOOOVBOW2", 1 << 31),
    ("ALL", 0x3FFF_FFFF),
];
const C_NOOOVBOW: usize = 15;
const C_NOOOVBOW2: usize = 16;
const C_ALL: usize = 17;

/// (code point, classes in a natural definition, is a mark/modifier)
const ALPHABET: [(char, &[usize], bool); 24] = [
    ('a', &[5], false),
    ('b', &[5], false),
    ('c', &[5], false),
    ('e', &[5], false),
    ('α', &[9], false),
    ('я', &[10], false),
    ('1', &[4], false),
    ('2', &[4], false),
    ('京', &[2], false),
    ('東', &[2], false),
    ('都', &[2], false),
    ('一', &[2, 8], false),
    ('に', &[6], false),
    ('た', &[6], false),
    ('ア', &[7], false),
    ('ァ', &[7, 15], false),
    (' ', &[1], false),
    ('!', &[3], false),
    ('👍', &[0], false),
    ('\u{301}', &[17, 15], true),
    ('\u{3099}', &[17, 15], true),
    ('\u{1F3FB}', &[17, 15], true),
    ('\u{FE0F}', &[17, 15], true),
    ('\u{200D}', &[17, 16], true),
];

const POS_POOL: [[&str; 6]; 5] = [
    ["名詞", "普通名詞", "一般", "*", "*", "*"],
    ["名詞", "数詞", "*", "*", "*", "*"],
    ["補助記号", "一般", "*", "*", "*", "*"],
    ["名詞", "固有名詞", "OOV", "*", "*", "*"],
    ["感動詞", "REGEX", "*", "*", "*", "*"],
];
const WORDS: [&str; 14] = ["た", "に", "京都", "東京都", "東", "東京", "a", "ab", "abc", "アァ", "1", "e\u{301}", "👍", "12"];
const NIDS: i64 = 4;

#[derive(Clone, Debug)]
struct OovDef {
    left: i64,
    right: i64,
    cost: i64,
    pos: usize,
}
#[derive(Clone, Debug)]
struct ClassInfo {
    class: usize,
    invoke: bool,
    group: bool,
    length: u32,
}
#[derive(Clone, Debug)]
struct Atom {
    set: Vec<char>,
    min: usize,
    max: usize, // usize::MAX = unbounded
}
#[derive(Clone, Debug)]
struct Pattern {
    alts: Vec<Vec<Atom>>,
}
#[derive(Clone, Debug)]
enum Prov {
    Mecab,
    Simple(OovDef),
    Regex { def: OovDef, pat: Pattern, maxlen: Option<usize>, strict: Option<bool>, debug: bool },
}

struct Config {
    seed: u64,
    chars: BTreeMap<char, Vec<usize>>,
    infos: Vec<ClassInfo>,
    unks: Vec<(usize, OovDef)>,
    provs: Vec<Prov>,
    words: Vec<String>,
    char_def: String,
    unk_def: String,
    plugins: Value,
    lex: String,
    matrix: String,
    dict: Option<JapaneseDictionary>,
    load_error: Option<String>,
    /// text that belongs to a "segments" configuration (directed code SEGMENTS)
    scenario_text: Option<String>,
}

/// directed code of the "segments" stream: the text is a sequence of runs of distinct characters, some of them around or
/// above CreatedWords::MAX_VALUE, and every Regex provider matches a contiguous range of those runs -- so candidates that
/// start at different positions end at the same boundary, several long candidates with different ends start at one
/// position, and whatever a provider or the lattice builder carries over from an earlier position becomes visible
const SEGMENTS: u32 = 100;

/// class lengths above 80 are generated only while this holds: the run first probes the real plugin with a large but
/// harmless length (escalation); if the number of candidates grows with `length` the huge values are not tried at all
static ALLOW_HUGE: std::sync::atomic::AtomicBool = std::sync::atomic::AtomicBool::new(true);
fn allow_huge() -> bool {
    ALLOW_HUGE.load(std::sync::atomic::Ordering::Relaxed)
}

fn bits(cs: &[usize]) -> u32 {
    cs.iter().fold(0, |a, c| a | CLASSES[*c].1)
}

fn gen_def(rng: &mut Rng) -> OovDef {
    OovDef { left: rng.below(NIDS as u64) as i64, right: rng.below(NIDS as u64) as i64, cost: rng.range(-2000, 20000), pos: rng.below(POS_POOL.len() as u64) as usize }
}

fn render_set(set: &[char]) -> String {
    let mut s = String::from("[");
    for c in set {
        s.push(*c);
    }
    s.push(']');
    s
}
fn render_pattern(p: &Pattern) -> String {
    let mut alts = vec![];
    for alt in &p.alts {
        let mut s = String::new();
        for a in alt {
            s.push_str(&render_set(&a.set));
            match (a.min, a.max) {
                (1, 1) => {}
                (1, usize::MAX) => s.push('+'),
                (0, usize::MAX) => s.push('*'),
                (m, n) => s.push_str(&format!("{{{},{}}}", m, n)),
            }
        }
        alts.push(s);
    }
    alts.join("|")
}

/// greedy backtracking match of a sequence of quantified sets at `pos`; returns the end
fn match_seq(atoms: &[Atom], chars: &[char], pos: usize) -> Option<usize> {
    if atoms.is_empty() {
        return Some(pos);
    }
    let a = &atoms[0];
    let mut n = 0;
    while pos + n < chars.len() && n < a.max && a.set.contains(&chars[pos + n]) {
        n += 1;
    }
    loop {
        if n < a.min {
            return None;
        }
        if let Some(e) = match_seq(&atoms[1..], chars, pos + n) {
            return Some(e);
        }
        if n == 0 {
            return None;
        }
        n -= 1;
    }
}
/// independent re-implementation of `Regex::find` for the generated pattern family ("^" binds to the first alternative only)
fn find(p: &Pattern, chars: &[char]) -> Option<(usize, usize)> {
    for start in 0..=chars.len() {
        for (k, alt) in p.alts.iter().enumerate() {
            if k == 0 && start != 0 {
                continue;
            }
            if let Some(e) = match_seq(alt, chars, start) {
                return Some((start, e));
            }
        }
    }
    None
}

fn gen_set(rng: &mut Rng, chars: &[char]) -> Vec<char> {
    let n = 1 + rng.below(4) as usize;
    let mut s = vec![];
    for _ in 0..n {
        let c = *rng.pick(chars);
        if !s.contains(&c) {
            s.push(c);
        }
    }
    s
}
fn gen_pattern(rng: &mut Rng) -> Pattern {
    let chars: Vec<char> = ALPHABET.iter().map(|x| x.0).filter(|c| *c != ' ').collect();
    let unb = usize::MAX;
    let k = rng.below(20);
    let alts = match k {
        0..=8 => vec![vec![Atom { set: gen_set(rng, &chars), min: 1, max: unb }]],
        9..=10 => {
            let m = 1 + rng.below(3) as usize;
            vec![vec![Atom { set: gen_set(rng, &chars), min: m, max: m + rng.below(4) as usize }]]
        }
        11..=13 => vec![vec![Atom { set: gen_set(rng, &chars), min: 1, max: unb }, Atom { set: gen_set(rng, &chars), min: 1, max: 1 }]],
        14..=15 => vec![vec![Atom { set: gen_set(rng, &chars), min: 1, max: 1 }, Atom { set: gen_set(rng, &chars), min: 0, max: unb }]],
        16..=18 => vec![vec![Atom { set: gen_set(rng, &chars), min: 1, max: unb }], vec![Atom { set: gen_set(rng, &chars), min: 1, max: unb }]],
        _ => vec![vec![Atom { set: gen_set(rng, &chars), min: 0, max: unb }]], // can match the empty string
    };
    Pattern { alts }
}

fn gen_config(seed: u64, work: &PathBuf, directed: u32) -> Config {
    let mut rng = Rng::new(seed);
    // ---- character classes
    let natural = directed != 0 || rng.chance(1, 3);
    let palette: Vec<usize> = vec![0, 2, 3, 4, 5, 6, 7, 9, 10, 11, 12, 1, 8];
    let mut chars = BTreeMap::new();
    for (c, nat, mark) in ALPHABET.iter() {
        let cls: Vec<usize> = if natural {
            nat.to_vec()
        } else {
            let mut v = vec![];
            if *mark && rng.chance(2, 3) {
                v.push(C_ALL);
                v.push(if rng.chance(1, 4) { C_NOOOVBOW2 } else { C_NOOOVBOW });
            } else {
                let n = match rng.below(10) {
                    0 => 0,
                    1..=5 => 1,
                    6..=8 => 2,
                    _ => 3,
                };
                for _ in 0..n {
                    let span = 6 + rng.below(8);
                    let k = palette[rng.below(span) as usize % palette.len()];
                    if !v.contains(&k) {
                        v.push(k);
                    }
                }
                if rng.chance(1, 25) {
                    v.push(C_ALL);
                }
                if rng.chance(1, 14) {
                    v.push(C_NOOOVBOW);
                }
                if rng.chance(1, 30) {
                    v.push(C_NOOOVBOW2);
                }
            }
            v
        };
        chars.insert(*c, cls);
    }
    // ---- class infos (char.def header) and unk.def
    let mut infos = vec![];
    let mut classes_used: Vec<usize> = vec![0];
    for v in chars.values() {
        for k in v {
            if !classes_used.contains(k) {
                classes_used.push(*k);
            }
        }
    }
    for k in &classes_used {
        if *k != 0 && rng.chance(1, 7) {
            continue; // a class of the text without definition
        }
        let length = match rng.below(8) {
            0..=2 => 0,
            3..=4 => 1,
            5 => 2,
            6 => 3,
            _ => match rng.below(8) {
                // a u32: nothing limits it when the definition is loaded
                0 => u32::MAX,
                1 => 3_000_000,
                _ => 1 + rng.below(80) as u32,
            },
        };
        infos.push(ClassInfo { class: *k, invoke: rng.chance(1, 2), group: rng.chance(1, 2), length });
    }
    let mut unks = vec![];
    for ci in &infos {
        let n = match rng.below(8) {
            0 => 0,
            1..=5 => 1,
            6 => 2,
            _ => 3,
        };
        for _ in 0..n {
            unks.push((ci.class, gen_def(&mut rng)));
        }
    }
    if directed != 0 {
        // the shape of the shipped definition: every class grouped, ALPHA/NUMERIC always invoked
        infos.clear();
        unks.clear();
        for k in [0usize, 1, 2, 3, 4, 5, 6, 7, 8, 9, 10] {
            if directed == SEGMENTS {
                infos.push(ClassInfo { class: k, invoke: rng.chance(2, 3), group: rng.chance(3, 4), length: if rng.chance(1, 12) { [70u32, 3_000_000, u32::MAX][rng.below(3) as usize] } else { rng.below(4) as u32 } });
            } else {
                infos.push(ClassInfo { class: k, invoke: k == 4 || k == 5, group: true, length: if k == 2 { 3 } else { 0 } });
            }
            unks.push((k, OovDef { left: (k % 4) as i64, right: (k % 4) as i64, cost: 3000 + k as i64, pos: k % 3 }));
        }
    }
    // shuffle unk lines a little so that lines of one class are not adjacent
    if unks.len() > 2 && rng.chance(1, 2) {
        let i = rng.below(unks.len() as u64) as usize;
        let j = rng.below(unks.len() as u64) as usize;
        unks.swap(i, j);
    }
    if !allow_huge() {
        for ci in infos.iter_mut() {
            ci.length = ci.length.min(80);
        }
    }
    let mut char_def = String::from("# generated by the C13 harness\n");
    for ci in &infos {
        char_def.push_str(&format!("{} {} {} {}\n", CLASSES[ci.class].0, ci.invoke as u8, ci.group as u8, ci.length));
    }
    for (c, cls) in &chars {
        if cls.is_empty() {
            continue;
        }
        if cls.len() > 1 && rng.chance(1, 3) {
            for k in cls {
                char_def.push_str(&format!("0x{:04X} {}\n", *c as u32, CLASSES[*k].0));
            }
        } else {
            let names: Vec<&str> = cls.iter().map(|k| CLASSES[*k].0).collect();
            char_def.push_str(&format!("0x{:04X} {}\n", *c as u32, names.join(" ")));
        }
    }
    let mut unk_def = String::new();
    for (k, d) in &unks {
        unk_def.push_str(&format!("{},{},{},{},{}\n", CLASSES[*k].0, d.left, d.right, d.cost, POS_POOL[d.pos].join(",")));
    }
    // ---- providers
    let mut provs = vec![];
    let mut scenario_text = None;
    if directed == SEGMENTS {
        let pool: Vec<char> = vec!['a', 'b', 'c', 'e', 'α', 'я', '1', '2', '京', '東', 'に', 'ア', '!', '👍'];
        let nseg = 2 + rng.below(3) as usize;
        let mut segs: Vec<(char, usize)> = vec![];
        let long_at = rng.below(nseg as u64) as usize;
        for i in 0..nseg {
            let mut c = *rng.pick(&pool);
            while segs.iter().any(|s| s.0 == c) {
                c = *rng.pick(&pool);
            }
            let n = if i == long_at || rng.chance(1, 5) { 58 + rng.below(30) as usize } else { 1 + rng.below(3) as usize };
            segs.push((c, n));
        }
        let mut text = String::new();
        for (c, n) in &segs {
            for _ in 0..*n {
                text.push(*c);
            }
        }
        if rng.chance(2, 3) {
            provs.push(Prov::Mecab);
        }
        let nre = 3 + rng.below(3) as usize;
        let mut ranges: Vec<(usize, usize)> = vec![];
        for _ in 0..nre {
            let i = rng.below(nseg as u64) as usize;
            // half of the time end where an earlier pattern ends
            let j = if !ranges.is_empty() && rng.chance(2, 3) { usize::max(i, rng.pick(&ranges).1) } else { i + rng.below((nseg - i) as u64) as usize };
            ranges.push((i, j));
            provs.push(Prov::Regex {
                def: gen_def(&mut rng),
                pat: Pattern { alts: vec![(i..=j).map(|k| Atom { set: vec![segs[k].0], min: 1, max: usize::MAX }).collect()] },
                maxlen: Some(if rng.chance(1, 6) { 100 } else { 400 }),
                strict: match rng.below(4) {
                    0 => Some(true),
                    1 => None,
                    _ => Some(false),
                },
                debug: false,
            });
            if rng.chance(1, 4) {
                provs.push(Prov::Mecab);
            }
        }
        if rng.chance(3, 4) {
            provs.push(Prov::Simple(gen_def(&mut rng)));
        }
        scenario_text = Some(text);
    } else if directed != 0 {
        provs.push(Prov::Mecab);
        provs.push(Prov::Regex {
            def: OovDef { left: 2, right: 2, cost: -100, pos: 4 },
            pat: Pattern { alts: vec![vec![Atom { set: vec!['a', 'b', '1', '2'], min: 1, max: usize::MAX }]] },
            maxlen: Some(400),
            strict: Some(false),
            debug: false,
        });
        provs.push(Prov::Simple(OovDef { left: 1, right: 1, cost: 6000, pos: 0 }));
    } else {
        let n = match rng.below(20) {
            0..=2 => 1,
            3..=11 => 2,
            _ => 3,
        };
        for i in 0..n {
            let last = i + 1 == n;
            let k = if last && rng.chance(3, 4) { 1 } else { rng.below(3) };
            provs.push(match k {
                0 => Prov::Mecab,
                1 => Prov::Simple(gen_def(&mut rng)),
                _ => Prov::Regex {
                    def: gen_def(&mut rng),
                    pat: gen_pattern(&mut rng),
                    maxlen: match rng.below(6) {
                        0 => Some(1),
                        1 => Some(2 + rng.below(4) as usize),
                        2 | 3 => Some(400),
                        _ => None,
                    },
                    strict: match rng.below(3) {
                        0 => Some(true),
                        1 => Some(false),
                        _ => None,
                    },
                    debug: rng.chance(1, 5),
                },
            });
        }
    }
    let mut pj = vec![];
    for p in &provs {
        pj.push(match p {
            Prov::Mecab => json!({"class": "com.worksap.nlp.sudachi.MeCabOovPlugin", "charDef": "char.def", "unkDef": "unk.def", "userPOS": "allow"}),
            Prov::Simple(d) => json!({"class": "com.worksap.nlp.sudachi.SimpleOovPlugin", "oovPOS": POS_POOL[d.pos], "leftId": d.left, "rightId": d.right, "cost": d.cost, "userPOS": "allow"}),
            Prov::Regex { def, pat, maxlen, strict, debug } => {
                let mut v = json!({"class": "com.worksap.nlp.sudachi.RegexOovProvider", "oovPOS": POS_POOL[def.pos], "leftId": def.left, "rightId": def.right,
                                   "cost": def.cost, "userPOS": "allow", "regex": render_pattern(pat), "debug": debug});
                if let Some(m) = maxlen {
                    v["maxLength"] = json!(m);
                }
                if let Some(s) = strict {
                    v["boundaries"] = json!(if *s { "strict" } else { "relaxed" });
                }
                v
            }
        });
    }
    // ---- lexicon and matrix
    let mut words: Vec<String> = vec![];
    for w in WORDS.iter() {
        if rng.chance(1, 2) {
            words.push(w.to_string());
            if rng.chance(1, 8) {
                words.push(w.to_string()); // homograph
            }
        }
    }
    if words.is_empty() {
        words.push("た".to_string());
    }
    let mut lex = String::new();
    for w in &words {
        lex.push_str(&format!("{},{},{},{},{},名詞,普通名詞,一般,*,*,*,ア,{},*,A,*,*,*,*\n", w, rng.below(NIDS as u64), rng.below(NIDS as u64), rng.range(0, 9000), w, w));
    }
    let mut matrix = format!("{} {}\n", NIDS, NIDS);
    for l in 0..NIDS {
        for r in 0..NIDS {
            matrix.push_str(&format!("{} {} {}\n", l, r, rng.range(-300, 900)));
        }
    }
    let plugins = Value::Array(pj);
    let mut cfg = Config { seed, chars, infos, unks, provs, words, char_def, unk_def, plugins, lex, matrix, dict: None, load_error: None, scenario_text };
    // ---- load through the public API
    // one directory per process: quick and thorough runs may overlap
    let dir = work.join(format!("c13res-{}", std::process::id()));
    std::fs::create_dir_all(&dir).unwrap();
    std::fs::write(dir.join("char.def"), &cfg.char_def).unwrap();
    std::fs::write(dir.join("unk.def"), &cfg.unk_def).unwrap();
    let cj = json!({"path": dir.to_string_lossy(), "characterDefinitionFile": "char.def", "oovProviderPlugin": cfg.plugins});
    let r = catch(|| -> Result<JapaneseDictionary, String> {
        let mut b = DictBuilder::new_system();
        b.read_conn(cfg.matrix.as_bytes()).map_err(|e| format!("{:?}", e))?;
        b.read_lexicon(cfg.lex.as_bytes()).map_err(|e| format!("{:?}", e))?;
        b.resolve().map_err(|e| format!("{:?}", e))?;
        let mut bytes = Vec::new();
        b.compile(&mut bytes).map_err(|e| format!("{:?}", e))?;
        let c = ConfigBuilder::from_bytes(cj.to_string().as_bytes()).map_err(|e| format!("{:?}", e))?.build();
        JapaneseDictionary::from_cfg_storage(&c, SudachiDicData::new(Storage::Owned(bytes))).map_err(|e| format!("{:?}", e))
    });
    match r {
        Ok(Ok(d)) => cfg.dict = Some(d),
        Ok(Err(e)) => cfg.load_error = Some(e),
        Err(p) => cfg.load_error = Some(format!("panic: {}", p)),
    }
    cfg
}

fn gen_text(rng: &mut Rng, cfg: &Config, directed: u32) -> String {
    if directed == SEGMENTS {
        return cfg.scenario_text.clone().unwrap_or_default();
    }
    match directed {
        1 => return "👍\u{1F3FB}京".to_string(),
        2 => return "e\u{301}京".to_string(),
        3 => return "a\u{200D}\u{200D}京b".to_string(),
        4 => return "アァ\u{3099}ア東京都に".to_string(),
        5 => return "a".repeat(70) + "京",
        6 => return "12e\u{301}\u{301}ab!".to_string(),
        _ => {}
    }
    let bases: Vec<char> = ALPHABET.iter().filter(|x| !x.2).map(|x| x.0).collect();
    let marks: Vec<char> = ALPHABET.iter().filter(|x| x.2).map(|x| x.0).collect();
    let mut s = String::new();
    let kind = rng.below(20);
    if kind == 0 {
        // a run longer than 64 (preferably of a character a configured pattern matches)
        let mut c = *rng.pick(&bases);
        for p in &cfg.provs {
            if let Prov::Regex { pat, .. } = p {
                if rng.chance(3, 4) {
                    c = pat.alts[0][0].set[0];
                }
            }
        }
        let n = 60 + rng.below(30) as usize;
        for i in 0..n {
            s.push(c);
            if i == 40 && rng.chance(1, 3) {
                s.push(*rng.pick(&marks));
            }
        }
        if rng.chance(1, 2) {
            s.push(*rng.pick(&bases));
        }
        return s;
    }
    let target = 1 + rng.below(if kind < 4 { 4 } else { 14 }) as usize;
    let mut n = 0;
    while n < target {
        match rng.below(10) {
            0..=2 => {
                // a dictionary word
                let w = rng.pick(&cfg.words).clone();
                n += w.chars().count();
                s.push_str(&w);
            }
            3..=6 => {
                // a short run of one base character or of characters sharing a class
                let c = *rng.pick(&bases);
                let k = 1 + rng.below(4) as usize;
                for _ in 0..k {
                    if rng.chance(1, 3) {
                        let same: Vec<char> = bases.iter().copied().filter(|b| bits(&cfg.chars[b]) & bits(&cfg.chars[&c]) != 0).collect();
                        s.push(if same.is_empty() { c } else { *rng.pick(&same) });
                    } else {
                        s.push(c);
                    }
                    n += 1;
                }
            }
            7..=8 => {
                // base + marks/modifiers
                s.push(*rng.pick(&bases));
                n += 1;
                for _ in 0..1 + rng.below(2) {
                    s.push(*rng.pick(&marks));
                    n += 1;
                }
            }
            _ => {
                s.push(*rng.pick(&marks));
                n += 1;
            }
        }
    }
    s
}

// ---------- Coq printing ----------
fn cnat(x: usize) -> String {
    format!("{}%nat", x)
}
fn cdef(d: &OovDef) -> String {
    format!("(mkOov {} {} {} {})", cn(d.left as u64), cn(d.right as u64), cz(d.cost), cn(d.pos as u64))
}
#[derive(Clone, Debug, PartialEq)]
struct ONode {
    begin: usize,
    end: usize,
    left: u16,
    right: u16,
    cost: i16,
    pos: usize, // index into POS_POOL; usize::MAX when the id names no pool entry
    dict: bool,
}
fn cnode(n: &ONode) -> String {
    if n.dict {
        format!("(dict_node {} {})", cnat(n.begin), cnat(n.end))
    } else {
        format!("(mkNode {} {} {} {} {} {})", cnat(n.begin), cnat(n.end), cn(n.left), cn(n.right), cz(n.cost as i64), cn(n.pos as u64))
    }
}
fn cres<T>(r: &Result<Result<T, String>, String>, f: impl Fn(&T) -> String) -> String {
    match r {
        Ok(Ok(v)) => format!("(ROk {})", f(v)),
        Ok(Err(_)) => "RErr".to_string(),
        Err(_) => "RPanic".to_string(),
    }
}

fn pos_index(dict: &JapaneseDictionary, id: u32) -> usize {
    let g = dict.grammar();
    if (id as usize) >= g.pos_list.len() {
        return usize::MAX;
    }
    let comps = g.pos_components(id as u16);
    POS_POOL.iter().position(|p| p.iter().zip(comps.iter()).all(|(a, b)| a == b) && comps.len() == 6).unwrap_or(usize::MAX)
}

fn to_onode(dict: &JapaneseDictionary, n: &Node) -> ONode {
    let w = n.word_id();
    ONode { begin: n.begin(), end: n.end(), left: n.left_id(), right: n.right_id(), cost: n.cost(), pos: if w.is_oov() { pos_index(dict, w.word()) } else { 0 }, dict: !w.is_oov() }
}

/// one morpheme of a result as the Coq tuple (raw word id, begin, end, reported view); character offsets of the original text
fn morph_term<D: DictionaryAccess>(m: &sudachi::analysis::morpheme::Morpheme<D>) -> String {
    format!(
        "({}, {}, {}, mkMV {} {} {} {} {} {} {})",
        cn(m.word_id().as_raw()),
        cnat(m.begin_c()),
        cnat(m.end_c()),
        cbool(m.is_oov()),
        cz(m.dictionary_id() as i64),
        cn(m.part_of_speech_id()),
        ctext(&m.surface()),
        ctext(m.normalized_form()),
        ctext(m.dictionary_form()),
        ctext(m.reading_form())
    )
}

struct CaseOut {
    term: String,
    desc: Value,
    nontrivial: bool,
    fails: Vec<String>,
    tags: Vec<String>,
}

/// Objects that live across the cases of one configuration, the way an application uses the library: ONE InputBuffer
/// (reset / push / start_build / build), ONE StatefulTokenizer and ONE MorphemeList that takes the results out with
/// collect_results (which swaps the two input buffers, so a tokenizer sees again the buffer of its analysis k-2).
/// Every step is compared with the model (the Coq term is made from what the reused objects report) and with new objects.
struct Session<'d> {
    buf: InputBuffer,
    tok: StatefulTokenizer<&'d JapaneseDictionary>,
    ml: MorphemeList<&'d JapaneseDictionary>,
    history: Vec<(String, u64)>,
}
impl<'d> Session<'d> {
    fn new(dict: &'d JapaneseDictionary) -> Session<'d> {
        Session { buf: InputBuffer::new(), tok: StatefulTokenizer::create(dict, false, Mode::C), ml: MorphemeList::empty(dict), history: vec![] }
    }
}

fn lattice_of(dict: &JapaneseDictionary, l: &sudachi::analysis::lattice::Lattice, len: usize) -> Vec<Vec<ONode>> {
    let mut per: Vec<Vec<ONode>> = vec![vec![]; len];
    for end in 0..l.verif_size() {
        for vn in l.verif_nodes(end) {
            let oov = vn.word_id >> 28 == 0xF;
            if vn.begin >= len {
                continue;
            }
            per[vn.begin].push(ONode {
                begin: vn.begin,
                end: vn.end,
                left: vn.left_id,
                right: vn.right_id,
                cost: vn.cost,
                pos: if oov { pos_index(dict, vn.word_id & 0x0FFF_FFFF) } else { 0 },
                dict: !oov,
            });
        }
    }
    per
}

/// a text of n single-character class runs: two characters without a common class, alternating
fn singles_text(rng: &mut Rng, cfg: &Config, n: usize) -> Option<String> {
    let bases: Vec<char> = ALPHABET.iter().filter(|x| !x.2).map(|x| x.0).collect();
    for _ in 0..20 {
        let (x, y) = (*rng.pick(&bases), *rng.pick(&bases));
        let (bx, by) = (bits(&cfg.chars[&x]).max(1), bits(&cfg.chars[&y]).max(1));
        if bx & by == 0 {
            return Some((0..n).map(|i| if i % 2 == 0 { x } else { y }).collect());
        }
    }
    None
}

fn run_case(cfg: &Config, text: &str, rng: &mut Rng, verbose: bool) -> CaseOut {
    run_case_in(cfg, text, rng, verbose, None)
}

fn run_case_in<'a>(cfg: &'a Config, text: &str, rng: &mut Rng, verbose: bool, session: Option<&mut Session<'a>>) -> CaseOut {
    let dict = cfg.dict.as_ref().unwrap();
    let (sbuf, stok, sml) = match session {
        Some(s) => (Some(&mut s.buf), Some(&mut s.tok), Some(&mut s.ml)),
        None => (None, None, None),
    };
    let mut fails = vec![];
    let mut tags = vec![];
    let chars: Vec<char> = text.chars().collect();
    let len = chars.len();
    // ---------------- buffer level
    let mut fresh_buf = InputBuffer::from(text);
    fresh_buf.build(dict.grammar()).unwrap();
    let reused = sbuf.is_some();
    let buf: &InputBuffer = match sbuf {
        Some(b) => {
            b.reset().push_str(text);
            b.start_build().unwrap();
            b.build(dict.grammar()).unwrap();
            b
        }
        None => &fresh_buf,
    };
    let cats: Vec<u32> = (0..len).map(|i| buf.cat_at_char(i).bits()).collect();
    let conts: Vec<usize> = (0..len).map(|i| buf.cat_continuous_len(i)).collect();
    if reused {
        let fc: Vec<usize> = (0..len).map(|i| fresh_buf.cat_continuous_len(i)).collect();
        let fb: Vec<bool> = (0..len).map(|i| fresh_buf.can_bow(fresh_buf.to_curr_byte_idx(i))).collect();
        let rb: Vec<bool> = (0..len).map(|i| buf.can_bow(buf.to_curr_byte_idx(i))).collect();
        if fc != conts || fb != rb {
            fails.push(format!("reused InputBuffer reports cat_continuous_len {:?} / can_bow {:?}, a new one {:?} / {:?}", conts, rb, fc, fb));
        }
    }
    let mut bows = vec![];
    for i in 0..len {
        let b0 = buf.to_curr_byte_idx(i);
        let b1 = buf.to_curr_byte_idx(i + 1);
        bows.push(buf.can_bow(b0));
        for b in b0 + 1..b1 {
            if buf.can_bow(b) {
                fails.push(format!("continuation byte {} of character {} can start a word", b, i));
            }
        }
    }
    // independent oracle: classes = union of the generated definition, continuity = greedy left-to-right segmentation
    for i in 0..len {
        let mut want = bits(&cfg.chars[&chars[i]]);
        if want == 0 {
            want = 1;
        }
        if cats[i] != want {
            fails.push(format!("character {} U+{:04X}: classes {:#x}, definition says {:#x}", i, chars[i] as u32, cats[i], want));
        }
    }
    let mut spec = vec![0usize; len];
    let mut start = 0;
    while start < len {
        let mut common = cats[start];
        let mut end = start + 1;
        while end < len && common & cats[end] != 0 {
            common &= cats[end];
            end += 1;
        }
        for i in start..end {
            spec[i] = end - i;
        }
        start = end;
    }
    if spec != conts {
        fails.push(format!("cat_continuous_len = {:?} but the left-to-right class runs give {:?} (classes {:x?})", conts, spec, cats));
    }
    let multi = cats.iter().any(|c| (c & 0x3FFF_FFFF).count_ones() > 1);
    if multi {
        tags.push("text_has_multi_class_char".into());
    }
    if cats.iter().any(|c| c & 0x3FFF_FFFF == 0x3FFF_FFFF) {
        tags.push("text_has_class_ALL_char".into());
    }
    if cats.iter().any(|c| c & (1 << 30) != 0) {
        tags.push("text_has_NOOOVBOW".into());
    }
    if cats.iter().any(|c| c & (1 << 31) != 0) {
        tags.push("text_has_NOOOVBOW2".into());
    }
    if conts.iter().any(|c| *c > 64) {
        tags.push("run_longer_than_64".into());
    }
    // ---------------- regex oracle per provider and offset
    let mut prov_terms = vec![];
    for p in &cfg.provs {
        prov_terms.push(match p {
            Prov::Mecab => {
                let cis = clist(cfg.infos.iter().map(|ci| format!("mkCI {} {} {} {}", cn(CLASSES[ci.class].1), cbool(ci.invoke), cbool(ci.group), cn(ci.length))));
                // HashMap<CategoryType, Vec<OOV>>: lines of one class in file order
                let mut groups: Vec<(usize, Vec<&OovDef>)> = vec![];
                for (k, d) in &cfg.unks {
                    match groups.iter_mut().find(|g| g.0 == *k) {
                        Some(g) => g.1.push(d),
                        None => groups.push((*k, vec![d])),
                    }
                }
                let oovs = clist(groups.iter().map(|(k, ds)| cpair(&cn(CLASSES[*k].1), &clist(ds.iter().map(|d| cdef(d))))));
                format!("PMecab (mkMecab {} {})", cis, oovs)
            }
            Prov::Simple(d) => format!("PSimple {}", cdef(d)),
            Prov::Regex { def, pat, maxlen, strict, debug } => {
                let ml = maxlen.unwrap_or(32);
                let ms = clist((0..len).map(|off| {
                    let end = usize::min(len, off.saturating_add(ml));
                    match find(pat, &chars[off..end]) {
                        None => "None".to_string(),
                        Some((s, e)) => format!("Some ({}, {})", cbool(s == 0), cnat(e)),
                    }
                }));
                format!("PRegex (mkRegex {} {} {} {} {})", cdef(def), copt(maxlen.map(cnat)), cbool(strict.unwrap_or(true)), cbool(*debug), ms)
            }
        });
    }
    // ---------------- direct provider calls
    let provs = dict.oov_provider_plugins();
    let mut offsets: Vec<usize> = (0..len).collect();
    if len > 10 {
        offsets = vec![0, 1, len - 1, len.saturating_sub(2), len.saturating_sub(64), len.saturating_sub(65)];
        for _ in 0..5 {
            offsets.push(rng.below(len as u64) as usize);
        }
        // positions from which the class run has about MAX_VALUE characters left
        for i in 0..len {
            if (62..=66).contains(&conts[i]) {
                offsets.push(i);
            }
        }
        offsets.sort();
        offsets.dedup();
    }
    let mut call_terms = vec![];
    let mut ncalls_nonempty = 0;
    for (pi, p) in provs.iter().enumerate() {
        for &off in &offsets {
            let near_max = (62..=66).contains(&conts[off]);
            let nvar = if near_max { 7 } else if len > 10 { 2 } else { 3 };
            for var in 0..nvar {
                // lengths already "created" at this offset and the matching pre-filled result vector
                let mut pre: Vec<usize> = vec![];
                if var >= 3 {
                    // around the saturation point of the bit set: one long word of a fixed length
                    pre.push([70usize, 65, 64, 63][var - 3]);
                } else if var > 0 {
                    let cands = [1usize, 2, 3, 5, 63, 64, 65, 70, len - off, conts[off]];
                    for _ in 0..1 + rng.below(3) {
                        let l = *rng.pick(&cands);
                        if l >= 1 && off + l <= len.max(off + 1) + 70 {
                            pre.push(l);
                        }
                    }
                }
                let mut other = CreatedWords::empty();
                let mut other_bits: u64 = 0;
                for l in &pre {
                    other = other.add_word(*l as i64);
                    other_bits |= 1u64 << usize::min(l - 1, 63);
                }
                // the result vector normally mirrors `other`; sometimes it does not (a long word of another length)
                let mut pre_nodes: Vec<usize> = pre.iter().map(|l| off + l).collect();
                if var == 2 && rng.chance(1, 2) {
                    pre_nodes.retain(|e| *e != off + 70);
                }
                let mut result: Vec<Node> = pre_nodes.iter().map(|e| Node::new(off as u16, *e as u16, 0, 0, 0, WordId::new(0, 0))).collect();
                let npre = result.len();
                let r = catch(|| p.provide_oov(buf, off, other, &mut result).map_err(|e| format!("{:?}", e)));
                let out: Result<Result<Vec<ONode>, String>, String> = match r {
                    Ok(Ok(n)) => {
                        if n != result.len() - npre {
                            fails.push(format!("provider {} at {} reports {} nodes but pushed {}", pi, off, n, result.len() - npre));
                        }
                        Ok(Ok(result[npre..].iter().map(|n| to_onode(dict, n)).collect()))
                    }
                    Ok(Err(e)) => Ok(Err(e)),
                    Err(e) => Err(e),
                };
                if let Ok(Ok(v)) = &out {
                    if !v.is_empty() {
                        ncalls_nonempty += 1;
                    }
                    // whatever `length` says, a class yields at most one candidate per length of the run and template
                    if let Prov::Mecab = cfg.provs[pi] {
                        if v.len() > conts[off].max(1) * cfg.unks.len() {
                            fails.push(format!("MeCab provider at {}: {} candidates for a class run of {} characters and {} unk.def lines", off, v.len(), conts[off], cfg.unks.len()));
                        }
                    }
                    for n in v {
                        if n.pos == usize::MAX {
                            fails.push(format!("provider {} at {}: candidate with a part of speech that no definition names", pi, off));
                        }
                    }
                }
                if let Err(msg) = &out {
                    // (before fix d4b32a6 a pattern matching the empty string tripped debug_assert!(raw > 0) here)
                    fails.push(format!("provider {} panics at offset {}: {}", pi, off, msg));
                    tags.push("provider_call_panics".into());
                }
                if verbose {
                    println!("provider {} offset {} other={:#x} pre={:?} -> {:?}", pi, off, other_bits, pre_nodes, out);
                }
                call_terms.push(format!(
                    "({}, {}, {}, {}, {})",
                    cnat(pi),
                    cnat(off),
                    cn(other_bits),
                    clist(pre_nodes.iter().map(|e| cnat(*e))),
                    cres(&out, |v| clist(v.iter().map(cnode)))
                ));
            }
        }
    }
    let mut morph_terms: Vec<String> = vec![];
    // ---------------- whole lattice through a real tokenization
    let dict_ends: Vec<Vec<usize>> = (0..len)
        .map(|off| {
            let mut v: Vec<(usize, usize)> = vec![];
            for (k, w) in cfg.words.iter().enumerate() {
                let wc: Vec<char> = w.chars().collect();
                if off + wc.len() <= len && chars[off..off + wc.len()] == wc[..] {
                    v.push((off + wc.len(), k));
                }
            }
            v.sort();
            v.into_iter().map(|x| x.0).collect()
        })
        .collect();
    let mut fresh_tok = StatefulTokenizer::create(dict, false, Mode::C);
    let mut fresh_ml = MorphemeList::empty(dict);
    let (tok, ml): (&mut StatefulTokenizer<&JapaneseDictionary>, &mut MorphemeList<&JapaneseDictionary>) = match (stok, sml) {
        (Some(t), Some(m)) => (t, m),
        _ => (&mut fresh_tok, &mut fresh_ml),
    };
    tok.reset().push_str(text);
    let tr = catch(|| tok.do_tokenize().map_err(|e| format!("{:?}", e)));
    let lat: Result<Result<Vec<Vec<ONode>>, String>, String> = match &tr {
        Ok(Ok(())) => Ok(Ok(lattice_of(dict, tok.verif_lattice(), len))),
        Ok(Err(e)) => Ok(Err(e.clone())),
        Err(e) => Err(e.clone()),
    };
    if reused {
        // the same text through a new tokenizer
        let mut nt = StatefulTokenizer::create(dict, false, Mode::C);
        nt.reset().push_str(text);
        let ntr = catch(|| nt.do_tokenize().map_err(|e| format!("{:?}", e)));
        let nlat: Result<Result<Vec<Vec<ONode>>, String>, String> = match &ntr {
            Ok(Ok(())) => Ok(Ok(lattice_of(dict, nt.verif_lattice(), len))),
            Ok(Err(e)) => Ok(Err(e.clone())),
            Err(e) => Err(e.clone()),
        };
        if nlat != lat {
            let show = |l: &Result<Result<Vec<Vec<ONode>>, String>, String>| match l {
                Ok(Ok(per)) => format!("{:?}", per.iter().map(|v| v.iter().map(|n| (n.begin, n.end)).collect::<Vec<_>>()).collect::<Vec<_>>()),
                other => format!("{:?}", other.as_ref().map(|r| r.as_ref().map(|_| ()))),
            };
            fails.push(format!("reused tokenizer builds the lattice {} but a new tokenizer {}", show(&lat), show(&nlat)));
        }
        if let Ok(Ok(())) = &tr {
            let ti = tok.verif_input();
            let tc: Vec<usize> = (0..len).map(|i| ti.cat_continuous_len(i)).collect();
            if tc != spec {
                fails.push(format!("the reused tokenizer's buffer reports cat_continuous_len {:?}, the class runs of this text give {:?}", tc, spec));
            }
        }
        tags.push("reused_objects_step".into());
    }
    match &lat {
        Ok(Ok(per)) => {
            if per.iter().flatten().any(|n| !n.dict) {
                tags.push("lattice_has_oov_nodes".into());
            }
            // independent oracle for the Regex providers: at a processed position whose character is not gated, a match
            // that starts there (and is not inside a class run in strict mode) must be present in the lattice as a node of
            // exactly that span -- its own candidate or an equal-span word created before it AT THAT POSITION
            for p in 0..len {
                if per[p].is_empty() || cats[p] & (3 << 30) != 0 {
                    continue;
                }
                for (k, pv) in cfg.provs.iter().enumerate() {
                    if let Prov::Regex { pat, maxlen, strict, .. } = pv {
                        if strict.unwrap_or(true) && p > 0 && spec[p] + 1 == spec[p - 1] {
                            continue;
                        }
                        let end = usize::min(len, p.saturating_add(maxlen.unwrap_or(32)));
                        if let Some((0, e)) = find(pat, &chars[p..end]) {
                            if e > 0 && !per[p].iter().any(|n| n.end == p + e) {
                                if e >= 64 {
                                    tags.push("regex_long_match_checked".into());
                                }
                                fails.push(format!(
                                    "position {}: Regex provider {} matches {} characters but the lattice has no node {}..{} (nodes starting there end at {:?})",
                                    p, k, e, p, p + e, per[p].iter().map(|n| n.end).collect::<Vec<_>>()
                                ));
                            } else if e >= 64 {
                                tags.push("regex_long_match_checked".into());
                            }
                        }
                    }
                }
            }
            // OOV morphemes of the best path: is_oov, dictionary -1, the configured part of speech, the text as all forms
            if ml.collect_results(tok).is_ok() {
                for m in ml.iter() {
                    morph_terms.push(morph_term(&m));
                    if m.is_oov() {
                        // the OOV morpheme is one of the lattice's OOV candidates and carries that candidate's part of speech
                        let (b, e) = (m.begin_c(), m.end_c());
                        let pidx = pos_index(dict, m.part_of_speech_id() as u32);
                        if !per.get(b).map(|v| v.iter().any(|n| !n.dict && n.end == e && n.pos == pidx)).unwrap_or(false) {
                            fails.push(format!("OOV morpheme {}..{} with part of speech {:?} is none of the lattice's OOV candidates", b, e, m.part_of_speech()));
                        }
                        tags.push("oov_morpheme".into());
                        let surf = m.surface().to_string();
                        let pos_ok = POS_POOL.iter().any(|p| p.iter().zip(m.part_of_speech().iter()).all(|(a, b)| a == b));
                        if m.dictionary_id() != -1 || !pos_ok || m.normalized_form() != surf || m.dictionary_form() != surf || m.reading_form() != surf {
                            fails.push(format!(
                                "OOV morpheme {:?}: dictionary {} pos {:?} normalized {:?} dictionary form {:?} reading {:?}",
                                surf,
                                m.dictionary_id(),
                                m.part_of_speech(),
                                m.normalized_form(),
                                m.dictionary_form(),
                                m.reading_form()
                            ));
                        }
                    } else if m.dictionary_id() < 0 {
                        fails.push(format!("dictionary morpheme {:?} reports dictionary {}", m.surface().to_string(), m.dictionary_id()));
                    }
                }
            }
        }
        Ok(Err(e)) => tags.push(format!("tokenize_err:{}", e.split('(').next().unwrap_or(""))),
        Err(msg) => {
            fails.push(format!("tokenization panics: {}", msg));
            tags.push("tokenize_panics".into())
        }
    }
    if verbose {
        println!("classes   : {:x?}\ncan_bow   : {:?}\ncontinuity: {:?}\nleft-to-right runs give: {:?}", cats, bows, conts, spec);
        println!("lexicon matches per position (ends): {:?}", dict_ends);
        println!("lattice (nodes by begin): {:?}", lat);
    }
    let term = format!(
        "andb (check_morphs {0} {0} {1}) (check_case {2} {3} {4} {5} {6} {7} {8})",
        ctext(text),
        clist(morph_terms),
        clist(cats.iter().map(|c| cn(*c))),
        clist(bows.iter().map(|b| cbool(*b).to_string())),
        clist(conts.iter().map(|c| cnat(*c))),
        clist(prov_terms),
        clist(call_terms),
        clist(dict_ends.iter().map(|v| clist(v.iter().map(|e| cnat(*e))))),
        cres(&lat, |per| clist(per.iter().map(|v| clist(v.iter().map(cnode)))))
    );
    let desc = json!({"kind": "c13", "config_seed": cfg.seed, "text": text, "char_def": cfg.char_def, "unk_def": cfg.unk_def,
                      "oovProviderPlugin": cfg.plugins, "words": cfg.words, "huge_lengths": allow_huge()});
    CaseOut { term, desc, nontrivial: multi || ncalls_nonempty > 0, fails, tags }
}

fn emit(sink: &mut Sink, mut desc: Value, extra: Value, out: CaseOut) {
    for (k, v) in extra.as_object().unwrap() {
        desc[k] = v.clone();
    }
    for t in &out.tags {
        sink.tag(t);
    }
    let id = sink.case(out.term, desc, out.nontrivial);
    for f in out.fails {
        sink.fail(id, &f, "");
    }
}

/// Bounded reproduction of the MeCab length-loop defect (env C13_REPRO_LENGTH=<n>): char.def header `ALPHA 1 0 <n>`, text "a";
/// prints the number of candidates the real plugin pushes at offset 0 and the time it takes.
fn repro_length_loop(args: &Args, n: u64) -> usize {
    let mut count_a = 0;
    let dir = args.work.join(format!("c13res-{}", std::process::id()));
    std::fs::create_dir_all(&dir).unwrap();
    std::fs::write(dir.join("char.def"), format!("DEFAULT 0 1 0\nALPHA 1 0 {}\n0x0061..0x007A ALPHA\n", n)).unwrap();
    std::fs::write(dir.join("unk.def"), "DEFAULT,0,0,100,名詞,普通名詞,一般,*,*,*\nALPHA,0,0,100,名詞,普通名詞,一般,*,*,*\n").unwrap();
    let cj = json!({"path": dir.to_string_lossy(), "characterDefinitionFile": "char.def",
        "oovProviderPlugin": [{"class": "com.worksap.nlp.sudachi.MeCabOovPlugin", "charDef": "char.def", "unkDef": "unk.def", "userPOS": "allow"}]});
    let mut b = DictBuilder::new_system();
    b.read_conn("1 1\n0 0 0\n".as_bytes()).unwrap();
    b.read_lexicon("た,0,0,100,た,名詞,普通名詞,一般,*,*,*,タ,た,*,A,*,*,*,*\n".as_bytes()).unwrap();
    b.resolve().unwrap();
    let mut bytes = Vec::new();
    b.compile(&mut bytes).unwrap();
    let c = ConfigBuilder::from_bytes(cj.to_string().as_bytes()).unwrap().build();
    let dict = JapaneseDictionary::from_cfg_storage(&c, SudachiDicData::new(Storage::Owned(bytes))).expect("configuration loads");
    for text in ["a", "ab京"] {
        let mut buf = InputBuffer::from(text);
        buf.build(dict.grammar()).unwrap();
        let mut result: Vec<Node> = vec![];
        let t0 = std::time::Instant::now();
        let r = dict.oov_provider_plugins()[0].provide_oov(&buf, 0, CreatedWords::empty(), &mut result);
        let mut ends: Vec<usize> = result.iter().map(|n| n.end()).collect();
        ends.dedup();
        if text == "a" {
            count_a = result.len();
        }
        println!(
            "length={} text={:?}: provide_oov at offset 0 -> {:?}, {} candidates ({} bytes of Node), distinct ends {:?}, {:.3} s",
            n,
            text,
            r.map_err(|e| format!("{:?}", e)),
            result.len(),
            result.len() * std::mem::size_of::<Node>(),
            ends,
            t0.elapsed().as_secs_f64()
        );
    }
    cleanup(args);
    count_a
}

/// escalation probe (see ALLOW_HUGE): one class of length 3000000, text "a" -- one candidate is prescribed
fn length_probe(sink: &mut Sink, args: &Args) {
    let n = repro_length_loop(args, 3_000_000);
    let id = sink.case_rust_only(json!({"kind": "c13-length-probe", "char_def": "ALPHA 1 0 3000000", "text": "a"}), true);
    sink.tag("length_probe");
    if n > 16 {
        ALLOW_HUGE.store(false, std::sync::atomic::Ordering::Relaxed);
        sink.fail(id, &format!("char.def `ALPHA 1 0 3000000`, text \"a\": MeCabOovPlugin pushes {} candidates at offset 0 (1 prescribed; the count grows with `length`, 4294967295 would exhaust memory)", n), "");
    }
}

pub fn run(args: &Args) {
    if let Ok(v) = std::env::var("C13_REPRO_LENGTH") {
        let _ = repro_length_loop(args, v.parse().expect("C13_REPRO_LENGTH=<u32>"));
        return;
    }
    let mut sink = Sink::new("C13", &args.out, &["Model.Oov", "Model.OovBuffer", "Model.PathResolve"], args.seed, &args.tier);
    sink.shard_size = 40;
    sink.rule("generated char.def (24 code points incl. combining marks, skin-tone modifier, VS16, ZWJ, 4-byte emoji; natural or random class sets with several classes per character, class ALL, NOOOVBOW, NOOOVBOW2; classes without definition) x unk.def (0..3 definitions per class, invoke/group/length 0..80) x 1..3 providers in random order (MeCab, Simple, Regex with strict/relaxed boundaries, max length, debug, patterns with backtracking / alternation / empty match) x small random lexicon x texts (dictionary words, class runs, base+marks, lone marks, runs > 64); the 5 texts of a configuration form a SESSION over one reused InputBuffer, one StatefulTokenizer and one MorphemeList (collect_results), with single-character-run texts over the positions of the text two steps earlier and prefixes of the previous text, each step compared with the model and with new objects; class lengths include 3000000 and 4294967295; plus a 'segments' stream (every 5th configuration): the text is 2-4 runs of distinct characters, one or more of 58-88 characters, and 3-5 Regex providers (maxLength 100/400, strict/relaxed) each match a contiguous range of those runs, often ending where another pattern ends, mixed with MeCab/Simple -- so long candidates (>= 64, CreatedWords answers Maybe) with different ends start at one position and candidates from different positions share an end; each case observes the built InputBuffer, every provider through the trait at all (or sampled) offsets with several CreatedWords, and the lattice of a real tokenization; non-trivial = the text has a character with several classes or some provider call produced a candidate; distinct by generated Coq term");
    if let Some(p) = &args.replay {
        let v: Value = serde_json::from_str(&std::fs::read_to_string(p).unwrap()).unwrap();
        let case = &v["case"];
        if case["kind"] == "c13-files" {
            let g = |k: &str| -> [bool; 3] { [case[k][0].as_bool().unwrap(), case[k][1].as_bool().unwrap(), case[k][2].as_bool().unwrap()] };
            file_route_case(&mut sink, args, case["use_path"].as_bool().unwrap(), g("char_def_in"), g("unk_def_in"), case["text"].as_str().unwrap(), "replay", true);
            cleanup(args);
            sink.finish();
            return;
        }
        if case["kind"] == "c13-length-probe" {
            length_probe(&mut sink, args);
            cleanup(args);
            sink.finish();
            return;
        }
        if case["huge_lengths"] == json!(false) {
            ALLOW_HUGE.store(false, std::sync::atomic::Ordering::Relaxed);
        }
        if case["kind"] == "c13-forms" {
            let mut rng = Rng::new(args.seed);
            println!("re-running the normalized-forms stream (implementation only); failing text was {}", case["text"]);
            normalized_forms_stream(&mut sink, &mut rng, args);
            cleanup(args);
            sink.finish();
            return;
        }
        let directed = case["directed"].as_u64().unwrap_or(0) as u32;
        let cfg = gen_config(case["config_seed"].as_u64().unwrap(), &args.work, directed);
        println!("char.def:\n{}\nunk.def:\n{}\nproviders: {}\nlexicon: {:?}", cfg.char_def, cfg.unk_def, cfg.plugins, cfg.words);
        if let Some(e) = &cfg.load_error {
            println!("configuration does not load: {}", e);
            let id = sink.case_rust_only(case.clone(), false);
            sink.fail(id, &format!("well-formed configuration rejected: {}", e), "");
            cleanup(args);
            sink.finish();
            return;
        }
        let text = case["text"].as_str().unwrap().to_string();
        println!("text: {:?}", text);
        let mut rng = Rng::new(case["call_seed"].as_u64().unwrap_or(0));
        // a step of a session over reused objects: first bring the objects into the state they had
        let mut sess = Session::new(cfg.dict.as_ref().unwrap());
        let in_session = case["session"].is_array();
        if let Some(hist) = case["session"].as_array() {
            for h in hist {
                let (t, cs) = (h[0].as_str().unwrap().to_string(), h[1].as_u64().unwrap());
                println!("earlier text of the session (same InputBuffer / tokenizer / morpheme list): {:?}", t);
                let mut r = Rng::new(cs);
                let _ = run_case_in(&cfg, &t, &mut r, false, Some(&mut sess));
            }
        }
        let out = run_case_in(&cfg, &text, &mut rng, true, if in_session { Some(&mut sess) } else { None });
        for f in &out.fails {
            println!("implementation oracle: {}", f);
        }
        println!("Coq term:\n{}", out.term);
        let mut extra = json!({"directed": directed, "call_seed": case["call_seed"]});
        if in_session {
            extra["session"] = case["session"].clone();
        }
        emit(&mut sink, out.desc.clone(), extra, out);
        cleanup(args);
        sink.finish();
        return;
    }
    let mut rng = Rng::new(args.seed);
    length_probe(&mut sink, args);
    // directed cases first (the shipped shape of the definitions; base + modifier + other class; double ZWJ; long run)
    let dcfg = gen_config(7, &args.work, 1);
    if let Some(e) = &dcfg.load_error {
        let id = sink.case_rust_only(json!({"kind": "c13", "config_seed": 7, "directed": 1}), false);
        sink.fail(id, &format!("directed configuration rejected: {}", e), "");
    } else {
        for d in 1..=6u32 {
            let mut r = Rng::new(d as u64);
            let text = gen_text(&mut r, &dcfg, d);
            let cs = 1000 + d as u64;
            let mut cr = Rng::new(cs);
            let out = run_case(&dcfg, &text, &mut cr, false);
            sink.tag("directed");
            emit(&mut sink, out.desc.clone(), json!({"directed": d, "call_seed": cs}), out);
        }
    }
    let nconfigs = args.n(200, 2400);
    let per = 5;
    for ci in 0..nconfigs {
        // interleaved (these cases are the expensive ones to evaluate; spread them over the shards):
        // runs of distinct characters (some around / above 64) x Regex providers over contiguous ranges of those runs
        if ci % 5 == 0 {
            segments_case(&mut sink, &mut rng, args);
        }
        let cseed = rng.next();
        let cfg = gen_config(cseed, &args.work, 0);
        if let Some(e) = &cfg.load_error {
            let id = sink.case_rust_only(json!({"kind": "c13", "config_seed": cseed, "char_def": cfg.char_def, "unk_def": cfg.unk_def, "oovProviderPlugin": cfg.plugins, "text": ""}), false);
            sink.fail(id, &format!("well-formed configuration rejected: {}", e), "");
            continue;
        }
        sink.tag(&format!("providers={}", cfg.provs.iter().map(|p| match p { Prov::Mecab => "M", Prov::Simple(_) => "S", Prov::Regex { .. } => "R" }).collect::<String>()));
        // a session: the texts of one configuration go through the same InputBuffer / tokenizer / morpheme list, and their
        // run structure changes from step to step (class runs, then single-character runs over the same positions, shorter
        // and longer texts), so that anything an object keeps from an earlier text shows
        let mut sess = Session::new(cfg.dict.as_ref().unwrap());
        let mut lens: Vec<usize> = vec![];
        for step in 0..per {
            let mut text = gen_text(&mut rng, &cfg, 0);
            if step >= 2 && rng.chance(2, 3) {
                let n = usize::min(24, lens[step - 2] + rng.below(3) as usize).max(1);
                if let Some(t) = singles_text(&mut rng, &cfg, n) {
                    text = t;
                    sink.tag("session_single_character_runs");
                }
            } else if step >= 1 && rng.chance(1, 4) {
                // a proper prefix of the previous text
                let prev: Vec<char> = sess.history.last().map(|h| h.0.chars().collect()).unwrap_or_default();
                if prev.len() > 1 {
                    text = prev[..1 + rng.below(prev.len() as u64 - 1) as usize].iter().collect();
                }
            }
            lens.push(text.chars().count());
            let cs = rng.next();
            let mut cr = Rng::new(cs);
            let out = run_case_in(&cfg, &text, &mut cr, false, Some(&mut sess));
            let hist: Vec<Value> = sess.history.iter().map(|(t, c)| json!([t, c])).collect();
            let poisoned = out.tags.iter().any(|t| t.starts_with("tokenize_panics"));
            emit(&mut sink, out.desc.clone(), json!({"directed": 0, "call_seed": cs, "session": hist}), out);
            sess.history.push((text, cs));
            if poisoned {
                sess = Session::new(cfg.dict.as_ref().unwrap());
            }
        }
    }
    file_route_stream(&mut sink, &mut rng, args);
    normalized_forms_stream(&mut sink, &mut rng, args);
    cleanup(args);
    sink.finish();
}

// ------------------------------------------------------------------------------------------------ settings-file route
// The configurations above are built in memory (ConfigBuilder::from_bytes + from_cfg_storage) with `path` naming the one
// directory that holds char.def / unk.def.  Applications use the file route: Config::new(settings file, resource directory,
// None) + JapaneseDictionary::from_cfg.  Relative file names (characterDefinitionFile, charDef, unkDef of the MeCab provider)
// are then looked up -- ConfigBuilder::build / Config::complete_path, unchanged tree -- in this order, the first directory
// that HAS the file wins:
//     1. `path` of the settings (when given)
//     2. the resource directory (the explicit argument, else resourcePath of the settings, else the default one)
//     3. the directory of the settings file
//     4. the current directory
// Different char.def / unk.def files of the same names are put into the three directories (each present or absent); the OOV
// candidates must be those of the files the order selects.

/// per directory (0 = `path`, 1 = resource directory, 2 = directory of the settings file): ALPHA (group, length) of its
/// char.def and the cost of the ALPHA line of its unk.def
const FILE_DEFS: [(bool, u32, i16); 3] = [(true, 0, 1000), (false, 3, 1001), (false, 1, 1002)];
const DIR_NAMES: [&str; 3] = ["`path` of the settings", "the resource directory", "the directory of the settings file"];

/// one case of the settings-file route: the Coq term sends the presence patterns and the location whose file the
/// implementation used (identified by the candidates it produced) through Model/PathResolve.v's check_resolve
fn file_route_case(sink: &mut Sink, args: &Args, use_path: bool, char_in: [bool; 3], unk_in: [bool; 3], text: &str, tag: &str, verbose: bool) {
    let desc = json!({"kind": "c13-files", "use_path": use_path, "char_def_in": char_in, "unk_def_in": unk_in, "text": text, "tag": tag});
    let (fails, chosen) = file_route_observe(args, use_path, char_in, unk_in, text, verbose);
    let pat = |p: &[bool; 3]| clist([use_path && p[0], p[1], p[2], false].iter().map(|b| cbool(*b).to_string()));
    let id = match chosen {
        Some((c, u)) => sink.case(format!("andb (check_resolve {} {}%nat) (check_resolve {} {}%nat)", pat(&char_in), c, pat(&unk_in), u), desc, true),
        None => sink.case_rust_only(desc, true),
    };
    sink.tag("file_route");
    for f in fails {
        sink.fail(id, &f, "");
    }
}

/// (oracle failures, location (0 path, 1 resource directory, 2 settings-file directory, 4 = loading failed) whose char.def /
/// unk.def the loaded provider evidently used -- None when the candidates do not identify it)
fn file_route_observe(args: &Args, use_path: bool, char_in: [bool; 3], unk_in: [bool; 3], text: &str, verbose: bool) -> (Vec<String>, Option<(usize, usize)>) {
    let mut fails: Vec<String> = vec![];
    let root = args.work.join(format!("c13res-{}", std::process::id())).join("files");
    let _ = std::fs::remove_dir_all(&root);
    let dirs: Vec<PathBuf> = ["path", "resource", "settings"].iter().map(|d| root.join(d)).collect();
    for (k, d) in dirs.iter().enumerate() {
        std::fs::create_dir_all(d).unwrap();
        let (g, l, cost) = FILE_DEFS[k];
        if char_in[k] {
            std::fs::write(d.join("char.def"), format!("# char.def of {}\nDEFAULT 0 1 0\nKANJI 0 1 0\nALPHA 1 {} {}\n0x0061..0x007A ALPHA\n0x4E00..0x9FA5 KANJI\n", DIR_NAMES[k], g as u8, l)).unwrap();
        }
        if unk_in[k] {
            std::fs::write(d.join("unk.def"), format!("DEFAULT,0,0,5000,名詞,普通名詞,一般,*,*,*\nKANJI,0,0,5000,名詞,普通名詞,一般,*,*,*\nALPHA,0,0,{},名詞,普通名詞,一般,*,*,*\n", cost)).unwrap();
        }
    }
    // the order stated above; what it selects
    let order: Vec<usize> = if use_path { vec![0, 1, 2] } else { vec![1, 2] };
    let sel = |present: &[bool; 3]| order.iter().copied().find(|k| present[*k]);
    let (csel, usel) = match (sel(&char_in), sel(&unk_in)) {
        (Some(c), Some(u)) => (c, u),
        _ => return (fails, None), // a file that is nowhere: not a case
    };
    let mut b = DictBuilder::new_system();
    b.read_conn("1 1\n0 0 0\n".as_bytes()).unwrap();
    b.read_lexicon("京都,0,0,100,京都,名詞,普通名詞,一般,*,*,*,キョウト,京都,*,A,*,*,*,*\n".as_bytes()).unwrap();
    b.resolve().unwrap();
    let mut bytes = Vec::new();
    b.compile(&mut bytes).unwrap();
    std::fs::write(root.join("system.dic"), &bytes).unwrap();
    let mut cj = json!({"systemDict": root.join("system.dic").to_string_lossy(), "characterDefinitionFile": "char.def",
        "oovProviderPlugin": [{"class": "com.worksap.nlp.sudachi.MeCabOovPlugin", "charDef": "char.def", "unkDef": "unk.def"},
                              {"class": "com.worksap.nlp.sudachi.SimpleOovPlugin", "oovPOS": POS_POOL[0], "leftId": 0, "rightId": 0, "cost": 30000}]});
    if use_path {
        cj["path"] = json!(dirs[0].to_string_lossy());
    }
    let cfgfile = dirs[2].join("sudachi.json");
    std::fs::write(&cfgfile, serde_json::to_string_pretty(&cj).unwrap()).unwrap();
    let loaded = catch(|| -> Result<JapaneseDictionary, String> {
        let cfg = sudachi::config::Config::new(Some(cfgfile.clone()), Some(dirs[1].clone()), None).map_err(|e| format!("{:?}", e))?;
        JapaneseDictionary::from_cfg(&cfg).map_err(|e| format!("{:?}", e))
    });
    let dict = match loaded {
        Ok(Ok(d)) => d,
        other => {
            fails.push(format!("settings file + resource directory (char.def in {:?}, unk.def in {:?}): the dictionary does not load: {}", char_in, unk_in, match other { Ok(Err(e)) => e, Err(p) => format!("panic: {}", p), Ok(Ok(_)) => String::new() }));
            return (fails, Some((4, 4)));
        }
    };
    // candidates of the MeCab provider at the first ALPHA character
    let chars: Vec<char> = text.chars().collect();
    let off = match chars.iter().position(|c| c.is_ascii_lowercase()) {
        Some(o) => o,
        None => return (fails, None),
    };
    let run = chars[off..].iter().take_while(|c| c.is_ascii_lowercase()).count();
    let mut buf = InputBuffer::from(text);
    buf.build(dict.grammar()).unwrap();
    let mut result: Vec<Node> = vec![];
    let r = catch(|| dict.oov_provider_plugins()[0].provide_oov(&buf, off, CreatedWords::empty(), &mut result).map_err(|e| format!("{:?}", e)));
    let mut got: Vec<(usize, i16)> = result.iter().map(|n| (n.end(), n.cost())).collect();
    got.sort();
    let (g, l, _) = FILE_DEFS[csel];
    let cost = FILE_DEFS[usel].2;
    let mut want: Vec<(usize, i16)> = vec![];
    if g {
        want.push((off + run, cost));
    }
    for k in 1..=usize::min(l as usize, if g { run - 1 } else { run }) {
        want.push((off + k, cost));
    }
    want.sort();
    if verbose {
        println!("char.def present in [path, resource, settings] = {:?}, unk.def {:?}, `path` given: {}", char_in, unk_in, use_path);
        println!("order selects char.def of {} and unk.def of {}", DIR_NAMES[csel], DIR_NAMES[usel]);
        println!("text {:?}, candidates (end, cost) at offset {}: {:?} ({:?}); prescribed by the selected files: {:?}", text, off, got, r, want);
    }
    if r.is_err() || got != want {
        let which = |v: &Vec<(usize, i16)>| -> String {
            (0..3).filter(|k| {
                let (g2, l2, c2) = FILE_DEFS[*k];
                let mut w: Vec<(usize, i16)> = vec![];
                if g2 { w.push((off + run, 0)); }
                for j in 1..=usize::min(l2 as usize, if g2 { run - 1 } else { run }) { w.push((off + j, 0)); }
                w.sort();
                let _ = c2;
                v.iter().map(|x| (x.0, 0i16)).collect::<Vec<_>>() == w
            }).map(|k| DIR_NAMES[k]).collect::<Vec<_>>().join(" / ")
        };
        fails.push(
            format!(
                "settings file in one directory, explicit resource directory another{}; char.def present in [path, resource, settings] = {:?}, unk.def {:?}: text {:?}, OOV candidates (end, cost) at offset {} are {:?} (ends as in the char.def of: {}); the lookup order (path, resource directory, settings-file directory) selects char.def of {} and unk.def of {}: {:?}",
                if use_path { ", `path` a third" } else { "" }, char_in, unk_in, text, off, got, which(&got), DIR_NAMES[csel], DIR_NAMES[usel], want
            ),
        );
    }
    // which directory's files were used: the cost names the unk.def; the set of ends names the char.def when the run is long enough
    let ends = |k: usize| -> Vec<usize> {
        let (g2, l2, _) = FILE_DEFS[k];
        let mut w: Vec<usize> = vec![];
        if g2 { w.push(off + run); }
        for j in 1..=usize::min(l2 as usize, if g2 { run - 1 } else { run }) { w.push(off + j); }
        w.sort();
        w
    };
    let got_ends: Vec<usize> = got.iter().map(|x| x.0).collect();
    let cands: Vec<usize> = (0..3).filter(|k| ends(*k) == got_ends).collect();
    let costs: Vec<i16> = got.iter().map(|x| x.1).collect();
    let ucands: Vec<usize> = (0..3).filter(|k| !costs.is_empty() && costs.iter().all(|c| *c == FILE_DEFS[*k].2)).collect();
    let chosen = if cands.len() == 1 && ucands.len() == 1 { Some((cands[0], ucands[0])) } else { None };
    (fails, chosen)
}


fn file_route_stream(sink: &mut Sink, rng: &mut Rng, args: &Args) {
    // directed: both directories have both files (no `path`); all three; only beside the settings file; split
    for (use_path, c, u) in [
        (false, [false, true, true], [false, true, true]),
        (true, [true, true, true], [true, true, true]),
        (false, [false, false, true], [false, false, true]),
        (false, [false, false, true], [false, true, true]),
        (true, [false, true, true], [true, false, true]),
        (true, [false, false, true], [false, true, false]),
    ] {
        for text in ["京都abc", "abc"] {
            file_route_case(sink, args, use_path, c, u, text, "directed", false);
        }
    }
    for _ in 0..args.n(40, 600) {
        let use_path = rng.chance(1, 2);
        let mut c = [use_path && rng.chance(1, 2), rng.chance(2, 3), rng.chance(2, 3)];
        let mut u = [use_path && rng.chance(1, 2), rng.chance(2, 3), rng.chance(2, 3)];
        if !c.iter().any(|x| *x) {
            c[2] = true;
        }
        if !u.iter().any(|x| *x) {
            u[1] = true;
        }
        let text = *rng.pick(&["京都abc", "abc", "ab京都", "京都a", "abcde京"]);
        file_route_case(sink, args, use_path, c, u, text, "generated", false);
    }
}

/// one case of the "segments" stream (see SEGMENTS)
fn segments_case(sink: &mut Sink, rng: &mut Rng, args: &Args) {
    let cseed = rng.next();
    let cfg = gen_config(cseed, &args.work, SEGMENTS);
    if let Some(e) = &cfg.load_error {
        let id = sink.case_rust_only(json!({"kind": "c13", "config_seed": cseed, "directed": SEGMENTS, "oovProviderPlugin": cfg.plugins, "text": ""}), false);
        sink.fail(id, &format!("well-formed configuration rejected: {}", e), "");
        return;
    }
    let text = gen_text(rng, &cfg, SEGMENTS);
    let cs = rng.next();
    let mut cr = Rng::new(cs);
    let out = run_case(&cfg, &text, &mut cr, false);
    sink.tag("segments_stream");
    emit(sink, out.desc.clone(), json!({"directed": SEGMENTS, "call_seed": cs}), out);
}

/// Implementation-only stream: with the default input-text plugin the analysed text differs from the original one
/// (full-width / upper-case letters are normalised); an OOV morpheme must report the *normalised* text as its normalized,
/// dictionary and reading forms, the original text as its surface, dictionary -1 and the configured part of speech.
fn normalized_forms_stream(sink: &mut Sink, rng: &mut Rng, args: &Args) {
    let dir = args.work.join(format!("c13res-{}", std::process::id()));
    std::fs::create_dir_all(&dir).unwrap();
    let rewrite = std::fs::read_to_string(format!("{}/resources/rewrite.def", repo())).unwrap_or_default();
    std::fs::write(dir.join("rewrite.def"), rewrite).unwrap();
    std::fs::write(dir.join("char.def"), "DEFAULT 0 1 0\n0x0061..0x007A ALPHA\n0x0030..0x0039 NUMERIC\n0x4E00..0x9FA5 KANJI\n").unwrap();
    let cj = json!({"path": dir.to_string_lossy(), "characterDefinitionFile": "char.def",
        "inputTextPlugin": [{"class": "com.worksap.nlp.sudachi.DefaultInputTextPlugin"}],
        "oovProviderPlugin": [{"class": "com.worksap.nlp.sudachi.SimpleOovPlugin", "oovPOS": POS_POOL[3], "leftId": 0, "rightId": 0, "cost": 100, "userPOS": "allow"}]});
    let r = catch(|| -> Result<JapaneseDictionary, String> {
        let mut b = DictBuilder::new_system();
        b.read_conn("1 1\n0 0 0\n".as_bytes()).map_err(|e| format!("{:?}", e))?;
        b.read_lexicon("た,0,0,100,た,名詞,普通名詞,一般,*,*,*,タ,た,*,A,*,*,*,*\n".as_bytes()).map_err(|e| format!("{:?}", e))?;
        b.resolve().map_err(|e| format!("{:?}", e))?;
        let mut bytes = Vec::new();
        b.compile(&mut bytes).map_err(|e| format!("{:?}", e))?;
        let c = ConfigBuilder::from_bytes(cj.to_string().as_bytes()).map_err(|e| format!("{:?}", e))?.build();
        JapaneseDictionary::from_cfg_storage(&c, SudachiDicData::new(Storage::Owned(bytes))).map_err(|e| format!("{:?}", e))
    });
    let dict = match r {
        Ok(Ok(d)) => d,
        other => {
            let id = sink.case_rust_only(json!({"kind": "c13-forms", "text": ""}), false);
            sink.fail(id, &format!("configuration with the default input-text plugin does not load: {:?}", other.err().or_else(|| Some("error".into()))), "");
            return;
        }
    };
    // pieces of original text; most are rewritten by the default input-text plugin (NFKC + lower-casing + rewrite.def), several
    // with a change of length in characters and bytes: ㍿ -> 株式会社, ㌔ -> キロ, half-width kana + voicing mark -> one kana,
    // base + combining mark -> one character, U+FDFA -> 18 characters, full-width / upper-case letters
    let pieces: [&str; 18] = ["A", "Ｂ", "ｃ", "d", "Ｚ", "１", "7", "京", "Q", "ｘ", "㍿", "㌔", "ｶﾞ", "ﾊﾟ", "e\u{301}", "\u{FDFA}", "ア", "Ⅲ"];
    for _ in 0..args.n(120, 1200) {
        let n = 1 + rng.below(6) as usize;
        let mut orig = String::new();
        for _ in 0..n {
            let pc: &str = *rng.pick(&pieces[..]);
            orig.push_str(pc);
        }
        let mut tok = StatefulTokenizer::create(&dict, false, Mode::C);
        tok.reset().push_str(&orig);
        let desc = json!({"kind": "c13-forms", "text": orig});
        let mut fails: Vec<String> = vec![];
        let mut morph_terms: Vec<String> = vec![];
        let mut cur = String::new();
        let mut m2o: Vec<usize> = vec![];
        match catch(|| tok.do_tokenize().map_err(|e| format!("{:?}", e))) {
            Ok(Ok(())) => {
                {
                    let inp = tok.verif_input();
                    cur = inp.current().to_string();
                    m2o = (0..=cur.len()).map(|i| catch(|| inp.to_orig(i..i).start).unwrap_or(usize::MAX)).collect();
                }
                // the result nodes in the coordinates of the NORMALISED text, then the morphemes made from them
                let mut input = Default::default();
                let mut path = vec![];
                let mut subset = Default::default();
                tok.swap_result(&mut input, &mut path, &mut subset);
                let nodes: Vec<(usize, usize, usize, usize, u32)> =
                    path.iter().map(|n| (n.begin(), n.end(), n.begin_bytes(), n.end_bytes(), n.word_id().as_raw())).collect();
                let ml = MorphemeList::from_components(&dict, input, path, subset);
                let mut surf = String::new();
                let mut forms = String::new();
                for (m, nd) in ml.iter().zip(nodes.iter()) {
                    morph_terms.push(format!(
                        "({}, ({}, {}, {}, {}), mkMV {} {} {} {} {} {} {})",
                        cn(nd.4),
                        cnat(nd.0),
                        cnat(nd.1),
                        cnat(nd.2),
                        cnat(nd.3),
                        cbool(m.is_oov()),
                        cz(m.dictionary_id() as i64),
                        cn(m.part_of_speech_id()),
                        cbytes(m.surface().as_bytes()),
                        cbytes(m.normalized_form().as_bytes()),
                        cbytes(m.dictionary_form().as_bytes()),
                        cbytes(m.reading_form().as_bytes())
                    ));
                    surf.push_str(&m.surface());
                    if !m.is_oov() {
                        fails.push(format!("{:?}: morpheme {:?} is not OOV although the lexicon cannot match", orig, m.surface().to_string()));
                        continue;
                    }
                    let nf = m.normalized_form().to_string();
                    if m.dictionary_form() != nf || m.reading_form() != nf {
                        fails.push(format!("{:?}: forms of an OOV morpheme differ: {:?} {:?} {:?}", orig, nf, m.dictionary_form(), m.reading_form()));
                    }
                    if nd.3 > cur.len() || !cur.is_char_boundary(nd.2) || !cur.is_char_boundary(nd.3) || nf != cur[nd.2..nd.3] {
                        fails.push(format!("{:?}: normalized form {:?} of the OOV node {}..{} is not the normalised text {:?} of its byte range {}..{}", orig, nf, nd.0, nd.1, cur, nd.2, nd.3));
                    }
                    if m.dictionary_id() != -1 || m.part_of_speech().iter().zip(POS_POOL[3].iter()).any(|(a, b)| a != b) {
                        fails.push(format!("{:?}: OOV morpheme reports dictionary {} / part of speech {:?}", orig, m.dictionary_id(), m.part_of_speech()));
                    }
                    forms.push_str(&nf);
                }
                if surf != orig || forms != cur {
                    fails.push(format!("{:?}: surfaces concatenate to {:?}, forms to {:?}, normalised text is {:?}", orig, surf, forms, cur));
                }
                if cur.chars().count() != orig.chars().count() {
                    sink.tag("forms_stream_length_changing_normalisation");
                }
            }
            other => fails.push(format!("{:?}: tokenization failed: {:?}", orig, other)),
        }
        // the model (Model/OovBuffer.v: oov_morpheme_buf) gets the buffer state: original bytes, normalised bytes, offset map
        let term = format!(
            "check_morphs_buf {} {} {} {}",
            cbytes(orig.as_bytes()),
            cbytes(cur.as_bytes()),
            clist(m2o.iter().map(|x| cn(*x as u64))),
            clist(morph_terms)
        );
        let id = sink.case(term, desc, orig != cur);
        sink.tag("normalized_forms_stream");
        for f in fails {
            sink.fail(id, &f, "");
        }
    }
}

fn cleanup(args: &Args) {
    let _ = std::fs::remove_dir_all(args.work.join(format!("c13res-{}", std::process::id())));
}
