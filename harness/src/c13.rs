//! C13 — harness not built yet.
use crate::common::*;

pub fn run(_args: &Args) {
    eprintln!("no harness for C13 yet");
    std::process::exit(2);
}
