//! C02 — the chosen segmentation is a minimum-cost lattice path; totals are prefix sums.
use crate::common::*;
use crate::dictutil::*;
use serde_json::{json, Value};
use sudachi::analysis::Node;
use sudachi::analysis::lattice::Lattice;
use sudachi::analysis::node::LatticeNode;
use sudachi::analysis::stateful_tokenizer::StatefulTokenizer;
use sudachi::analysis::Mode;
use sudachi::dic::connect::ConnectionMatrix;
use sudachi::dic::word_id::WordId;

#[derive(Clone, Debug)]
pub struct N {
    pub b: usize,
    pub e: usize,
    pub l: u16,
    pub r: u16,
    pub c: i16,
}

pub struct Case {
    pub kind: &'static str,
    pub nl: usize,
    pub nr: usize,
    /// raw: as stored, read through ConnectionMatrix::index; canonical: data[r * nl + l] = cost(left=l, right=r)
    pub raw_layout: bool,
    pub data: Vec<i16>,
    pub len: usize,
    pub nodes: Vec<N>,
}

/// what the implementation did: None = panic
pub type Impl = Option<(Vec<i32>, Option<(i32, Vec<(u16, u16)>, Vec<i32>)>)>;

fn coq_node(n: &N) -> String {
    format!("mkNode {}%nat {}%nat {} {} {}", n.b, n.e, cn(n.l), cn(n.r), cz(n.c as i64))
}

pub fn term(checked: bool, c: &Case, im: &Impl) -> String {
    let impl_s = match im {
        None => "None".to_string(),
        Some((costs, eos)) => {
            let e = match eos {
                None => "None".to_string(),
                Some((ec, path, totals)) => format!(
                    "(Some ({}, {}, {}))",
                    cz(*ec as i64),
                    clist(path.iter().map(|(a, b)| format!("({}%nat, {}%nat)", a, b))),
                    clist(totals.iter().map(|t| cz(*t as i64)))
                ),
            };
            format!("(Some ({}, {}))", clist(costs.iter().map(|t| cz(*t as i64))), e)
        }
    };
    format!(
        "check_lattice {} {} {} {} {} {}%nat {} {}",
        cbool(checked),
        cbool(c.raw_layout),
        cnu(c.nl),
        cnu(c.nr),
        clist(c.data.iter().map(|x| cz(*x as i64))),
        c.len,
        clist(c.nodes.iter().map(coq_node)),
        impl_s
    )
}

fn desc(c: &Case) -> Value {
    json!({"kind": c.kind, "num_left": c.nl, "num_right": c.nr, "raw_layout": c.raw_layout, "data": c.data, "len": c.len,
           "nodes": c.nodes.iter().map(|n| json!([n.b, n.e, n.l, n.r, n.c])).collect::<Vec<_>>()})
}

fn case_from(v: &Value) -> Case {
    Case {
        kind: "replay",
        nl: v["num_left"].as_u64().unwrap() as usize,
        nr: v["num_right"].as_u64().unwrap() as usize,
        raw_layout: v["raw_layout"].as_bool().unwrap_or(true),
        data: v["data"].as_array().unwrap().iter().map(|x| x.as_i64().unwrap() as i16).collect(),
        len: v["len"].as_u64().unwrap() as usize,
        nodes: v["nodes"]
            .as_array()
            .unwrap()
            .iter()
            .map(|n| N { b: n[0].as_u64().unwrap() as usize, e: n[1].as_u64().unwrap() as usize, l: n[2].as_u64().unwrap() as u16, r: n[3].as_u64().unwrap() as u16, c: n[4].as_i64().unwrap() as i16 })
            .collect(),
    }
}

/// run the public Lattice API on the case (unit level)
pub fn run_lattice(c: &Case, reuse: &mut Lattice) -> Impl {
    let bytes: Vec<u8> = c.data.iter().flat_map(|x| x.to_le_bytes()).collect();
    // the same Lattice object is reused for all cases (as a tokenizer does); after a panic it is replaced
    let mut lat = std::mem::take(reuse);
    let r = catch(|| {
        let conn = ConnectionMatrix::from_offset_size(&bytes, 0, c.nl, c.nr).unwrap();
        lat.reset(c.len);
        let mut costs = vec![];
        for (k, n) in c.nodes.iter().enumerate() {
            let node = Node::new(n.b as u16, n.e as u16, n.l, n.r, n.c, WordId::new(0, k as u32));
            costs.push(lat.insert(node, &conn));
        }
        let eos = match lat.connect_eos(&conn) {
            Err(_) => None,
            Ok(()) => {
                let (_, _, ec) = lat.verif_eos().unwrap();
                let mut ids = vec![];
                lat.fill_top_path(&mut ids);
                ids.reverse();
                let mut path = vec![];
                let mut totals = vec![];
                for id in ids {
                    let (_, t) = lat.node(id);
                    path.push((id.end(), id.index()));
                    totals.push(t);
                }
                Some((ec, path, totals))
            }
        };
        *reuse = lat;
        (costs, eos)
    });
    r.ok()
}

/// independent oracle: exact dynamic programme in i64 over the same candidates (None = no covering chain)
pub fn oracle(c: &Case) -> (Option<i64>, bool) {
    let conn = |l: u16, r: u16| -> i64 { c.data[(r as usize) * c.nl + (l as usize)] as i64 };
    // best[i] = per node ending at i: (right id, total)
    let mut rows: Vec<Vec<(u16, i64)>> = vec![vec![]; c.len + 1];
    rows[0].push((0, 0));
    let mut overflow = false;
    let mut order: Vec<&N> = c.nodes.iter().collect();
    order.sort_by_key(|n| n.b);
    for n in order {
        let mut best: Option<i64> = None;
        for (r, t) in &rows[n.b] {
            let v = t + conn(*r, n.l) + n.c as i64;
            if best.map_or(true, |b| v < b) {
                best = Some(v);
            }
        }
        if let Some(b) = best {
            if b >= i32::MAX as i64 || b < i32::MIN as i64 {
                overflow = true;
            }
            rows[n.e].push((n.r, b));
        }
    }
    let mut best: Option<i64> = None;
    for (r, t) in &rows[c.len] {
        let v = t + conn(*r, 0);
        if best.map_or(true, |b| v < b) {
            best = Some(v);
        }
    }
    if let Some(b) = best {
        if b >= i32::MAX as i64 || b < i32::MIN as i64 {
            overflow = true;
        }
    }
    (best, overflow)
}

fn cost_val(rng: &mut Rng) -> i16 {
    match rng.below(10) {
        0 => 32767,
        1 => -32768,
        2 => 0,
        3 => rng.range(-3, 3) as i16,
        _ => rng.range(-20000, 20000) as i16,
    }
}

fn gen_unit(rng: &mut Rng) -> Case {
    let nl = 1 + rng.below(5) as usize;
    let nr = if rng.chance(1, 2) { nl } else { 1 + rng.below(5) as usize };
    let data: Vec<i16> = (0..nl * nr).map(|_| cost_val(rng)).collect();
    let len = if rng.chance(1, 10) { 9 + rng.below(12) as usize } else { 1 + rng.below(8) as usize };
    let mut nodes = vec![];
    let nn = rng.below(4 * len as u64 + 2) as usize;
    for _ in 0..nn {
        let b = rng.below(len as u64) as usize;
        let e = if rng.chance(1, 2) { b + 1 } else { b + 1 + rng.below((len - b) as u64) as usize };
        nodes.push(N { b, e, l: rng.below(nr as u64) as u16, r: rng.below(nl as u64) as u16, c: cost_val(rng) });
        if rng.chance(1, 8) {
            // homograph: same span, other ids / cost
            nodes.push(N { b, e, l: rng.below(nr as u64) as u16, r: rng.below(nl as u64) as u16, c: cost_val(rng) });
        }
    }
    if rng.chance(2, 3) {
        // make sure the text is coverable: a spine of short words
        let mut p = 0;
        while p < len {
            let e = usize::min(len, p + 1 + rng.below(2) as usize);
            nodes.push(N { b: p, e, l: rng.below(nr as u64) as u16, r: rng.below(nl as u64) as u16, c: cost_val(rng) });
            p = e;
        }
    }
    nodes.sort_by_key(|n| n.b); // stable: insertion order by begin, as Lattice::insert requires
    Case { kind: "unit", nl, nr, raw_layout: true, data, len, nodes }
}

fn check_and_emit(sink: &mut Sink, c: &Case, im: &Impl, checked: bool, extra_fail: Option<String>) {
    let (opt, overflow) = oracle(c);
    let coverable = opt.is_some();
    sink.tag(c.kind);
    sink.tag(if coverable { "coverable" } else { "not_coverable" });
    if c.nl != c.nr {
        sink.tag("non_square_matrix");
    }
    if c.data.iter().any(|x| *x < 0) || c.nodes.iter().any(|n| n.c < 0) {
        sink.tag("negative_costs");
    }
    let nontrivial = coverable && c.nodes.len() >= 3;
    let id = sink.case(term(checked, c, im), desc(c), nontrivial);
    if let Some(f) = extra_fail {
        sink.fail(id, &f, "");
    }
    // Rust-side oracle (independent of the Coq model)
    if overflow {
        sink.fail(id, "exact path cost leaves the i32 range", "i32_cost_overflow");
        return;
    }
    match im {
        None => sink.fail(id, "implementation panicked although all sums fit in i32", ""),
        Some((_, eos)) => match (opt, eos) {
            (None, None) => {}
            (Some(o), Some((ec, path, totals))) => {
                if o != *ec as i64 {
                    sink.fail(id, &format!("EOS cost {} but the minimum over all covering chains is {}", ec, o), "");
                } else if path.len() != totals.len() {
                    sink.fail(id, "path / totals length mismatch", "");
                }
            }
            (Some(o), None) => sink.fail(id, &format!("EosBosDisconnect although a covering chain of cost {} exists", o), ""),
            (None, Some((ec, _, _))) => sink.fail(id, &format!("EOS cost {} although no covering chain exists", ec), ""),
        },
    }
}

// ---------------------------------------------------------------- pipeline level
fn gen_text(rng: &mut Rng, surfaces: &[String]) -> String {
    let extra = ["ア", "イ", "カ", "ー", "1", "2", "0", ".", "a", "B", " ", "漢", "字", "、", "。", "ｶﾞ", "㍿", "👍", "é", "\u{3099}"];
    let n = 1 + rng.below(7);
    let mut s = String::new();
    for _ in 0..n {
        if rng.chance(3, 5) && !surfaces.is_empty() {
            s.push_str(rng.pick(surfaces).as_str());
        } else {
            s.push_str(*rng.pick(&extra[..]));
        }
    }
    s
}

fn run_pipeline(sink: &mut Sink, rng: &mut Rng, args: &Args, ndicts: usize, ntexts: usize, checked: bool) {
    let res = format!("{}/sudachi/tests/resources", repo());
    let lex = std::fs::read_to_string(format!("{}/lex.csv", res)).unwrap();
    for d in 0..ndicts {
        let nl = 2 + rng.below(9) as usize; // dimension indexed by right ids of the left word
        let nr = if rng.chance(1, 2) { nl } else { 2 + rng.below(9) as usize };
        // canonical cost table: cost(left = l, right = r)
        let mut tbl = vec![0i16; nl * nr];
        for x in tbl.iter_mut() {
            *x = if rng.chance(1, 12) { cost_val(rng) } else { rng.range(-3000, 3000) as i16 };
        }
        let mut matrix = format!("{} {}\n", nl, nr);
        for l in 0..nl {
            for r in 0..nr {
                matrix.push_str(&format!("{} {} {}\n", l, r, tbl[r * nl + l]));
            }
        }
        // lexicon: rows of the test lexicon with random in-range ids and costs
        let mut rows = vec![];
        let mut surfaces: Vec<String> = vec![];
        for line in lex.lines() {
            let mut f: Vec<String> = line.split(',').map(|s| s.to_string()).collect();
            if f.len() < 18 {
                continue;
            }
            if f[1] != "-1" {
                // left id of a word is looked up as `right` argument (< nr); right id as `left` argument (< nl).
                // The builder validates them against the opposite dimensions (a C06/C20 matter), so stay below both.
                f[1] = format!("{}", rng.below(usize::min(nl, nr) as u64));
                f[2] = format!("{}", rng.below(usize::min(nl, nr) as u64));
                f[3] = format!("{}", if rng.chance(1, 10) { cost_val(rng) as i64 } else { rng.range(-2000, 12000) });
                if f[3] == "-32768" {
                    f[3] = "-32767".into(); // i16::MIN asks the builder for an automatic cost
                }
                surfaces.push(f[0].clone());
            }
            rows.push(f.join(","));
        }
        // homographs: copies of indexed rows with other connection ids and costs (same right id in half of them, so that
        // candidates which differ only in the left id or only in the cost compete at the same span)
        let indexed: Vec<usize> = rows.iter().enumerate().filter(|(_, r)| r.split(',').nth(1) != Some("-1")).map(|(i, _)| i).collect();
        for _ in 0..4 + rng.below(6) {
            let src = rows[*rng.pick(&indexed[..])].clone();
            let mut f: Vec<String> = src.split(',').map(|s| s.to_string()).collect();
            f[1] = format!("{}", rng.below(usize::min(nl, nr) as u64));
            if rng.chance(1, 2) {
                f[2] = format!("{}", rng.below(usize::min(nl, nr) as u64));
            }
            f[3] = format!("{}", rng.range(-2000, 12000));
            for k in [13usize, 14, 15, 16, 17] {
                if k < f.len() {
                    f[k] = "*".into();
                }
            }
            if f.len() > 14 {
                f[14] = "A".into();
            }
            rows.push(f.join(","));
        }
        // prefix chains in a class that may not begin a word everywhere (ASCII letters continue a run; U+30A1 is NOOOVBOW):
        // a shorter word may end where no word may begin while a longer one ends on a legal boundary -- the longer one is
        // still a candidate
        let long_key = "ん".repeat(345); // an index key of more than 1024 bytes
        for w in ["ap", "app", "apple", "applepie", "ア", "アァ", "アァイ", long_key.as_str()] {
            let src = rows[*rng.pick(&indexed[..])].clone();
            let mut f: Vec<String> = src.split(',').map(|s| s.to_string()).collect();
            f[0] = w.to_string();
            f[4] = w.to_string();
            f[1] = format!("{}", rng.below(usize::min(nl, nr) as u64));
            f[2] = format!("{}", rng.below(usize::min(nl, nr) as u64));
            f[3] = format!("{}", rng.range(-3000, 6000));
            f[11] = w.to_string();
            f[12] = w.to_string();
            for k in [13usize, 15, 16, 17] {
                f[k] = "*".into();
            }
            f[14] = "A".into();
            surfaces.push(w.to_string());
            rows.push(f.join(","));
        }
        let lex_csv = rows.join("\n");
        // in half of the dictionaries: a user dictionary on top (its words are candidates like any other;
        // the lexicon is asked for the parameters of every dictionary node below)
        let mut users: Vec<String> = vec![];
        if rng.chance(1, 2) {
            let ulex = std::fs::read_to_string(format!("{}/user1.csv", res)).unwrap_or_default();
            let mut urows = vec![];
            for line in ulex.lines() {
                let mut f: Vec<String> = line.split(',').map(|s| s.to_string()).collect();
                if f.len() < 18 {
                    continue;
                }
                f[1] = format!("{}", rng.below(usize::min(nl, nr) as u64));
                f[2] = format!("{}", rng.below(usize::min(nl, nr) as u64));
                f[3] = format!("{}", rng.range(-3000, 9000));
                for k in [14usize, 15, 16, 17] {
                    f[k] = "*".into(); // no split / word-structure references (not the subject here)
                }
                if f.len() > 13 {
                    f[13] = "*".into();
                }
                surfaces.push(f[0].clone());
                urows.push(f.join(","));
            }
            users.push(urows.join("\n"));
        }
        let dir = args.work.join(format!("res{}", d));
        let _ = std::fs::remove_dir_all(&dir);
        let lim = usize::min(nl, nr) as u64;
        let oov_l = rng.below(lim);
        let oov_r = rng.below(lim);
        let oov_c = rng.range(-2000, 20000);
        // the word parameters every out-of-vocabulary candidate may carry: the configured templates, as written in the
        // configuration (left id, right id, cost) -- not as found in the lattice
        let mut templates: Vec<(u16, u16, i16)> = vec![(oov_l as u16, oov_r as u16, oov_c as i16)];
        // templates of the MeCab provider per category, as written in unk.def: whatever span the provider offers for a
        // category, it offers with EVERY template of that category
        let mut by_cat: Vec<Vec<(u16, u16, i16)>> = vec![];
        let mut alpha_lengths = false;
        let mut alpha_cat: Option<usize> = None;
        let mut providers = vec![];
        // every third dictionary has the MeCab provider with the length candidates whatever the draws say
        let directed = d % 3 == 1;
        if rng.chance(1, 2) | directed {
            // MeCab provider in front of the fallback: unk.def written here, one or two lines per category of the
            // character definition, left id != right id so that a mix-up of the two cannot hide
            let chardef = std::fs::read_to_string(format!("{}/char.def", res)).unwrap_or_default();
            let mut unk = String::new();
            for line in chardef.lines() {
                let t = line.trim();
                if t.is_empty() || t.starts_with('#') || t.starts_with("0x") {
                    continue;
                }
                let name = t.split_whitespace().next().unwrap_or("");
                if name.is_empty() {
                    continue;
                }
                let mut cat = vec![];
                for _ in 0..1 + rng.below(3) {
                    let l = rng.below(lim);
                    let r = (l + 1 + rng.below(lim - 1)) % lim;
                    let c = rng.range(-1500, 15000);
                    unk.push_str(&format!("{},{},{},{},名詞,普通名詞,一般,*,*,*\n", name, l, r, c));
                    templates.push((l as u16, r as u16, c as i16));
                    cat.push((l as u16, r as u16, c as i16));
                }
                if name == "ALPHA" {
                    alpha_cat = Some(by_cat.len());
                }
                by_cat.push(cat);
            }
            std::fs::create_dir_all(&dir).unwrap();
            std::fs::write(dir.join("unk.def"), unk).unwrap();
            // in half of them the letters get length candidates (1 and 2 characters) instead of the whole run: words then end
            // INSIDE a run of letters, and the position behind them is a position like any other for every provider
            if rng.chance(1, 2) | directed {
                let own: String = chardef.lines().map(|l| if l.trim_start().starts_with("ALPHA") && !l.trim_start().starts_with("0x") { "ALPHA 1 0 2".to_string() } else { l.to_string() }).collect::<Vec<_>>().join("\n");
                std::fs::write(dir.join("char.def"), own).unwrap();
                alpha_lengths = true;
                sink.tag("mecab_alpha_length_candidates");
            }
            providers.push(json!({"class": "com.worksap.nlp.sudachi.MeCabOovPlugin", "charDef": "char.def", "unkDef": "unk.def", "userPOS": "allow"}));
        }
        providers.push(json!({"class": "com.worksap.nlp.sudachi.SimpleOovPlugin",
                "oovPOS": ["名詞", "普通名詞", "一般", "*", "*", "*"], "leftId": oov_l, "rightId": oov_r, "cost": oov_c}));
        let cfg = json!({
            "characterDefinitionFile": "char.def",
            "inputTextPlugin": [{"class": "com.worksap.nlp.sudachi.DefaultInputTextPlugin"}],
            "oovProviderPlugin": providers,
        });
        let dict = match build_dictionary(&dir, &res, &matrix, &lex_csv, &users, &cfg) {
            Ok(d) => d,
            Err(e) => {
                let id = sink.case_rust_only(json!({"kind": "pipeline-dict", "matrix": matrix, "lex": lex_csv, "error": e}), false);
                sink.fail(id, &format!("generated dictionary did not build/load: {}", e), "");
                continue;
            }
        };
        // (surface, dictionary number) and row number of every indexed source row; rows with escapes / quotes are left out
        let mut source_rows: Vec<(String, usize)> = vec![];
        let mut row_ids: Vec<usize> = vec![];
        for (dic, csv) in std::iter::once(&lex_csv).chain(users.iter()).enumerate() {
            for (k, line) in csv.lines().enumerate() {
                let f: Vec<&str> = line.split(',').collect();
                if f.len() < 18 || f[0].contains('\\') || f[0].contains('"') {
                    continue;
                }
                if f[1].parse::<i32>().map(|x| x >= 0).unwrap_or(false) {
                    source_rows.push((f[0].to_string(), dic));
                    row_ids.push(k);
                }
            }
        }
        let mut tok = StatefulTokenizer::new(&dict, Mode::C);
        for _ in 0..ntexts {
            let text = gen_text(rng, &surfaces);
            let r = catch(|| {
                tok.reset().push_str(&text);
                if tok.do_tokenize().is_err() {
                    return None;
                }
                let lat = tok.verif_lattice();
                let size = lat.verif_size();
                let mut all = vec![];
                for end in 0..size {
                    for (i, n) in lat.verif_nodes(end).into_iter().enumerate() {
                        all.push((end, i, n));
                    }
                }
                let eos = lat.verif_eos();
                let nchars = tok.verif_input().current_chars().len();
                // independent enumeration of the dictionary candidates: every indexed entry matching at a position where some
                // word ends (or 0) and ending where a word may begin -- whether or not the lattice holds it
                let mut expected: Vec<(usize, usize, u32)> = vec![];
                {
                    let inp = tok.verif_input();
                    let bytes = inp.current().as_bytes();
                    let offs = inp.curr_byte_offsets().to_vec();
                    for (ch_off, byte_off) in offs.iter().enumerate() {
                        let reachable = ch_off == 0 || all.iter().any(|x| x.2.end == ch_off);
                        if !reachable {
                            continue;
                        }
                        for e in dict.lexicon().lookup(bytes, *byte_off) {
                            let end = e.end as usize; // whatever integer type the entry carries
                            if end < bytes.len() && !inp.can_bow(end) {
                                continue;
                            }
                            expected.push((ch_off, inp.ch_idx(end), e.word_id.as_raw()));
                        }
                        // the same from the SOURCE rows (not through the index): every row with a non-negative left id whose
                        // surface stands at this position is a candidate, whatever its ids are
                        for (k, (surf, dic)) in source_rows.iter().enumerate() {
                            let sb = surf.as_bytes();
                            if sb.is_empty() || !bytes[*byte_off..].starts_with(sb) {
                                continue;
                            }
                            let end = *byte_off + sb.len();
                            if end < bytes.len() && !inp.can_bow(end) {
                                continue;
                            }
                            let wid = ((*dic as u32) << 28) | (row_ids[k] as u32);
                            if !expected.contains(&(ch_off, inp.ch_idx(end), wid)) {
                                expected.push((ch_off, inp.ch_idx(end), wid));
                            }
                        }
                    }
                }
                // read before the results are collected: collecting hands the input buffer over to the morpheme list
                let norm_chars: Vec<char> = tok.verif_input().current_chars().to_vec();
                let mut ml = sudachi::analysis::mlist::MorphemeList::empty(&dict);
                ml.collect_results(&mut tok).unwrap();
                let morph: Vec<(u32, usize, i32)> = ml.iter().map(|m| (m.word_id().as_raw(), m.end_c(), m.total_cost())).collect();
                Some((all, eos, nchars, morph, expected, norm_chars))
            });
            let (all, eos, nchars, morph, expected, norm_chars) = match r {
                Ok(Some(x)) => x,
                Ok(None) => continue,
                Err(p) => {
                    let id = sink.case_rust_only(json!({"kind": "pipeline", "text": text, "matrix": matrix, "lex": lex_csv}), false);
                    sink.fail(id, &format!("tokenization panicked: {}", p), "");
                    tok = StatefulTokenizer::new(&dict, Mode::C);
                    continue;
                }
            };
            if nchars == 0 {
                continue;
            }
            // every dictionary candidate must be in the lattice ("any other sequence of candidate words" ranges over them)
            let mut missing = None;
            for (b, e, w) in &expected {
                if !all.iter().any(|x| x.2.begin == *b && x.2.end == *e && x.2.word_id == *w) {
                    missing = Some(format!("dictionary word {:#x} covering characters {}..{} of the normalised text is not a lattice candidate", w, b, e));
                    break;
                }
            }
            // nodes in insertion order by begin (stable)
            let mut order: Vec<usize> = (0..all.len()).collect();
            order.sort_by_key(|k| all[*k].2.begin);
            let nodes: Vec<N> = order.iter().map(|k| { let n = &all[*k].2; N { b: n.begin, e: n.end, l: n.left_id, r: n.right_id, c: n.cost } }).collect();
            let costs: Vec<i32> = order.iter().map(|k| all[*k].2.total_cost).collect();
            // the implementation's path: follow the back pointers from EOS
            let mut fail = missing;
            let mut path = vec![];
            if let Some((e, i, _)) = eos {
                let (mut ce, mut ci) = (e, i);
                loop {
                    path.push((ce, ci));
                    let n = all.iter().find(|x| x.0 == ce as usize && x.1 == ci as usize).map(|x| &x.2);
                    match n {
                        None => {
                            fail = Some("dangling back pointer".to_string());
                            break;
                        }
                        Some(n) => {
                            if n.prev_end == 0 {
                                break;
                            }
                            ce = n.prev_end;
                            ci = n.prev_index;
                        }
                    }
                    if path.len() > all.len() {
                        fail = Some("back pointers do not reach BOS".to_string());
                        break;
                    }
                }
                path.reverse();
            }
            // morphemes (mode C, no path rewriting) must be that path, and report its stored totals
            let pnodes: Vec<&sudachi::analysis::lattice::VerifNode> = path.iter().filter_map(|(e, i)| all.iter().find(|x| x.0 == *e as usize && x.1 == *i as usize).map(|x| &x.2)).collect();
            if fail.is_none() && (pnodes.len() != morph.len() || pnodes.iter().zip(morph.iter()).any(|(n, m)| n.word_id != m.0)) {
                fail = Some(format!("morphemes {:?} are not the lattice's best path", morph));
            }
            // word parameters of dictionary nodes come from the lexicon
            for (_, _, n) in &all {
                let wid = WordId::from_raw(n.word_id);
                if !wid.is_oov() {
                    let (l, r, c) = dict.lexicon().get_word_param(wid);
                    if (l as u16, r as u16, c) != (n.left_id, n.right_id, n.cost) && fail.is_none() {
                        fail = Some(format!("node for word {:?} carries ({},{},{}) but the lexicon says ({},{},{})", wid, n.left_id, n.right_id, n.cost, l, r, c));
                    }
                } else if fail.is_none() && templates.contains(&(n.left_id, n.right_id, n.cost)) {
                    let p = (n.left_id, n.right_id, n.cost);
                    let cats: Vec<&Vec<(u16, u16, i16)>> = by_cat.iter().filter(|c| c.contains(&p)).collect();
                    if !cats.is_empty() && p != templates[0] {
                        let complete = cats.iter().any(|c| c.iter().all(|q| all.iter().any(|x| x.2.begin == n.begin && x.2.end == n.end && (x.2.left_id, x.2.right_id, x.2.cost) == *q)));
                        if !complete {
                            fail = Some(format!("out-of-vocabulary candidate {}..{} is offered with template {:?} but not with every unk.def line of its category {:?}", n.begin, n.end, p, cats[0]));
                        }
                    }
                } else if !templates.contains(&(n.left_id, n.right_id, n.cost)) && fail.is_none() {
                    fail = Some(format!("out-of-vocabulary candidate {}..{} carries (left {}, right {}, cost {}) which is none of the configured templates {:?}", n.begin, n.end, n.left_id, n.right_id, n.cost, templates));
                }
            }
            if let (true, Some(ac), true) = (alpha_lengths, alpha_cat, fail.is_none()) {
                let chars: Vec<char> = norm_chars.clone();
                for (p, ch) in chars.iter().enumerate() {
                    if !ch.is_ascii_alphabetic() {
                        continue;
                    }
                    let reachable = p == 0 || all.iter().any(|x| x.2.end == p);
                    if reachable && !all.iter().any(|x| x.2.begin == p && by_cat[ac].contains(&(x.2.left_id, x.2.right_id, x.2.cost))) {
                        fail = Some(format!("position {} of the normalised text (letter {:?}) can be reached but carries no candidate of the MeCab provider's ALPHA definition (length candidates 1..2 are configured)", p, ch));
                        break;
                    }
                }
            }
            let totals: Vec<i32> = morph.iter().map(|m| m.2).collect();
            let c = Case { kind: "pipeline", nl, nr, raw_layout: false, data: tbl.clone(), len: nchars, nodes };
            let im: Impl = Some((costs, eos.map(|(_, _, ec)| (ec, path.clone(), totals))));
            // the model's row order equals the implementation's (both by begin, then insertion), so (end, index) agree
            let mut d = desc(&c);
            d["text"] = json!(text);
            check_and_emit(sink, &c, &im, checked, fail);
        }
        let _ = std::fs::remove_dir_all(&dir);
    }
}

pub fn run(args: &Args) {
    let checked = cfg!(debug_assertions);
    let mut sink = Sink::new("C02", &args.out, &["Model.Lattice", "Model.LatticeCheck"], args.seed, &args.tier);
    sink.shard_size = 60;
    sink.rule("unit: random connection matrices (1..5 x 1..5, non-square, i16 extremes, negative) x random candidate sets over 1..20 positions (overlaps, homographs, gaps, unreachable starts) through the public Lattice API; pipeline: dictionaries compiled from the test lexicon with random ids/costs and random n x m matrices, random texts, every lattice node read through the verif hook; non-trivial = a covering chain exists and >= 3 candidates; distinct by Coq term");
    if let Some(p) = &args.replay {
        let v: Value = serde_json::from_str(&std::fs::read_to_string(p).unwrap()).unwrap();
        let c = case_from(&v["case"]);
        let mut lat = Lattice::default();
        let im = run_lattice(&c, &mut lat);
        println!("case: {}", v["case"]);
        println!("implementation (public Lattice API): {:?}", im);
        println!("independent i64 oracle (min cost, overflow): {:?}", oracle(&c));
        check_and_emit(&mut sink, &c, &im, checked, None);
        sink.finish();
        return;
    }
    let mut rng = Rng::new(args.seed);
    let mut lat = Lattice::default();
    // directed corpus
    for c in corpus() {
        let im = run_lattice(&c, &mut lat);
        check_and_emit(&mut sink, &c, &im, checked, None);
    }
    for _ in 0..args.n(700, 12000) {
        let c = gen_unit(&mut rng);
        let im = run_lattice(&c, &mut lat);
        check_and_emit(&mut sink, &c, &im, checked, None);
    }
    run_pipeline(&mut sink, &mut rng, args, args.n(6, 60), args.n(40, 100), checked);
    known_overflow(&mut sink);
    sink.finish();
}

fn corpus() -> Vec<Case> {
    let mk = |nl, nr, data: Vec<i16>, len, nodes: Vec<(usize, usize, u16, u16, i16)>| Case {
        kind: "corpus",
        nl,
        nr,
        raw_layout: true,
        data,
        len,
        nodes: {
            let mut v: Vec<N> = nodes.into_iter().map(|(b, e, l, r, c)| N { b, e, l, r, c }).collect();
            v.sort_by_key(|n| n.b);
            v
        },
    };
    vec![
        // EOS connection decides
        mk(2, 2, vec![0, 0, 1000, -1000], 1, vec![(0, 1, 0, 0, 5), (0, 1, 0, 1, 5)]),
        // BOS connection decides (non-square 2 x 3)
        mk(2, 3, vec![0, 7, 50, 7, -50, 7], 1, vec![(0, 1, 1, 0, 0), (0, 1, 2, 0, 0)]),
        // negative costs make the longer chain cheaper
        mk(1, 1, vec![-10], 3, vec![(0, 3, 0, 0, 0), (0, 1, 0, 0, -1), (1, 2, 0, 0, -1), (2, 3, 0, 0, -1)]),
        // unreachable middle
        mk(1, 1, vec![0], 3, vec![(0, 1, 0, 0, 1), (2, 3, 0, 0, 1)]),
        // ties
        mk(1, 1, vec![0], 2, vec![(0, 1, 0, 0, 1), (0, 1, 0, 0, 1), (1, 2, 0, 0, 1), (0, 2, 0, 0, 2)]),
    ]
}

/// the recorded finding: path cost overflows i32 at cost extremes x > 32768 tokens (implementation only; too large for vm_compute)
fn known_overflow(sink: &mut Sink) {
    let mut lat = Lattice::default();
    let len = 33000usize;
    let c = Case { kind: "overflow", nl: 1, nr: 1, raw_layout: true, data: vec![32767], len, nodes: (0..len).map(|i| N { b: i, e: i + 1, l: 0, r: 0, c: 32767 }).collect() };
    let im = run_lattice(&c, &mut lat);
    let (opt, overflow) = oracle(&c);
    let id = sink.case_rust_only(json!({"kind": "overflow", "num_left": 1, "num_right": 1, "data": [32767], "len": len, "nodes": "33000 one-character words of cost 32767"}), true);
    let ok = match (&im, opt) {
        (Some((_, Some((ec, _, _)))), Some(o)) => *ec as i64 == o,
        _ => false,
    };
    if overflow && !ok {
        sink.fail(id, &format!("33000 tokens of cost 32767 with connection cost 32767: exact cost {:?}, implementation {}", opt, match &im { None => "panicked (attempt to add with overflow)".to_string(), Some((_, e)) => format!("{:?}", e.as_ref().map(|x| x.0)) }), "i32_cost_overflow");
    }
}
