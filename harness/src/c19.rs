//! C19 — the Python bindings and the command-line tool report exactly what the core library computes.
use crate::common::*;
use serde_json::{json, Value};
use std::process::Command;
use sudachi::analysis::mlist::MorphemeList;
use sudachi::analysis::stateful_tokenizer::StatefulTokenizer;
use sudachi::analysis::Mode;
use sudachi::config::{Config, SurfaceProjection};
use sudachi::dic::dictionary::JapaneseDictionary;
use sudachi::dic::subset::InfoSubset;
use sudachi::sentence_splitter::{SentenceSplitter, SplitSentences};
use std::convert::TryFrom;

fn mode_of(s: &str) -> Mode {
    match s {
        "A" => Mode::A,
        "B" => Mode::B,
        _ => Mode::C,
    }
}

const FIELDS: [(&str, u32); 9] = [
    ("surface", 0), ("pos", 1), ("normalized_form", 2), ("dictionary_form", 3), ("reading_form", 4),
    ("word_structure", 5), ("split_a", 6), ("split_b", 7), ("synonym_group_id", 8),
];
fn subset_of(fields: &Option<Vec<String>>) -> InfoSubset {
    match fields {
        None => InfoSubset::all(),
        Some(fs) => {
            let mut s = InfoSubset::empty();
            for f in fs {
                s |= match f.as_str() {
                    "surface" => InfoSubset::SURFACE,
                    "pos" | "pos_id" => InfoSubset::POS_ID,
                    "normalized_form" => InfoSubset::NORMALIZED_FORM,
                    "dictionary_form" => InfoSubset::DIC_FORM_WORD_ID,
                    "reading_form" => InfoSubset::READING_FORM,
                    "word_structure" => InfoSubset::WORD_STRUCTURE,
                    "split_a" => InfoSubset::SPLIT_A,
                    "split_b" => InfoSubset::SPLIT_B,
                    "synonym_group_id" => InfoSubset::SYNONYM_GROUP_ID,
                    _ => InfoSubset::empty(),
                };
            }
            s
        }
    }
}

const PROJECTIONS: [&str; 7] = ["surface", "normalized", "reading", "dictionary", "dictionary_and_surface", "normalized_and_surface", "normalized_nouns"];

/// documented meaning of the surface projections (python/docs, sudachipy.config.Config)
fn project(proj: &Option<String>, raw: &str, pos: &[String], dict_form: &str, norm: &str, reading: &str) -> String {
    let conj = matches!(pos[0].as_str(), "動詞" | "形容詞" | "助動詞");
    match proj.as_deref() {
        None | Some("surface") => raw.to_string(),
        Some("normalized") => norm.to_string(),
        Some("reading") => reading.to_string(),
        Some("dictionary") => dict_form.to_string(),
        Some("dictionary_and_surface") => if conj { raw.to_string() } else { dict_form.to_string() },
        Some("normalized_and_surface") => if conj { raw.to_string() } else { norm.to_string() },
        Some("normalized_nouns") => if pos[5] == "*" { norm.to_string() } else { raw.to_string() },
        Some(_) => raw.to_string(),
    }
}

fn observe(ml: &MorphemeList<&JapaneseDictionary>, proj: &Option<String>, with_slice: bool) -> Vec<Value> {
    ml.iter()
        .map(|m| {
            let raw = m.surface().to_string();
            let pos: Vec<String> = m.part_of_speech().to_vec();
            let mut v = json!({
                "surface": project(proj, &raw, &pos, m.dictionary_form(), m.normalized_form(), m.reading_form()),
                "raw_surface": raw,
                "begin": m.begin_c(),
                "end": m.end_c(),
                "pos": pos,
                "pos_id": m.part_of_speech_id(),
                "dictionary_form": m.dictionary_form(),
                "normalized_form": m.normalized_form(),
                "reading_form": m.reading_form(),
                "is_oov": m.is_oov(),
                "word_id": m.word_id().as_raw(),
                "dictionary_id": m.dictionary_id(),
                "synonym_group_ids": m.synonym_group_ids(),
            });
            if with_slice {
                v["slice_ok"] = json!(true);
            }
            v
        })
        .collect()
}

/// the library's answer for one session (mirrors what the binding is documented to do)
fn run_session(dict: &JapaneseDictionary, s: &Value) -> Vec<Value> {
    let mode = mode_of(s["mode"].as_str().unwrap());
    let fields: Option<Vec<String>> = s["fields"].as_array().map(|a| a.iter().map(|x| x.as_str().unwrap().to_string()).collect());
    let proj: Option<String> = s["projection"].as_str().map(|x| x.to_string());
    let required = match &proj {
        Some(p) => SurfaceProjection::try_from(p.as_str()).map(|p| p.required_subset()).unwrap_or(InfoSubset::empty()),
        None => InfoSubset::empty(),
    };
    let mut tok = StatefulTokenizer::new(dict, mode);
    tok.set_subset(subset_of(&fields) | required);
    // StatefulTokenizer::set_mode (what the binding calls for a per-call override and to restore the default) ADDS the
    // split field of the mode to the loaded subset and never removes it.  Which of the split lists that were NOT requested
    // are loaded therefore grows with the overrides seen so far; Morpheme.split in such a mode observes it.  Nothing is
    // promised about fields that were not requested (C11), so the mirror loads the same extra fields as the core does for
    // the binding's call sequence; the mode itself still never outlives the call (fresh tokenizer per override).
    let split_field = |m: Mode| match m {
        Mode::A => InfoSubset::SPLIT_A,
        Mode::B => InfoSubset::SPLIT_B,
        _ => InfoSubset::empty(),
    };
    let mut extra = split_field(mode);
    let mut last: Option<MorphemeList<&JapaneseDictionary>> = None;
    let mut obs = vec![];
    for op in s["ops"].as_array().unwrap() {
        let r = catch(|| -> Result<Value, String> {
            match op["op"].as_str().unwrap() {
                "tokenize" => {
                    // a per-call mode override never outlives the call; every call yields a list of its own content
                    let call_mode = op["mode"].as_str().map(mode_of).unwrap_or(mode);
                    if !op["mode"].is_null() {
                        extra |= split_field(call_mode);
                    }
                    tok.set_subset(subset_of(&fields) | required | extra);
                    let mut t2 = StatefulTokenizer::new(dict, call_mode);
                    t2.set_subset(subset_of(&fields) | required | extra);
                    if op["mode"].is_null() {
                        // same tokenizer object when no override is given (history must not matter: C10)
                        tok.reset().push_str(op["text"].as_str().unwrap());
                        tok.do_tokenize().map_err(|e| format!("{:?}", e))?;
                        let mut ml = MorphemeList::empty(dict);
                        ml.collect_results(&mut tok).map_err(|e| format!("{:?}", e))?;
                        let o = observe(&ml, &proj, true);
                        last = Some(ml);
                        Ok(json!({"ok": true, "morphemes": o, "tok_mode": s["mode"]}))
                    } else {
                        t2.reset().push_str(op["text"].as_str().unwrap());
                        t2.do_tokenize().map_err(|e| format!("{:?}", e))?;
                        let mut ml = MorphemeList::empty(dict);
                        ml.collect_results(&mut t2).map_err(|e| format!("{:?}", e))?;
                        let o = observe(&ml, &proj, true);
                        last = Some(ml);
                        Ok(json!({"ok": true, "morphemes": o, "tok_mode": s["mode"]}))
                    }
                }
                "split" => {
                    let ml = match &last {
                        Some(ml) if ml.len() > 0 => ml,
                        _ => return Ok(json!({"ok": true, "morphemes": [], "skipped": true})),
                    };
                    let idx = op["index"].as_u64().unwrap() as usize % ml.len();
                    let mut out = ml.empty_clone();
                    let splitted = ml.split_into(mode_of(op["mode"].as_str().unwrap()), idx, &mut out).map_err(|e| format!("{:?}", e))?;
                    if !splitted && op["add_single"].as_bool().unwrap_or(true) {
                        ml.copy_slice(idx, idx + 1, &mut out);
                    }
                    Ok(json!({"ok": true, "morphemes": observe(&out, &proj, true)}))
                }
                _ => {
                    let mut out = MorphemeList::empty(dict);
                    out.lookup(op["query"].as_str().unwrap(), InfoSubset::all()).map_err(|e| format!("{:?}", e))?;
                    // lookup results are created by the dictionary object: its own (configured) projection applies
                    Ok(json!({"ok": true, "morphemes": observe(&out, &None, false)}))
                }
            }
        });
        obs.push(match r {
            Ok(Ok(v)) => v,
            Ok(Err(_)) => json!({"ok": false, "error": "SudachiError"}),
            Err(_) => json!({"ok": false, "error": "PanicException"}),
        });
    }
    obs
}

fn rand_text(rng: &mut Rng) -> String {
    let pool = ["東京都", "京都", "東京", "に", "行っ", "た", "。", "ア", "イ", "ー", "1", "2", "3", ",", ".", "a", "Z", " ", "か", "が", "👍", "🏻", "ｶﾞ", "㍿", "é", "e\u{301}", "𠮷", "高輪ゲートウェイ駅", "特a", "な。な", "いく", "いっ", "行く", "〇", "千", "二"];
    let n = rng.below(8);
    let mut s = String::new();
    for _ in 0..n {
        s.push_str(*rng.pick(&pool[..]));
    }
    s
}

fn gen_session(rng: &mut Rng) -> Value {
    let modes = ["A", "B", "C"];
    let fields: Value = if rng.chance(1, 2) {
        Value::Null
    } else {
        let mut f = vec![];
        for (name, _) in FIELDS.iter() {
            if rng.chance(1, 3) {
                f.push(json!(name));
            }
        }
        json!(f)
    };
    let projection: Value = if rng.chance(1, 2) { Value::Null } else { json!(*rng.pick(&PROJECTIONS[..])) };
    let nops = 1 + rng.below(6);
    let mut ops = vec![];
    for _ in 0..nops {
        if rng.chance(1, 10) {
            // an analysis that fails (input longer than 49,149 bytes), with or without a per-call mode: later calls must not notice
            ops.push(json!({"op": "tokenize", "text": "あ".repeat(20000), "mode": if rng.chance(2, 3) { json!(*rng.pick(&modes[..])) } else { Value::Null }, "out": rng.chance(1, 2)}));
            ops.push(json!({"op": "tokenize", "text": "東京都に行った", "mode": Value::Null, "out": rng.chance(1, 2)}));
            continue;
        }
        match rng.below(6) {
            0 | 1 | 2 => ops.push(json!({"op": "tokenize", "text": rand_text(rng),
                "mode": if rng.chance(1, 3) { json!(*rng.pick(&modes[..])) } else { Value::Null }, "out": rng.chance(1, 2)})),
            3 | 4 => ops.push(json!({"op": "split", "index": rng.below(8), "mode": *rng.pick(&modes[..]), "out": rng.chance(1, 2), "add_single": rng.chance(2, 3)})),
            _ => ops.push(json!({"op": "lookup", "query": *rng.pick(&["東京都", "京都", "に", "行っ", "xyz", "", "特a", "いく"][..]), "out": rng.chance(1, 2)})),
        }
    }
    json!({"mode": *rng.pick(&modes[..]), "fields": fields, "projection": projection, "ops": ops})
}

// ---------------------------------------------------------------- command-line tool
fn expected_cli(dict: &JapaneseDictionary, file: &[u8], mode: Mode, wakati: bool, all: bool, split: &str) -> Result<Vec<u8>, String> {
    let text = std::str::from_utf8(file).unwrap();
    let mut out: Vec<u8> = vec![];
    let mut tok = StatefulTokenizer::new(dict, mode);
    // lines as read_line delivers them; each without exactly one "\n" or "\r\n"
    let mut lines: Vec<&str> = vec![];
    let mut rest = text;
    while !rest.is_empty() {
        match rest.find('\n') {
            Some(i) => {
                lines.push(&rest[..=i]);
                rest = &rest[i + 1..];
            }
            None => {
                lines.push(rest);
                rest = "";
            }
        }
    }
    let splitter = SentenceSplitter::new().with_checker(dict.lexicon());
    for line in lines {
        let t = line.strip_suffix("\r\n").or_else(|| line.strip_suffix('\n')).unwrap_or(line);
        let sentences: Vec<String> = match split {
            "no" => vec![t.to_string()],
            _ => splitter.split(t).map(|(_, s)| s.to_string()).collect(),
        };
        for s in sentences {
            if split == "only" {
                out.extend_from_slice(s.as_bytes());
                continue;
            }
            tok.reset().push_str(&s);
            tok.do_tokenize().map_err(|e| format!("{:?}", e))?;
            let mut ml = MorphemeList::empty(dict);
            ml.collect_results(&mut tok).map_err(|e| format!("{:?}", e))?;
            if wakati {
                if ml.len() == 0 {
                    out.push(b'\n');
                } else {
                    let ss: Vec<String> = ml.iter().map(|m| m.surface().to_string()).collect();
                    out.extend_from_slice(ss.join(" ").as_bytes());
                    out.push(b'\n');
                }
            } else {
                for m in ml.iter() {
                    let mut l = format!("{}\t{}\t{}", m.surface(), m.part_of_speech().join(","), m.normalized_form());
                    if all {
                        l.push_str(&format!("\t{}\t{}\t{}\t{:?}", m.dictionary_form(), m.reading_form(), m.dictionary_id(), m.synonym_group_ids()));
                        if m.is_oov() {
                            l.push_str("\t(OOV)");
                        }
                    }
                    l.push('\n');
                    out.extend_from_slice(l.as_bytes());
                }
                out.extend_from_slice(b"EOS\n");
            }
        }
    }
    Ok(out)
}

fn gen_file(rng: &mut Rng, spaces: bool) -> Vec<u8> {
    let nlines = rng.below(6);
    let mut f = String::new();
    for i in 0..nlines {
        let mut t = if rng.chance(1, 4) { String::new() } else { rand_text(rng) };
        if !spaces {
            t = t.replace(' ', "");
        }
        f.push_str(&t);
        if rng.chance(1, 8) {
            f.push('\r'); // a carriage return that belongs to the text (e.g. "…\r" without "\n", or "\r\r\n")
        }
        let last = i + 1 == nlines;
        match rng.below(if last { 4 } else { 3 }) {
            0 => f.push_str("\r\n"),
            3 => {}
            _ => f.push('\n'),
        }
    }
    f.into_bytes()
}


fn coq_str(s: &str) -> String {
    format!("\"{}\"%string", s.replace('"', "\"\""))
}

fn coq_opt_str(s: Option<&str>) -> String {
    match s {
        None => "None".to_string(),
        Some(x) => format!("(Some {})", coq_str(x)),
    }
}

/// Coq terms for one Python session: `check_fields` for create(), `check_projection` for every tokenize / split call that
/// succeeded on both sides.  The model gets the morphemes as the LIBRARY reports them under the same field subset (raw
/// surface, POS id, normalised / reading / dictionary form) and must reproduce the strings the interpreter returned.
fn model_terms(sink: &mut Sink, dict: &JapaneseDictionary, s: &Value, mine: &[Value], theirs: &[Value]) {
    let fields: Option<Vec<String>> = s["fields"].as_array().map(|a| a.iter().map(|x| x.as_str().unwrap().to_string()).collect());
    let proj: Option<&str> = s["projection"].as_str();
    let required = match proj {
        Some(p) => SurfaceProjection::try_from(p).map(|p| p.required_subset()).unwrap_or(InfoSubset::empty()),
        None => InfoSubset::empty(),
    };
    let names = match &fields {
        None => "None".to_string(),
        Some(fs) => format!("(Some {})", clist(fs.iter().map(|f| coq_str(f)))),
    };
    let subset = (subset_of(&fields) | required).bits();
    sink.tag("py-model:create");
    sink.case(
        format!("check_fields {} {} {}", names, coq_opt_str(proj), cn(subset)),
        json!({"kind": "py-session", "session": s, "check": "fields"}),
        fields.is_some() || proj.is_some(),
    );
    let pl = clist(dict.grammar().pos_list.iter().map(|p| clist(p.iter().map(|c| ctext(c)))));
    for (k, (a, b)) in mine.iter().zip(theirs.iter()).enumerate() {
        let op = s["ops"][k]["op"].as_str().unwrap_or("");
        if op == "lookup" || a["ok"] != json!(true) || b["ok"] != json!(true) {
            continue;
        }
        let (am, bm) = match (a["morphemes"].as_array(), b["morphemes"].as_array()) {
            (Some(x), Some(y)) if x.len() == y.len() => (x, y),
            _ => continue, // reported by the field-by-field comparison
        };
        let ms = clist(am.iter().map(|m| {
            format!(
                "mkPym {} {} {} {} {}",
                ctext(m["raw_surface"].as_str().unwrap_or("")),
                cn(m["pos_id"].as_u64().unwrap_or(0)),
                ctext(m["normalized_form"].as_str().unwrap_or("")),
                ctext(m["reading_form"].as_str().unwrap_or("")),
                ctext(m["dictionary_form"].as_str().unwrap_or(""))
            )
        }));
        let py = clist(bm.iter().map(|m| ctext(m["surface"].as_str().unwrap_or(""))));
        sink.tag(&format!("py-model:projection:{}", proj.unwrap_or("none")));
        sink.case(
            format!("check_projection {} {} {} {}", coq_opt_str(proj), pl, ms, py),
            json!({"kind": "py-session", "session": s, "check": "projection", "op": k}),
            !am.is_empty() && proj.is_some(),
        );
    }
}

/// `Dictionary.lookup` over a stack of dictionaries that re-define each other's words: built here from the Python test lexicon
/// plus two user lexicons.  Three things must agree for every query: what sudachipy reports, what the library's
/// MorphemeList::lookup reports, and the rows of the SOURCE lexicons with that surface (last user dictionary first, the system
/// dictionary last, rows of one dictionary in file order) -- the documented meaning of the call.
fn lookup_stage(sink: &mut Sink, args: &Args, root: &str, pypkg: &str) {
    let res = format!("{}/python/tests/resources", repo());
    let rd = |f: &str| std::fs::read_to_string(format!("{}/{}", res, f)).unwrap_or_default();
    let lex = rd("lex.csv");
    let matrix = rd("matrix.def");
    let u1 = "東京都,6,6,3000,東京都,名詞,固有名詞,地名,一般,*,*,ユーザートウキョウト,東京都,*,A,*,*,*,*\n京都,6,6,3000,京都,名詞,固有名詞,地名,一般,*,*,ユーザーキョウト,京都,*,A,*,*,*,*\n東京,6,6,3000,東京,名詞,固有名詞,地名,一般,*,*,ユーザートウキョウ,東京,*,A,*,*,*,*\n東京都,6,6,3100,東京都,名詞,普通名詞,一般,*,*,*,ニバンメ,東京都,*,A,*,*,*,*\n";
    let u2 = "東京都,6,6,2900,東京都,名詞,固有名詞,地名,一般,*,*,ユーザーニ,東京都,*,A,*,*,*,*\n東,7,7,2900,東,名詞,普通名詞,一般,*,*,*,ユーザーヒガシ,東,*,A,*,*,*,*\nに,3,3,2900,に,助詞,格助詞,*,*,*,*,ユーザーニ,に,*,A,*,*,*,*\n東京都に,6,6,2900,東京都に,名詞,固有名詞,地名,一般,*,*,トウキョウトニ,東京都に,*,A,*,*,*,*\n";
    let dir = args.work.join("lookupdic");
    let _ = std::fs::remove_dir_all(&dir);
    std::fs::create_dir_all(&dir).unwrap();
    let built = (|| -> Result<(), String> {
        let sys = crate::dictutil::compile_system(&matrix, &lex)?;
        let b1 = crate::dictutil::compile_user(&sys, u1)?;
        let b2 = crate::dictutil::compile_user(&sys, u2)?;
        std::fs::write(dir.join("system.dic"), &sys).map_err(|e| e.to_string())?;
        std::fs::write(dir.join("u1.dic"), &b1).map_err(|e| e.to_string())?;
        std::fs::write(dir.join("u2.dic"), &b2).map_err(|e| e.to_string())?;
        crate::dictutil::prepare_resources(&dir, &res)
    })();
    if let Err(e) = built {
        let id = sink.case_rust_only(json!({"kind": "py-lookup-dict"}), false);
        sink.fail(id, &format!("the dictionaries of the lookup stage did not build: {}", e), "");
        return;
    }
    let mut cfg: Value = serde_json::from_str(&rd("sudachi.json")).unwrap_or(json!({}));
    cfg["path"] = json!(dir.to_string_lossy());
    cfg["systemDict"] = json!("system.dic");
    cfg["userDict"] = json!(["u1.dic", "u2.dic"]);
    let cfg_path = dir.join("sudachi.json");
    std::fs::write(&cfg_path, serde_json::to_vec(&cfg).unwrap()).unwrap();
    let dict = match Config::new(Some(cfg_path.clone()), Some(dir.clone()), None).map_err(|e| format!("{:?}", e)).and_then(|c| JapaneseDictionary::from_cfg(&c).map_err(|e| format!("{:?}", e))) {
        Ok(d) => d,
        Err(e) => {
            let id = sink.case_rust_only(json!({"kind": "py-lookup-dict"}), false);
            sink.fail(id, &format!("the dictionaries of the lookup stage did not load: {}", e), "");
            return;
        }
    };
    // (surface, reading) of the source rows in the documented search order
    let mut rows: Vec<(String, String, u32)> = vec![];
    for (dic, csv) in [(2u32, u2), (1u32, u1), (0u32, lex.as_str())] {
        for (k, l) in csv.lines().enumerate() {
            let f: Vec<&str> = l.split(',').collect();
            if f.len() > 11 && f[1] != "-1" {
                rows.push((f[0].to_string(), f[11].to_string(), (dic << 28) | k as u32));
            }
        }
    }
    let queries = ["東京都", "京都", "東京", "東", "に", "都", "東京都に", "行っ", "xyz", "", "た"];
    let mut sessions: Vec<Value> = vec![];
    for (i, q) in queries.iter().enumerate() {
        // alone, and after another query into the same reused list
        sessions.push(json!({"mode": "C", "fields": null, "projection": null, "ops": [{"op": "lookup", "query": q, "out": false}]}));
        sessions.push(json!({"mode": "C", "fields": null, "projection": null, "ops": [
            {"op": "lookup", "query": queries[(i + 3) % queries.len()], "out": true}, {"op": "lookup", "query": q, "out": true}, {"op": "lookup", "query": q, "out": false}]}));
    }
    let sp = args.work.join("lookup_sessions.json");
    let op = args.work.join("lookup_out.json");
    std::fs::write(&sp, serde_json::to_vec(&sessions).unwrap()).unwrap();
    let _ = std::fs::remove_file(&op);
    let st = Command::new("timeout").arg("-k").arg("10").arg("900").arg("python3")
        .arg(format!("{}/pyharness/run_py.py", root)).arg(&cfg_path).arg(&dir).arg(&sp).arg(&op)
        .env("PYTHONPATH", pypkg).output();
    let py: Option<Value> = std::fs::read_to_string(&op).ok().and_then(|s| serde_json::from_str(&s).ok());
    let ok = matches!(&st, Ok(o) if o.status.success());
    if !ok || py.is_none() {
        let id = sink.case_rust_only(json!({"kind": "py-lookup-run"}), true);
        let err = match &st { Ok(o) => String::from_utf8_lossy(&o.stderr).chars().rev().take(600).collect::<String>().chars().rev().collect::<String>(), Err(e) => e.to_string() };
        sink.fail(id, &format!("python interpreter did not complete the lookup stage: {}", err), "");
        return;
    }
    let py = py.unwrap();
    // the SOURCE rows as the Coq model reads them: per dictionary [system; u1; u2] every row (surface bytes, left id), in file order
    let coq_rows = clist([lex.as_str(), u1, u2].iter().map(|csv| {
        clist(csv.lines().map(|l| {
            let f: Vec<&str> = l.split(',').collect();
            cpair(&cbytes(f[0].as_bytes()), &cz(f.get(1).and_then(|x| x.parse::<i64>().ok()).unwrap_or(-1)))
        }))
    }));
    for (i, s) in sessions.iter().enumerate() {
        let theirs = py["results"][i].as_array().cloned().unwrap_or_default();
        // run every call of the session on the library first: the Coq term compares the MODEL's answer (Model/LookupAll.v:
        // rows_answer over the source rows) with the word ids the library and the interpreter returned
        let mut ops: Vec<(String, bool, Vec<(u32, String)>, Option<Vec<(u32, String)>>, Option<Vec<(u32, String)>>)> = vec![];
        for (k, o) in s["ops"].as_array().unwrap().iter().enumerate() {
            let q = o["query"].as_str().unwrap();
            let expected: Vec<(u32, String)> = rows.iter().filter(|r| r.0 == q && !q.is_empty()).map(|r| (r.2, r.1.clone())).collect();
            let lib: Option<Vec<(u32, String)>> = catch(|| {
                let mut out = MorphemeList::empty(&dict);
                out.lookup(q, InfoSubset::all()).ok()?;
                Some(out.iter().map(|m| (m.word_id().as_raw(), m.reading_form().to_string())).collect::<Vec<_>>())
            }).ok().flatten();
            let pyv: Option<Vec<(u32, String)>> = if theirs.get(k).map_or(false, |t| t["ok"] == json!(true)) {
                Some(theirs[k]["morphemes"].as_array().unwrap().iter().map(|m| (m["word_id"].as_u64().unwrap_or(u64::MAX) as u32, m["reading_form"].as_str().unwrap_or("?").to_string())).collect())
            } else {
                None
            };
            ops.push((q.to_string(), o["out"] == json!(true), expected, lib, pyv));
        }
        let ids = |v: &Option<Vec<(u32, String)>>| match v {
            Some(x) => clist(x.iter().map(|e| cn(e.0))),
            None => clist(vec![cn(u32::MAX)]), // no answer: never what the model says
        };
        let obs = clist(ops.iter().flat_map(|(q, _, _, lib, pyv)| vec![cpair(&cbytes(q.as_bytes()), &ids(lib)), cpair(&cbytes(q.as_bytes()), &ids(pyv))]));
        sink.tag("py-lookup");
        let id = sink.case(
            format!("check_lookup {} {}", coq_rows, obs),
            json!({"kind": "py-lookup", "session": s, "user_lexicons": [u1, u2]}),
            ops.iter().any(|o| !o.2.is_empty()),
        );
        for (k, (q, reused, expected, lib, pyv)) in ops.iter().enumerate() {
            if lib.as_ref() != Some(expected) {
                sink.fail(id, &format!("MorphemeList::lookup({:?}) over [system, u1, u2] gives (word id, reading) {:?}; the rows of the source lexicons with that surface, last user dictionary first: {:?}", q, lib, expected), "");
                break;
            }
            if pyv.as_ref() != Some(expected) {
                sink.fail(id, &format!("op {}: Dictionary.lookup({:?}{}) in Python gives (word id, reading) {:?}; the rows of the source lexicons with that surface, last user dictionary first: {:?}", k, q, if *reused { ", out=reused" } else { "" }, pyv, expected), "");
                break;
            }
        }
    }
}

pub fn run(args: &Args) {
    let mut sink = Sink::new("C19", &args.out, &["Model.Cli", "Model.CliColumns", "Model.PyProjection", "Model.LookupAll"], args.seed, &args.tier);
    sink.rule("python: sessions {create(mode, fields subset, projection); 1..6 ops of tokenize(text, per-call mode, out= reuse) / Morpheme.split(mode, out=, add_single) / Dictionary.lookup} run in the sudachipy module built from the working tree and mirrored on the Rust library, compared field by field (surface, raw_surface, begin/end with text[begin:end] == raw_surface, POS, forms, ids, split results); CLI: multi-line files (blank lines, CRLF, no final newline) x modes x {-w, -a, default} x --split-sentences {yes,no,only}, stdout compared byte for byte with the library's morphemes in the documented format; Coq: Model/PyProjection.v (the field-name parser and create()'s subset; for every tokenize / split call the model's projection of the library's morphemes must equal what Morpheme.surface() returned in the interpreter); Model/LookupAll.v (lookup stage: for every Dictionary.lookup / MorphemeList::lookup call over the stack system+u1+u2 the model's answer computed from the SOURCE rows must equal the word ids the library and the interpreter returned); the line-handling and surface-only-output models against what the tool demonstrably analysed/printed; non-trivial = at least one non-empty text; distinct by content");
    let mut rng = Rng::new(args.seed);
    let res = format!("{}/python/tests/resources", repo());
    let cfg_path = format!("{}/sudachi.json", res);
    let config = Config::new(Some(cfg_path.clone().into()), Some(res.clone().into()), None).expect("config");
    let dict = JapaneseDictionary::from_cfg(&config).expect("dictionary");
    let pypkg = std::env::var("VERIF_PYPKG").unwrap_or_default();
    let cli = std::env::var("VERIF_CLI_BIN").unwrap_or_default();
    let root = std::env::var("VERIF_ROOT").unwrap_or_else(|_| ".".into());
    std::fs::create_dir_all(&args.work).unwrap();

    // ---------------- python sessions
    let sessions: Vec<Value> = if let Some(p) = &args.replay {
        let v: Value = serde_json::from_str(&std::fs::read_to_string(p).unwrap()).unwrap();
        if v["case"]["kind"] == "py-session" { vec![v["case"]["session"].clone()] } else { vec![] }
    } else {
        let mut v = vec![
            json!({"mode": "C", "fields": null, "projection": null, "ops": [
                {"op": "tokenize", "text": "東京都に行った。", "mode": "A", "out": false}, {"op": "tokenize", "text": "東京都に行った。", "mode": null, "out": true},
                {"op": "split", "index": 0, "mode": "A", "out": true, "add_single": true}, {"op": "split", "index": 1, "mode": "A", "out": true, "add_single": false},
                {"op": "tokenize", "text": "", "mode": null, "out": true}, {"op": "lookup", "query": "東京都", "out": true}]}),
            json!({"mode": "C", "fields": null, "projection": null, "ops": [
                {"op": "tokenize", "text": "あ".repeat(20000), "mode": "A", "out": false}, {"op": "tokenize", "text": "東京都", "mode": null, "out": false},
                {"op": "tokenize", "text": "あ".repeat(20000), "mode": null, "out": true}, {"op": "tokenize", "text": "東京都", "mode": null, "out": true}]}),
            json!({"mode": "A", "fields": ["dictionary_form"], "projection": "dictionary", "ops": [{"op": "tokenize", "text": "👍🏻é東京都に行った", "mode": null, "out": false}]}),
        ];
        // texts that are not ASCII but whose normalised form is (offsets are in code points of the ORIGINAL)
        for t in ["ＡＢＣ", "ｓｕｄａｃｈｉ ２０２１", "①②", "Ａ", "ＡＢＣ東京都", "㍿ＡＢ"] {
            v.push(json!({"mode": "C", "fields": null, "projection": null, "ops": [
                {"op": "tokenize", "text": t, "mode": null, "out": false}, {"op": "tokenize", "text": t, "mode": "A", "out": true}]}));
        }
        // directed: every creation mode x small field requests (with and without the split lists) x every per-call override,
        // the override being the FIRST call of the tokenizer, then a default call, then the override again
        for m0 in ["A", "B", "C"] {
            for fields in [json!([]), json!(["surface"]), json!(["pos"]), json!(["split_a"]), json!(["normalized_form", "reading_form"])] {
                for ov in ["A", "B", "C"] {
                    v.push(json!({"mode": m0, "fields": fields, "projection": null, "ops": [
                        {"op": "tokenize", "text": "東京都に行った高輪ゲートウェイ駅", "mode": ov, "out": false},
                        {"op": "tokenize", "text": "東京都に行った高輪ゲートウェイ駅", "mode": null, "out": true},
                        {"op": "tokenize", "text": "京都東京都", "mode": ov, "out": true}]}));
                }
            }
        }
        for _ in 0..args.n(250, 4000) {
            v.push(gen_session(&mut rng));
        }
        v
    };
    if !sessions.is_empty() {
        let sp = args.work.join("sessions.json");
        let op = args.work.join("py_out.json");
        std::fs::write(&sp, serde_json::to_vec(&sessions).unwrap()).unwrap();
        let _ = std::fs::remove_file(&op);
        let st = Command::new("timeout").arg("-k").arg("10").arg("900").arg("python3")
            .arg(format!("{}/pyharness/run_py.py", root))
            .arg(&cfg_path)
            .arg(&res)
            .arg(&sp)
            .arg(&op)
            .env("PYTHONPATH", &pypkg)
            .output();
        let py: Option<Value> = std::fs::read_to_string(&op).ok().and_then(|s| serde_json::from_str(&s).ok());
        match (&st, &py) {
            (Ok(o), Some(py)) if o.status.success() => {
                sink.extra("python_panic_exceptions", py["panic_exceptions"].clone());
                for (i, s) in sessions.iter().enumerate() {
                    let mine = run_session(&dict, s);
                    let theirs = py["results"][i].as_array().cloned().unwrap_or_default();
                    let nontrivial = s["ops"].as_array().unwrap().iter().any(|o| o["text"].as_str().map_or(false, |t| !t.is_empty()));
                    sink.tag("py-session");
                    if !s["fields"].is_null() {
                        sink.tag("py:field-subset");
                    }
                    if !s["projection"].is_null() {
                        sink.tag("py:projection");
                    }
                    let id = sink.case_rust_only(json!({"kind": "py-session", "session": s}), nontrivial);
                    if args.replay.is_some() {
                        println!("library : {}", serde_json::to_string(&mine).unwrap());
                        println!("python  : {}", serde_json::to_string(&theirs).unwrap());
                    }
                    // with a field subset only the requested fields are promised (earlier mode changes may leave more loaded)
                    let requested: Option<Vec<String>> = s["fields"].as_array().map(|a| a.iter().map(|x| x.as_str().unwrap().to_string()).collect());
                    let restrict = |v: &Value| -> Value {
                        let mut v = v.clone();
                        if let (Some(req), Some(ms)) = (&requested, v["morphemes"].as_array_mut()) {
                            for m in ms.iter_mut() {
                                let o = m.as_object_mut().unwrap();
                                let has = |n: &str| req.iter().any(|r| r == n);
                                if !has("pos") && !has("pos_id") { o.remove("pos"); o.remove("pos_id"); }
                                if !has("dictionary_form") { o.remove("dictionary_form"); }
                                if !has("normalized_form") { o.remove("normalized_form"); }
                                if !has("reading_form") { o.remove("reading_form"); }
                                if !has("synonym_group_id") { o.remove("synonym_group_ids"); }
                            }
                        }
                        v
                    };
                    for (k, (a, b)) in mine.iter().zip(theirs.iter()).enumerate() {
                        // lookup always loads all fields
                        let is_lookup = s["ops"][k]["op"] == "lookup";
                        let a = &(if is_lookup { a.clone() } else { restrict(a) });
                        let b = &(if is_lookup { b.clone() } else { restrict(b) });
                        let mut b2 = b.clone();
                        // a failing slice check is reported on its own
                        let mut slice_bad = false;
                        if let Some(ms) = b2["morphemes"].as_array_mut() {
                            for m in ms.iter_mut() {
                                if m["slice_ok"] == json!(false) {
                                    slice_bad = true;
                                }
                            }
                        }
                        if slice_bad {
                            sink.fail(id, &format!("op {}: text[begin:end] != raw_surface in Python", k), "");
                            break;
                        }
                        if a["ok"] != b2["ok"] {
                            sink.fail(id, &format!("op {} ({}): library ok={} but python ok={} ({})", k, s["ops"][k]["op"], a["ok"], b2["ok"], b2["error"]), "");
                            break;
                        }
                        if a["ok"] == json!(true) && (a["morphemes"] != b2["morphemes"] || (a.get("tok_mode").is_some() && a["tok_mode"] != b2["tok_mode"])) {
                            let am = a["morphemes"].as_array().unwrap();
                            let bm = b2["morphemes"].as_array().unwrap();
                            let what = if am.len() != bm.len() { format!("{} vs {} morphemes", am.len(), bm.len()) } else {
                                let j = (0..am.len()).find(|j| am[*j] != bm[*j]);
                                match j { Some(j) => format!("morpheme {}: library {} python {}", j, am[j], bm[j]), None => format!("tokenizer mode after call: {} vs {}", a["tok_mode"], b2["tok_mode"]) }
                            };
                            sink.fail(id, &format!("op {} ({}): {}", k, s["ops"][k]["op"], what), "");
                            break;
                        }
                    }
                    if mine.len() != theirs.len() {
                        sink.fail(id, "python driver returned a different number of observations", "");
                    }
                    // the MODEL of the binding's glue (Model/PyProjection.v), not the Rust mirror above: the field names and the
                    // projection name of create(), and for every tokenize / split call what Morpheme.surface() returned
                    model_terms(&mut sink, &dict, s, &mine, &theirs);
                }
            }
            (Ok(o), _) => {
                let id = sink.case_rust_only(json!({"kind": "py-run", "sessions": sessions.len()}), true);
                sink.fail(id, &format!("python interpreter did not complete (status {:?}): {}", o.status.code(), String::from_utf8_lossy(&o.stderr).chars().rev().take(600).collect::<String>().chars().rev().collect::<String>()), "");
            }
            (Err(e), _) => {
                let id = sink.case_rust_only(json!({"kind": "py-run"}), true);
                sink.fail(id, &format!("cannot start python3: {}", e), "");
            }
        }
    }

    // the lookup stage is fixed: a replay of one of its cases runs all of it
    let replay_kind: Option<String> = args.replay.as_ref().and_then(|p| std::fs::read_to_string(p).ok()).and_then(|t| serde_json::from_str::<Value>(&t).ok()).map(|v| v["case"]["kind"].as_str().unwrap_or("").to_string());
    if replay_kind.as_deref().map_or(true, |k| k.starts_with("py-lookup")) {
        lookup_stage(&mut sink, args, &root, &pypkg);
    }

    // ---------------- command-line tool
    let cli_cases: Vec<(Vec<u8>, &str, bool, bool, &str)> = if let Some(p) = &args.replay {
        let v: Value = serde_json::from_str(&std::fs::read_to_string(p).unwrap()).unwrap();
        let c = &v["case"];
        if c["kind"] == "cli" {
            let file: Vec<u8> = c["file_bytes"].as_array().unwrap().iter().map(|x| x.as_u64().unwrap() as u8).collect();
            let m: &'static str = match c["mode"].as_str().unwrap() { "A" => "A", "B" => "B", _ => "C" };
            let sp: &'static str = match c["split"].as_str().unwrap() { "no" => "no", "only" => "only", _ => "yes" };
            vec![(file, m, c["wakati"].as_bool().unwrap(), c["all"].as_bool().unwrap(), sp)]
        } else {
            vec![]
        }
    } else {
        let mut v: Vec<(Vec<u8>, &str, bool, bool, &str)> = vec![
            (b"a\n\nb\r\nc".to_vec(), "C", true, false, "no"),
            (b"\n".to_vec(), "C", true, false, "no"),
            (b"\r\n".to_vec(), "C", false, true, "no"),
            ("東京都に行った。京都に行った。\n\n".as_bytes().to_vec(), "A", false, true, "yes"),
            (b"".to_vec(), "C", false, false, "yes"),
            ("東京都\r".as_bytes().to_vec(), "C", true, false, "no"),
            ("東京都\r".as_bytes().to_vec(), "C", false, false, "yes"),
            (b"a\r\r\nb\r".to_vec(), "C", true, false, "no"),
            // lines whose only sentence end is one of the rarer kinds (three or more middle dots, repeated line-break tags)
            ("京都に行った・・・東京都に行った\n".as_bytes().to_vec(), "C", false, false, "yes"),
            ("京都に行った・・・・東京都に行った\n".as_bytes().to_vec(), "C", true, false, "yes"),
            ("京都に行った<br><br>東京都に行った\n".as_bytes().to_vec(), "C", false, false, "yes"),
            ("京都<BR><BR><BR>東京都\n京都・・東京都\n".as_bytes().to_vec(), "A", true, false, "yes"),
            ("京都に行った・・・東京都に行った\n京都<br><br>東京\n".as_bytes().to_vec(), "C", false, true, "only"),
            // one line longer than the tokenizer's input limit (49,149 bytes), made of short sentences of 22 bytes: no sentence
            // ends at the limit, and the line is analysed sentence by sentence
            (format!("{}\n京都\n", "東京都に行った。".repeat(2800)).into_bytes(), "C", true, false, "yes"),
            (format!("{}\n", "京都に行った。a".repeat(3000)).into_bytes(), "A", false, false, "yes"),
        ];
        // directed: what the path-rewrite plugins join (numerals, katakana runs) must come out the same in every output format
        for t in ["123円\n", "1,000.5円に2024年\n", "アイアイウ\n", "東京都に12.5行った。京都に3,000行った\n", "二千五百万と六三四\n"] {
            for (w, a) in [(true, false), (false, false), (false, true)] {
                for sp in ["yes", "no"] {
                    for m in ["A", "C"] {
                        v.push((t.as_bytes().to_vec(), m, w, a, sp));
                    }
                }
            }
        }
        for _ in 0..args.n(60, 600) {
            let wakati = rng.chance(1, 2);
            let split = *rng.pick(&["yes", "no", "no", "only"][..]);
            v.push((gen_file(&mut rng, !(wakati && split == "no")), *rng.pick(&["A", "B", "C"][..]), wakati, rng.chance(1, 2), split));
        }
        v
    };
    for (k, (file, mode, wakati, all, split)) in cli_cases.iter().enumerate() {
        let inp = args.work.join(format!("cli_in_{}.txt", k % 8));
        std::fs::write(&inp, file).unwrap();
        let mut cmd = Command::new(&cli);
        cmd.arg("-r").arg(&cfg_path).arg("-p").arg(&res).arg("-m").arg(mode).arg("--split-sentences").arg(split);
        if *wakati {
            cmd.arg("-w");
        }
        if *all {
            cmd.arg("-a");
        }
        cmd.arg(&inp);
        let o = cmd.output();
        let desc = json!({"kind": "cli", "file": String::from_utf8_lossy(file), "file_bytes": file, "mode": mode, "wakati": wakati, "all": all, "split": split});
        sink.tag("cli");
        sink.tag(&format!("cli:split={}", split));
        if file.windows(2).any(|w| w == b"\n\n" || w == b"\r\n") || file.first() == Some(&b'\n') {
            sink.tag("cli:blank-or-crlf");
        }
        let nontrivial = file.iter().any(|b| *b != b'\n' && *b != b'\r');
        let expected = expected_cli(&dict, file, mode_of(mode), *wakati, *all, split);
        match (o, expected) {
            (Ok(o), Ok(exp)) => {
                // Coq side: for surface-only output without sentence splitting and without spaces in the input the analysed
                // texts can be read off the output
                let id = if *wakati && *split == "no" && o.status.success() && !file.contains(&b' ') {
                    let outs = String::from_utf8_lossy(&o.stdout).to_string();
                    let texts: Vec<String> = outs.split_terminator('\n').map(|l| l.replace(' ', "")).collect();
                    let term = format!("check_cli_lines {} {}", cbytes(file), clist(texts.iter().map(|t| cbytes(t.as_bytes()))));
                    sink.case(term, desc.clone(), nontrivial)
                } else {
                    sink.case_rust_only(desc.clone(), nontrivial)
                };
                if args.replay.is_some() {
                    println!("tool stdout : {:?}\nexpected    : {:?}", String::from_utf8_lossy(&o.stdout), String::from_utf8_lossy(&exp));
                }
                if !o.status.success() {
                    sink.fail(id, &format!("the tool exited with {:?}: {}", o.status.code(), String::from_utf8_lossy(&o.stderr).chars().take(300).collect::<String>()), "");
                } else if o.stdout != exp {
                    sink.fail(id, &format!("tool printed {:?} but the library's morphemes in the documented format are {:?}", String::from_utf8_lossy(&o.stdout), String::from_utf8_lossy(&exp)), "");
                }
            }
            (Ok(o), Err(e)) => {
                let id = sink.case_rust_only(desc, nontrivial);
                if o.status.success() {
                    sink.fail(id, &format!("library fails ({}) but the tool succeeded", e), "");
                }
            }
            (Err(e), _) => {
                let id = sink.case_rust_only(desc, nontrivial);
                sink.fail(id, &format!("cannot run the tool: {}", e), "");
            }
        }
    }
    // surface-only formatting model vs the library's surfaces (independent of the tool binary): wakati
    for _ in 0..args.n(40, 400) {
        let t = rand_text(&mut rng);
        let mut tok = StatefulTokenizer::new(&dict, Mode::C);
        tok.reset().push_str(&t);
        if tok.do_tokenize().is_err() {
            continue;
        }
        let mut ml = MorphemeList::empty(&dict);
        ml.collect_results(&mut tok).unwrap();
        let ss: Vec<String> = ml.iter().map(|m| m.surface().to_string()).collect();
        let inp = args.work.join("cli_w.txt");
        std::fs::write(&inp, format!("{}\n", t)).unwrap();
        if let Ok(o) = Command::new(&cli).arg("-r").arg(&cfg_path).arg("-p").arg(&res).arg("-w").arg("--split-sentences").arg("no").arg(&inp).output() {
            if t.contains('\n') {
                continue;
            }
            let term = format!("check_wakati {} {}", clist(ss.iter().map(|s| cbytes(s.as_bytes()))), cbytes(&o.stdout));
            sink.tag("cli:wakati-model");
            sink.case(term, json!({"kind": "cli", "file": format!("{}\n", t), "file_bytes": format!("{}\n", t).as_bytes(), "mode": "C", "wakati": true, "all": false, "split": "no"}), !t.is_empty());
        }
        // column output: the Coq model of Simple::write over the library's fields must print what the tool printed, and
        // reading the tool's output back must give the columns of every morpheme
        if t.contains('\n') {
            continue;
        }
        let all = rng.chance(1, 2);
        let mut cmd = Command::new(&cli);
        cmd.arg("-r").arg(&cfg_path).arg("-p").arg(&res).arg("--split-sentences").arg("no");
        if all {
            cmd.arg("-a");
        }
        if let Ok(o) = cmd.arg(&inp).output() {
            let ms: Vec<String> = ml
                .iter()
                .map(|m| {
                    format!(
                        "(Build_morph {} {} {} {} {} {} {} {})",
                        cbytes(m.surface().as_bytes()),
                        clist(m.part_of_speech().iter().map(|p| cbytes(p.as_bytes()))),
                        cbytes(m.normalized_form().as_bytes()),
                        cbytes(m.dictionary_form().as_bytes()),
                        cbytes(m.reading_form().as_bytes()),
                        cz(m.dictionary_id() as i64),
                        clist(m.synonym_group_ids().iter().map(|x| cn(*x as u64))),
                        cbool(m.is_oov())
                    )
                })
                .collect();
            let term = format!("check_simple {} {} {}", cbool(all), clist(ms.into_iter()), cbytes(&o.stdout));
            sink.tag("cli:columns-model");
            sink.tag(if all { "cli:columns-model:all" } else { "cli:columns-model:basic" });
            sink.case(term, json!({"kind": "cli", "file": format!("{}\n", t), "file_bytes": format!("{}\n", t).as_bytes(), "mode": "C", "wakati": false, "all": all, "split": "no"}), !t.is_empty());
        }
    }
    sink.finish();
}
