//! C19 — harness not built yet.
use crate::common::*;

pub fn run(_args: &Args) {
    eprintln!("no harness for C19 yet");
    std::process::exit(2);
}
