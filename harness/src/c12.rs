//! C12 — layered user dictionaries keep ids, parts of speech and references straight.
//!
//! A system dictionary and 0..15 user dictionaries are compiled by the real `DictBuilder` (each user dictionary either
//! against the bare system dictionary or — the CLI `ubuild` / Python route — against the configured dictionary as it stands,
//! plugin-registered POS and earlier user dictionaries included), loaded through `JapaneseDictionary::from_cfg_storage` with
//! OOV providers (SimpleOovPlugin, RegexOovProvider, MeCabOovPlugin with generated char.def / unk.def) that each ask for POS
//! present in / absent from the system dictionary with their own `userPOS` mode (allow / forbid / key absent): the
//! configuration must load iff every unknown POS is asked for with allow, and OOV morphemes must report the POS their
//! provider declares (a one-character KATAKANA probe has an exactly predictable provider entry).  For every word of every dictionary the reported POS strings,
//! split / word-structure references and dictionary number are recorded and compared with the CSV and with Model/LexSet.v.
use crate::c04::{build_system, matrix};
use crate::common::*;
use serde_json::{json, Value};
use sudachi::analysis::stateless_tokenizer::StatelessTokenizer;
use sudachi::analysis::Tokenize;
use sudachi::config::ConfigBuilder;
use sudachi::dic::build::DictBuilder;
use sudachi::dic::dictionary::JapaneseDictionary;
use sudachi::dic::storage::{Storage, SudachiDicData};
use sudachi::dic::word_id::WordId;
use sudachi::dic::DictionaryLoader;
use sudachi::prelude::Mode;

const NPOOL: usize = 12;

/// the POS JoinNumericPlugin insists on finding in the grammar (and joins runs of)
const NUM_POS: usize = NPOOL - 1;
fn pos_fields(i: usize) -> Vec<String> {
    if i == NUM_POS {
        return ["名詞", "数詞", "*", "*", "*", "*"].iter().map(|s| s.to_string()).collect();
    }
    vec![format!("品{}", i / 3), format!("類{}", i), "*".into(), "*".into(), "*".into(), if i % 2 == 0 { "*".into() } else { "終止形".into() }]
}
fn pos_csv(i: usize) -> String {
    pos_fields(i).join(",")
}
fn intern(strings: &[String]) -> u64 {
    for i in 0..NPOOL {
        if pos_fields(i) == strings {
            return i as u64;
        }
    }
    9999
}

#[derive(Clone, Debug)]
enum Unit {
    Sys(usize),          // written `n`
    Own(usize),          // written `Un`
    Inline(bool, usize), // (target is own row?, row): written surface,pos..,reading of the target
}

#[derive(Clone, Debug)]
struct Row {
    surface: String,
    reading: String,
    pos: usize,
    a: Vec<Unit>,
    b: Vec<Unit>,
    ws: Vec<Unit>,
}

/// one OOV provider of the configuration
#[derive(Clone, Debug)]
struct Plug {
    kind: u8,               // 0 SimpleOovPlugin, 1 RegexOovProvider, 2 MeCabOovPlugin
    mode: u8,               // 0 "userPOS": "allow", 1 "userPOS": "forbid", 2 key absent (documented default: forbid)
    pos: Vec<usize>,        // POS asked for, in order (Simple/Regex: one; MeCab: one per unk.def line)
    cats: Vec<usize>,       // MeCab: category (index into CATS) of every unk.def line
    costs: Vec<i32>,        // MeCab: cost of every unk.def line (distinct within a case)
    kata: (bool, bool, u32), // MeCab: (invoke, group, length) of KATAKANA in the plugin's own char.def
}
const CATS: [&str; 6] = ["KATAKANA", "ALPHA", "NUMERIC", "DEFAULT", "HIRAGANA", "KANJI"];
const KIND_NAMES: [&str; 3] = ["Simple", "Regex", "MeCab"];
const MODE_NAMES: [&str; 3] = ["allow", "forbid", "absent"];
const SIMPLE_COST: i32 = 30000;
/// a single KATAKANA character between ASCII material: no dictionary word covers it, every OOV candidate spans exactly it
const PROBE: &str = "ゼ";

impl Plug {
    fn simple(pos: usize, mode: u8) -> Plug {
        Plug { kind: 0, mode, pos: vec![pos], cats: vec![], costs: vec![], kata: (false, false, 0) }
    }
    fn allow(&self) -> bool {
        self.mode == 0
    }
}

/// the POS requests the plugins make while the configuration is loaded, in order, with the mode the CONFIGURATION asks for
fn plugin_reqs(c: &Case) -> Vec<(usize, bool)> {
    let mut v = vec![];
    for p in &c.plugins {
        for q in &p.pos {
            v.push((*q, p.allow()));
        }
    }
    v
}

/// POS the single-character KATAKANA probe must report: all candidates span the probe and share connection ids (0, 0), so the
/// cheapest candidate wins; candidates follow the provider protocol (Simple only when nothing was created before it, MeCab
/// without `invoke` only when nothing was created before it, group / length of the plugin's own char.def)
fn probe_expect(c: &Case) -> Option<usize> {
    let mut created = false;
    let mut best: Option<(i32, usize)> = None;
    let mut cand = |cost: i32, pos: usize, best: &mut Option<(i32, usize)>| {
        if best.map_or(true, |b| cost < b.0) {
            *best = Some((cost, pos));
        }
    };
    let mut one = |p: &Plug, created: &mut bool, best: &mut Option<(i32, usize)>| match p.kind {
        0 => {
            if !*created {
                cand(SIMPLE_COST, p.pos[0], best);
                *created = true;
            }
        }
        2 => {
            let (inv, grp, len) = p.kata;
            if (!inv && *created) || !(grp || len >= 1) {
                return;
            }
            for k in 0..p.pos.len() {
                if p.cats[k] == 0 {
                    cand(p.costs[k], p.pos[k], best);
                    *created = true;
                }
            }
        }
        _ => {}
    };
    for p in &c.plugins {
        one(p, &mut created, &mut best);
    }
    if !created {
        one(c.plugins.last().unwrap(), &mut created, &mut best);
    }
    best.map(|b| b.1)
}

thread_local! {
    static DEFDIR: std::cell::RefCell<std::path::PathBuf> = std::cell::RefCell::new(std::path::PathBuf::from("."));
}

/// writes a definition file for the MeCab plugin (name by content) and returns its absolute path
fn def_file(kind: &str, content: &str) -> String {
    let dir = DEFDIR.with(|d| d.borrow().clone());
    std::fs::create_dir_all(&dir).unwrap();
    let p = dir.join(format!("{}_{:016x}.def", kind, hash_of(&content.to_string())));
    if !p.exists() {
        std::fs::write(&p, content).unwrap();
    }
    std::fs::canonicalize(&p).unwrap().to_string_lossy().to_string()
}

fn mecab_files(p: &Plug) -> (String, String) {
    let b = |x: bool| if x { 1 } else { 0 };
    let chardef = format!(
        "# generated for the correspondence run\nDEFAULT 0 1 0\nALPHA 1 1 0\nNUMERIC 1 1 0\nKATAKANA {} {} {}\nHIRAGANA 0 1 2\nKANJI 0 0 2\n0x30A1..0x30FF KATAKANA\n",
        b(p.kata.0),
        b(p.kata.1),
        p.kata.2
    );
    let mut unk = String::from("# generated for the correspondence run\n");
    for k in 0..p.pos.len() {
        unk.push_str(&format!("{},0,0,{},{}\n", CATS[p.cats[k]], p.costs[k], pos_csv(p.pos[k])));
    }
    (chardef, unk)
}

#[derive(Clone, Debug)]
struct Case {
    sys: Vec<Row>,
    plugins: Vec<Plug>,
    users: Vec<(bool, Vec<Row>)>,    // (compiled against the configured dictionary?, rows)
    dup: Vec<Option<usize>>,         // per user position: Some(j) = the very same dictionary file as position j < k, listed again
    file_route: bool,                // true: dictionaries written to files and named in the configuration (systemDict / userDict,
                                     // JapaneseDictionary::from_cfg); false: from_cfg_storage with in-memory storage
    rewrite: Vec<u8>,                // path rewrite plugins in configuration order: 0 JoinNumericPlugin, 1 JoinKatakanaOovPlugin
    join_pos: Option<usize>,         // oovPOS of JoinKatakanaOovPlugin: None = POS of the first system word, Some(p) = a POS that an
                                     // OOV provider registers (userPOS allow) and the system dictionary lacks
}
impl Case {
    fn join_pos_fields(&self) -> Vec<String> {
        pos_fields(self.join_pos.unwrap_or(self.sys[0].pos))
    }
}
impl Case {
    fn plain(sys: Vec<Row>, plugins: Vec<Plug>, users: Vec<(bool, Vec<Row>)>) -> Case {
        let n = users.len();
        Case { sys, plugins, users, dup: vec![None; n], file_route: false, rewrite: vec![], join_pos: None }
    }
}
const REWRITE_NAMES: [&str; 2] = ["JoinNumeric", "JoinKatakanaOov"];
/// katakana material no dictionary holds
const KATA_OOV: &str = "ルラ";
const KATA_LETTERS: [&str; 16] = ["ア", "イ", "ウ", "エ", "オ", "キ", "ク", "ケ", "コ", "サ", "シ", "ス", "セ", "ソ", "タ", "チ"];
fn is_kata_word(s: &str) -> bool {
    !s.is_empty() && s.chars().all(|c| ('\u{30A2}'..='\u{30FF}').contains(&c))
}

fn unit_text(u: &Unit, own: &[Row], sys: &[Row]) -> String {
    match u {
        Unit::Sys(n) => format!("{}", n),
        Unit::Own(n) => format!("U{}", n),
        Unit::Inline(o, n) => {
            let r = if *o { &own[*n] } else { &sys[*n] };
            format!("{},{},{}", r.surface, pos_csv(r.pos), r.reading)
        }
    }
}

/// a row that is not put into the index (left id -1: usable only as a part of other words); marked by its reading
fn non_indexed(r: &Row) -> bool {
    r.reading.starts_with('非')
}

fn render(rows: &[Row], sys: &[Row]) -> String {
    let mut s = String::new();
    for (i, r) in rows.iter().enumerate() {
        let lst = |us: &Vec<Unit>| -> String {
            if us.is_empty() {
                "*".to_string()
            } else {
                format!("\"{}\"", us.iter().map(|u| unit_text(u, rows, sys)).collect::<Vec<_>>().join("/"))
            }
        };
        let mode = if r.a.is_empty() && r.b.is_empty() { "A" } else { "C" };
        s.push_str(&format!(
            "{},{},{},{},{},{},{},{},*,{},{},{},{},*\n",
            r.surface,
            if non_indexed(r) { -1 } else { (i % 10) as i32 },
            if non_indexed(r) { -1 } else { ((i + 3) % 10) as i32 },
            5000 + (i as i32 % 7) * 100,
            r.surface,
            pos_csv(r.pos),
            r.reading,
            r.surface,
            mode,
            lst(&r.a),
            lst(&r.b),
            lst(&r.ws)
        ));
    }
    s
}

fn gen_units(rng: &mut Rng, me: usize, nown: usize, nsys: usize, user: bool, allow_inline: bool) -> Vec<Unit> {
    let n = match rng.below(6) {
        0..=2 => 0,
        3..=4 => 2,
        _ => 3,
    };
    let mut v = vec![];
    for _ in 0..n {
        let own_ok = user && nown > 1;
        let k = rng.below(4);
        let pick_own = |rng: &mut Rng| {
            let mut j = rng.below(nown as u64) as usize;
            if j == me {
                j = (j + 1) % nown;
            }
            j
        };
        if k == 0 && own_ok {
            v.push(Unit::Own(pick_own(rng)));
        } else if k == 1 && allow_inline && own_ok {
            v.push(Unit::Inline(true, pick_own(rng)));
        } else if k == 2 && allow_inline && user {
            v.push(Unit::Inline(false, rng.below(nsys as u64) as usize));
        } else {
            v.push(Unit::Sys(rng.below(nsys as u64) as usize));
        }
    }
    v
}

fn gen_case(rng: &mut Rng, nusers: usize) -> Case {
    // POS pool split: system uses a low range, plugins and user dictionaries overlap with it and with each other
    let nsys_pos = 1 + rng.below(4) as usize;
    let nsys = 2 + rng.below(5) as usize;
    let mut sys: Vec<Row> = vec![];
    for j in 0..nsys {
        let mut r = Row { surface: format!("s{}x", j), reading: format!("ヨ{}", j), pos: rng.below(nsys_pos as u64) as usize, a: vec![], b: vec![], ws: vec![] };
        if j > 0 && j + 1 < nsys && rng.chance(1, 6) {
            r.reading = format!("非{}", j);
        }
        if j > 1 && rng.chance(1, 3) {
            r.a = vec![Unit::Sys(rng.below(j as u64) as usize), Unit::Sys(rng.below(j as u64) as usize)];
            if rng.chance(1, 2) {
                r.ws = r.a.clone();
            }
        }
        sys.push(r);
    }
    // 1-3 OOV providers; exactly one position holds a SimpleOovPlugin for sure (every position gets a candidate), the others
    // are Simple / Regex / MeCab; every provider carries its own userPOS mode: allow, forbid, or no key at all
    // words whose surface looks like a word id literal (`5`, `15`, `U1`): an inline reference to them starts with that text
    let mut sys_idlike: Vec<usize> = vec![];
    for name in ["5", "15"] {
        if rng.chance(1, 2) {
            sys_idlike.push(sys.len());
            sys.push(Row { surface: name.into(), reading: format!("スウ{}", name), pos: rng.below(nsys_pos as u64) as usize, a: vec![], b: vec![], ws: vec![] });
        }
    }
    let nplug = 1 + rng.below(3) as usize;
    let simple_at = rng.below(nplug as u64) as usize;
    let mut plugins = vec![];
    let mut next_cost = 200 + rng.below(50) as i32;
    let mut known_so_far: Vec<usize> = sys.iter().map(|r| r.pos).collect();
    for p in 0..nplug {
        let kind: u8 = if p == simple_at {
            0
        } else {
            match rng.below(5) {
                0 => 0,
                1 => 1,
                _ => 2,
            }
        };
        let mode: u8 = match rng.below(20) {
            0..=13 => 0,
            14..=16 => 1,
            _ => 2,
        };
        let nreq = if kind == 2 { 1 + rng.below(3) as usize } else { 1 };
        let mut pos = vec![];
        let mut cats = vec![];
        let mut costs = vec![];
        for _ in 0..nreq {
            // forbid / absent with an unknown POS makes the configuration fail to load: mostly ask for a known POS then
            let q = if mode != 0 && rng.chance(3, 4) { *rng.pick(&known_so_far) } else { rng.below((nsys_pos + 5).min(NPOOL) as u64) as usize };
            if mode == 0 && !known_so_far.contains(&q) {
                known_so_far.push(q);
            }
            pos.push(q);
            cats.push(if rng.chance(1, 2) { 0 } else { 1 + rng.below(5) as usize });
            next_cost += 1 + rng.below(400) as i32;
            costs.push(next_cost);
        }
        let kata = (rng.chance(1, 2), rng.chance(1, 2), rng.below(3) as u32);
        if kind != 2 {
            cats.clear();
            costs.clear();
        }
        plugins.push(Plug { kind, mode, pos, cats, costs, kata });
    }
    let mut users = vec![];
    for d in 0..nusers {
        let nrows = if nusers > 6 { 1 + rng.below(2) } else { 1 + rng.below(5) } as usize;
        let configured = rng.chance(1, 2);
        let mut rows: Vec<Row> = vec![];
        for j in 0..nrows {
            let pos = match rng.below(4) {
                0 => rng.below(nsys_pos as u64) as usize,
                _ => rng.below(NPOOL as u64) as usize,
            };
            // rows that are not indexed (left id -1) in front of / between the ordinary ones: word numbers count ALL rows
            let hidden = nrows > 1 && j + 1 < nrows && rng.chance(if j == 0 { 2 } else { 1 }, 5);
            if hidden {
                rows.push(Row { surface: format!("u{}n{}", d + 1, j), reading: format!("非{}", j), pos, a: vec![], b: vec![], ws: vec![] });
            } else {
                rows.push(Row { surface: format!("u{}w{}", d + 1, j), reading: format!("ユ{}", j), pos, a: vec![], b: vec![], ws: vec![] });
            }
        }
        // inline references against a configured dictionary that already holds user dictionaries used to panic in the
        // builder's BinDictResolver (repaired in the repository, see KNOWN_FINDINGS.txt); they stay in the stream
        let allow_inline = rng.chance(2, 3);
        for j in 0..nrows {
            rows[j].a = gen_units(rng, j, nrows, nsys, true, allow_inline);
            if !rows[j].a.is_empty() && rng.chance(1, 2) {
                rows[j].b = gen_units(rng, j, nrows, nsys, true, allow_inline);
            }
            if rng.chance(1, 3) {
                rows[j].ws = gen_units(rng, j, nrows, nsys, true, false);
            }
        }
        // a row that re-defines the surface of a system word with another POS or reading, and a compound of this dictionary
        // that refers inline (surface, POS, reading) to the SYSTEM word and to the re-definition
        if rng.chance(1, 3) {
            let n = rng.below(nsys as u64) as usize;
            let (pos, reading) = match rng.below(3) {
                0 => ((sys[n].pos + 1 + rng.below(NPOOL as u64 - 2) as usize) % (NPOOL - 1), sys[n].reading.clone()),
                1 => (sys[n].pos, format!("{}ベツ", sys[n].reading)),
                _ => ((sys[n].pos + 1) % (NPOOL - 1), format!("ベツ{}", sys[n].reading)),
            };
            let shadow = rows.len();
            rows.push(Row { surface: sys[n].surface.clone(), reading, pos, a: vec![], b: vec![], ws: vec![] });
            let units = if rng.chance(1, 2) { vec![Unit::Inline(false, n), Unit::Inline(true, shadow)] } else { vec![Unit::Inline(true, shadow), Unit::Inline(false, n)] };
            let (a, b) = if rng.chance(1, 2) { (units.clone(), vec![]) } else { (vec![Unit::Sys(n), Unit::Own(shadow)], units.clone()) };
            rows.push(Row { surface: format!("u{}c{}", d + 1, shadow), reading: format!("フク{}", d), pos: rng.below(NPOOL as u64 - 1) as usize, a, b, ws: vec![] });
        }
        // a word named like a word id literal and a compound that refers to it (and to such a system word) inline
        if rng.chance(1, 3) {
            let name = *rng.pick(&["5", "15", "U1", "U0", "3", "U12", "0"]);
            let named = rows.len();
            rows.push(Row { surface: name.into(), reading: format!("ナマエ{}", name), pos: rng.below(NPOOL as u64 - 1) as usize, a: vec![], b: vec![], ws: vec![] });
            let other = if !sys_idlike.is_empty() && rng.chance(2, 3) { Unit::Inline(false, *rng.pick(&sys_idlike)) } else { Unit::Inline(false, rng.below(nsys as u64) as usize) };
            let units = if rng.chance(1, 2) { vec![Unit::Inline(true, named), other] } else { vec![other, Unit::Inline(true, named)] };
            let (a, b) = if rng.chance(1, 2) { (units.clone(), vec![]) } else { (vec![Unit::Own(named), Unit::Sys(0)], units.clone()) };
            rows.push(Row { surface: format!("u{}k{}", d + 1, named), reading: format!("フクゴウ{}", d), pos: rng.below(NPOOL as u64 - 1) as usize, a, b, ws: vec![] });
        }
        // a short katakana word (shorter than the join plugin's minLength) that unknown katakana can be glued to
        if rng.chance(1, 2) {
            let pos = rng.below(NPOOL as u64) as usize;
            rows.push(Row { surface: format!("カ{}", KATA_LETTERS[d % 16]), reading: format!("カナ{}", d), pos, a: vec![], b: vec![], ws: vec![] });
        }
        users.push((configured, rows));
    }
    // the same dictionary file may be listed more than once: every listing is one more dictionary of the stack
    let mut dup: Vec<Option<usize>> = vec![None; users.len()];
    for k in 1..users.len() {
        if rng.chance(1, 5) {
            let j = rng.below(k as u64) as usize;
            let j = dup[j].unwrap_or(j);
            users[k] = users[j].clone();
            dup[k] = Some(j);
        }
    }
    if rng.chance(2, 3) {
        let pos = rng.below(nsys_pos as u64) as usize;
        sys.push(Row { surface: "ピサ".into(), reading: "ピサ".into(), pos, a: vec![], b: vec![], ws: vec![] });
    }
    let rewrite: Vec<u8> = match rng.below(6) {
        0 => vec![],
        1 => vec![0],
        2 => vec![1],
        3 => vec![1, 0],
        _ => vec![0, 1],
    };
    if rewrite.contains(&0) {
        // JoinNumericPlugin refuses to load unless the grammar knows the numeral POS: a system numeral
        sys.push(Row { surface: "7".into(), reading: "ナナ".into(), pos: NUM_POS, a: vec![], b: vec![], ws: vec![] });
    }
    // the join plugin's POS may be one that exists only because an OOV provider registers it (providers are set up first)
    let registered: Vec<usize> = {
        let sys_has: Vec<usize> = sys.iter().map(|r| r.pos).collect();
        let mut v = vec![];
        for p in &plugins {
            if p.mode == 0 {
                for q in &p.pos {
                    if !sys_has.contains(q) && !v.contains(q) {
                        v.push(*q);
                    }
                }
            }
        }
        v
    };
    let join_pos = if !registered.is_empty() && rng.chance(1, 2) { Some(*rng.pick(&registered)) } else { None };
    Case { sys, plugins, users, dup, file_route: rng.chance(1, 2), rewrite, join_pos }
}

fn config_json(c: &Case) -> String {
    config_value(c, true).to_string()
}

fn config_value(c: &Case, with_rewrite: bool) -> Value {
    let mut plugs = vec![];
    for p in &c.plugins {
        let mut j = match p.kind {
            0 => json!({"class": "com.worksap.nlp.sudachi.SimpleOovPlugin", "oovPOS": pos_fields(p.pos[0]), "leftId": 0, "rightId": 0, "cost": SIMPLE_COST}),
            1 => json!({"class": "com.worksap.nlp.sudachi.RegexOovProvider", "regex": "[0-9]+", "oovPOS": pos_fields(p.pos[0]), "leftId": 0, "rightId": 0, "cost": 1000}),
            _ => {
                let (cd, ud) = mecab_files(p);
                json!({"class": "com.worksap.nlp.sudachi.MeCabOovPlugin", "charDef": def_file("char", &cd), "unkDef": def_file("unk", &ud)})
            }
        };
        // the key is spelled the same for all three providers
        match p.mode {
            0 => j["userPOS"] = json!("allow"),
            1 => j["userPOS"] = json!("forbid"),
            _ => {}
        }
        plugs.push(j);
    }
    let mut v = json!({"path": format!("{}/sudachi/tests/resources", repo()), "characterDefinitionFile": "char.def", "oovProviderPlugin": plugs});
    if with_rewrite && !c.rewrite.is_empty() {
        let mut rw = vec![];
        for k in &c.rewrite {
            if *k == 0 {
                rw.push(json!({"class": "com.worksap.nlp.sudachi.JoinNumericPlugin", "enableNormalize": false}));
            } else {
                // the POS of the first system word always exists in the grammar
                rw.push(json!({"class": "com.worksap.nlp.sudachi.JoinKatakanaOovPlugin", "oovPOS": c.join_pos_fields(), "minLength": 3}));
            }
        }
        v["pathRewritePlugin"] = Value::Array(rw);
    }
    v
}

/// a compiled dictionary as a file (name by content, so a dictionary listed twice is the same path twice)
fn dic_file(bytes: &[u8]) -> String {
    let dir = DEFDIR.with(|d| d.borrow().clone());
    std::fs::create_dir_all(&dir).unwrap();
    let p = dir.join(format!("dic_{:016x}_{}.dic", hash_of(&bytes.to_vec()), bytes.len()));
    if !p.exists() {
        std::fs::write(&p, bytes).unwrap();
    }
    std::fs::canonicalize(&p).unwrap().to_string_lossy().to_string()
}

/// loads the stack either from in-memory storage or -- the way the command line and the Python module do it -- from files
/// named in the configuration (`systemDict`, `userDict` in stack order; a path listed twice is two dictionaries)
fn load_v(cfgv: &Value, sys: &[u8], users: &[Vec<u8>], file_route: bool) -> Result<JapaneseDictionary, String> {
    if !file_route {
        return load(&cfgv.to_string(), sys, users);
    }
    let mut v = cfgv.clone();
    v["systemDict"] = json!(dic_file(sys));
    v["userDict"] = Value::Array(users.iter().map(|u| json!(dic_file(u))).collect());
    let cfg = ConfigBuilder::from_bytes(v.to_string().as_bytes()).map_err(|e| format!("config: {:?}", e))?.build();
    match catch(|| JapaneseDictionary::from_cfg(&cfg)) {
        Ok(Ok(d)) => Ok(d),
        Ok(Err(e)) => Err(format!("{:?}", e)),
        Err(p) => Err(format!("PANIC {}", p)),
    }
}

fn load(cfg_json: &str, sys: &[u8], users: &[Vec<u8>]) -> Result<JapaneseDictionary, String> {
    let cfg = ConfigBuilder::from_bytes(cfg_json.as_bytes()).map_err(|e| format!("config: {:?}", e))?.build();
    let mut st = SudachiDicData::new(Storage::Owned(sys.to_vec()));
    for u in users {
        st.add_user(Storage::Owned(u.clone()));
    }
    match catch(|| JapaneseDictionary::from_cfg_storage(&cfg, st)) {
        Ok(Ok(d)) => Ok(d),
        Ok(Err(e)) => Err(format!("{:?}", e)),
        Err(p) => Err(format!("PANIC {}", p)),
    }
}

fn build_user<D: sudachi::analysis::stateless_tokenizer::DictionaryAccess>(d: D, csv: &str) -> Result<Vec<u8>, String> {
    let r = catch(|| -> Result<Vec<u8>, String> {
        let mut b = DictBuilder::new_user(d);
        b.read_lexicon(csv.as_bytes()).map_err(|e| format!("read: {:?}", e))?;
        b.resolve().map_err(|e| format!("resolve: {:?}", e))?;
        let mut out = vec![];
        b.compile(&mut out).map_err(|e| format!("compile: {:?}", e))?;
        Ok(out)
    });
    match r {
        Ok(x) => x,
        Err(p) => Err(format!("PANIC {}", p)),
    }
}

fn case_json(c: &Case) -> Value {
    let u = |us: &Vec<Unit>| -> Value {
        Value::Array(
            us.iter()
                .map(|x| match x {
                    Unit::Sys(n) => json!(["s", n]),
                    Unit::Own(n) => json!(["u", n]),
                    Unit::Inline(o, n) => json!(["i", o, n]),
                })
                .collect(),
        )
    };
    let rows = |rs: &Vec<Row>| -> Value { Value::Array(rs.iter().map(|r| json!({"surface": r.surface, "reading": r.reading, "pos": r.pos, "a": u(&r.a), "b": u(&r.b), "ws": u(&r.ws)})).collect()) };
    json!({"kind": "c12", "sys": rows(&c.sys),
           "plugins": c.plugins.iter().map(|p| json!({"kind": p.kind, "provider": KIND_NAMES[p.kind as usize], "mode": p.mode, "userPOS": MODE_NAMES[p.mode as usize], "pos": p.pos, "cats": p.cats, "costs": p.costs, "kata": [p.kata.0, p.kata.1, p.kata.2 > 0, p.kata.2]})).collect::<Vec<_>>(),
           "users": c.users.iter().map(|(cf, rs)| json!({"configured": cf, "rows": rows(rs)})).collect::<Vec<_>>(),
           "same_file_as": c.dup, "file_route": c.file_route, "rewrite": c.rewrite, "join_pos": c.join_pos,
           "rewrite_plugins": c.rewrite.iter().map(|k| REWRITE_NAMES[*k as usize]).collect::<Vec<_>>(),
           "pos_pool": (0..NPOOL).map(pos_csv).collect::<Vec<_>>()})
}

fn case_from_json(v: &Value) -> Case {
    let u = |x: &Value| -> Vec<Unit> {
        x.as_array()
            .unwrap()
            .iter()
            .map(|e| match e[0].as_str().unwrap() {
                "s" => Unit::Sys(e[1].as_u64().unwrap() as usize),
                "u" => Unit::Own(e[1].as_u64().unwrap() as usize),
                _ => Unit::Inline(e[1].as_bool().unwrap(), e[2].as_u64().unwrap() as usize),
            })
            .collect()
    };
    let rows = |x: &Value| -> Vec<Row> {
        x.as_array()
            .unwrap()
            .iter()
            .map(|r| Row { surface: r["surface"].as_str().unwrap().into(), reading: r["reading"].as_str().unwrap().into(), pos: r["pos"].as_u64().unwrap() as usize, a: u(&r["a"]), b: u(&r["b"]), ws: u(&r["ws"]) })
            .collect()
    };
    Case {
        sys: rows(&v["sys"]),
        plugins: v["plugins"]
            .as_array()
            .unwrap()
            .iter()
            .map(|p| {
                let us = |k: &str| -> Vec<u64> { p[k].as_array().map(|a| a.iter().map(|x| x.as_u64().unwrap()).collect()).unwrap_or_default() };
                Plug {
                    kind: p["kind"].as_u64().unwrap() as u8,
                    mode: p["mode"].as_u64().unwrap() as u8,
                    pos: us("pos").iter().map(|x| *x as usize).collect(),
                    cats: us("cats").iter().map(|x| *x as usize).collect(),
                    costs: us("costs").iter().map(|x| *x as i32).collect(),
                    kata: (p["kata"][0].as_bool().unwrap_or(false), p["kata"][1].as_bool().unwrap_or(false), p["kata"][3].as_u64().unwrap_or(0) as u32),
                }
            })
            .collect(),
        users: v["users"].as_array().unwrap().iter().map(|u| (u["configured"].as_bool().unwrap(), rows(&u["rows"]))).collect(),
        dup: v["same_file_as"].as_array().map(|a| a.iter().map(|x| x.as_u64().map(|y| y as usize)).collect()).unwrap_or_else(|| vec![None; v["users"].as_array().unwrap().len()]),
        file_route: v["file_route"].as_bool().unwrap_or(false),
        rewrite: v["rewrite"].as_array().map(|a| a.iter().map(|x| x.as_u64().unwrap() as u8).collect()).unwrap_or_default(),
        join_pos: v["join_pos"].as_u64().map(|x| x as usize),
    }
}

/// sequence of POS the builder asks for while reading the rows (inline units of split A, of split B, then the row's own POS)
/// and, per row, the position of its own request in that sequence
fn pos_requests(rows: &[Row], sys: &[Row]) -> (Vec<usize>, Vec<usize>) {
    let mut reqs = vec![];
    let mut idx = vec![];
    for r in rows {
        for u in r.a.iter().chain(r.b.iter()) {
            if let Unit::Inline(o, n) = u {
                reqs.push(if *o { rows[*n].pos } else { sys[*n].pos });
            }
        }
        idx.push(reqs.len());
        reqs.push(r.pos);
    }
    (reqs, idx)
}

/// build-time stamp of a reference: (0, n) for the system dictionary, (1, n) for the dictionary being built.
/// An inline reference names a word by (surface, POS, reading): it is the first row of the dictionary being compiled with
/// exactly that triple, else the first such word of the system dictionary (`user` = a user dictionary is being compiled)
fn build_stamp(u: &Unit, own: &[Row], sys: &[Row], user: bool) -> u32 {
    let own_dic = if user { 1u32 << 28 } else { 0 };
    match u {
        Unit::Sys(n) => *n as u32,
        Unit::Own(n) => own_dic | *n as u32,
        Unit::Inline(o, n) => {
            let t = if *o { &own[*n] } else { &sys[*n] };
            let same = |r: &Row| r.surface == t.surface && r.pos == t.pos && r.reading == t.reading;
            if let Some(j) = own.iter().position(same) {
                own_dic | j as u32
            } else if let Some(j) = sys.iter().position(same) {
                j as u32
            } else {
                u32::MAX
            }
        }
    }
}

/// Coq term (Model/CodecResolve.v split_unit) of a reference as written in the CSV
fn unit_term(u: &Unit, own: &[Row], sys: &[Row], user: bool) -> String {
    match u {
        Unit::Sys(n) => format!("SRef {}", cnu(*n)),
        Unit::Own(n) => format!("SRef {}", cn(if user { (1u32 << 28) | *n as u32 } else { *n as u32 })),
        Unit::Inline(o, n) => {
            let t = if *o { &own[*n] } else { &sys[*n] };
            format!("inline_of {} {} {}", ctext(&t.surface), cnu(t.pos), ctext(&t.reading))
        }
    }
}
fn key_term(r: &Row) -> String {
    format!("key3 {} {} {}", ctext(&r.surface), cnu(r.pos), ctext(&r.reading))
}

#[derive(Debug, PartialEq, Clone)]
struct SysView(Vec<(String, Vec<String>, Vec<u32>, Vec<u32>, Vec<u32>, String, (i16, i16, i16))>);

fn sys_view(d: &JapaneseDictionary, n: usize) -> Result<SysView, String> {
    catch(|| {
        let mut v = vec![];
        for i in 0..n {
            let id = WordId::new(0, i as u32);
            let wi = d.lexicon().get_word_info(id).unwrap();
            v.push((
                wi.surface().to_string(),
                d.grammar().pos_components(wi.pos_id()).to_vec(),
                wi.a_unit_split().iter().map(|w| w.as_raw()).collect(),
                wi.b_unit_split().iter().map(|w| w.as_raw()).collect(),
                wi.word_structure().iter().map(|w| w.as_raw()).collect(),
                wi.reading_form().to_string(),
                d.lexicon().get_word_param(id),
            ));
        }
        SysView(v)
    })
}

fn run_case(sink: &mut Sink, c: &Case, verbose: bool) {
    let d = case_json(c);
    let cfg = config_json(c);
    let sys_csv = render(&c.sys, &c.sys);
    let sysb = match build_system(&sys_csv) {
        Ok(b) => b,
        Err(e) => {
            let id = sink.case_rust_only(d, false);
            sink.fail(id, &format!("system lexicon rejected: {}", e), "");
            return;
        }
    };
    let _ = matrix;
    // does the configuration load at all (plugins may forbid an unknown POS)?
    let cfgv = config_value(c, true);
    let base = load_v(&cfgv, &sysb, &[], c.file_route);
    sink.tag(if c.file_route { "load_route=files(from_cfg)" } else { "load_route=storage(from_cfg_storage)" });
    sink.tag(&format!("path_rewrite={:?}", c.rewrite.iter().map(|k| REWRITE_NAMES[*k as usize]).collect::<Vec<_>>()));
    let mut sys_pos_known: Vec<usize> = vec![];
    for r in &c.sys {
        if !sys_pos_known.contains(&r.pos) {
            sys_pos_known.push(r.pos);
        }
    }
    let mut known = sys_pos_known.clone();
    let mut cfg_ok = true;
    let mut refused = String::new();
    for pl in &c.plugins {
        for p in &pl.pos {
            if !known.contains(p) {
                if pl.allow() {
                    known.push(*p);
                } else if cfg_ok {
                    cfg_ok = false;
                    refused = format!("{} provider, userPOS {}", KIND_NAMES[pl.kind as usize], MODE_NAMES[pl.mode as usize]);
                }
            }
        }
        if !cfg_ok {
            break;
        }
    }
    for pl in &c.plugins {
        sink.tag(&format!("provider={}/userPOS={}", KIND_NAMES[pl.kind as usize], MODE_NAMES[pl.mode as usize]));
    }
    let plugin_new = known.len() - sys_pos_known.len();
    let bad: std::cell::RefCell<Option<(String, String)>> = std::cell::RefCell::new(None);
    let fail = |what: String, class: &str| {
        let mut b = bad.borrow_mut();
        if b.is_none() {
            *b = Some((what, class.to_string()));
        }
    };
    let (sys_reqs, sys_idx) = pos_requests(&c.sys, &c.sys);
    let users_term = |c: &Case| -> String {
        clist(c.users.iter().map(|(cf, rows)| {
            let (reqs, idx) = pos_requests(rows, &c.sys);
            format!("({}, {}, {})", cbool(*cf), clist(reqs.iter().map(|p| cnu(*p))), clist(idx.iter().map(|i| format!("{}%nat", i))))
        }))
    };
    let head = format!(
        "{} {} {} {}",
        clist(sys_reqs.iter().map(|p| cnu(*p))),
        clist(sys_idx.iter().map(|i| format!("{}%nat", i))),
        clist(plugin_reqs(c).iter().map(|(p, a)| cpair(&cnu(*p), cbool(*a)))),
        users_term(c)
    );
    // the plugin set-up sequence over the POS table (Model/LexSet.v setup): providers' requests, then the POS the path-rewrite
    // plugins name; compared with whether the configuration loads over the system dictionary alone
    let rw_pos: Vec<usize> = c.rewrite.iter().map(|k| if *k == 0 { NUM_POS } else { c.join_pos.unwrap_or(c.sys[0].pos) }).collect();
    let setup_term = |base_loaded: bool| -> String {
        format!(
            "check_setup {} {} {} {} {}",
            clist(sys_reqs.iter().map(|p| cnu(*p))),
            clist(sys_idx.iter().map(|i| format!("{}%nat", i))),
            clist(plugin_reqs(c).iter().map(|(p, a)| cpair(&cnu(*p), cbool(*a)))),
            clist(rw_pos.iter().map(|p| cnu(*p))),
            cbool(base_loaded)
        )
    };
    sink.tag(&format!("users={}", c.users.len()));
    sink.tag(&format!("plugin_registered_pos={}", plugin_new));
    if base.is_err() {
        let e = base.err().unwrap();
        if verbose {
            println!("configuration does not load: {}", e);
        }
        if cfg_ok {
            let asked: Vec<String> = c.plugins.iter().map(|p| format!("{} userPOS={} POS {:?}", KIND_NAMES[p.kind as usize], MODE_NAMES[p.mode as usize], p.pos)).collect();
            fail(format!("every OOV provider asks only for POS the system dictionary has or may register them (userPOS allow), yet the configuration does not load [{}]: {}", asked.join("; "), e), "");
        } else if e.starts_with("PANIC") {
            fail(format!("loading a configuration whose plugin forbids an unknown POS panicked: {}", e), "");
        }
        sink.tag("config_rejected_forbidden_pos");
        let id = sink.case(format!("andb ({}) (check_case_c12 {} false [] [])", setup_term(false), head), d, false);
        if let Some((w, cl)) = bad.into_inner() {
            sink.fail(id, &w, &cl);
        }
        return;
    }
    if !cfg_ok {
        let id = sink.case(format!("andb ({}) (check_case_c12 {} true [] [])", setup_term(true), head), d, false);
        sink.fail(id, &format!("a provider asked for a POS the system dictionary lacks without permission to register it ({}) and the configuration loaded", refused), "");
        return;
    }
    let base = base.unwrap();
    let base_view = sys_view(&base, c.sys.len());
    // compile and stack the user dictionaries
    let mut ubins: Vec<Vec<u8>> = vec![];
    let mut loaded_ok = true;
    let mut cur: Option<JapaneseDictionary> = Some(base);
    for (k, (configured, rows)) in c.users.iter().enumerate() {
        if let Some(j) = c.dup[k] {
            // the same file listed again: one more dictionary of the stack, no new compilation
            sink.tag("dictionary_listed_again");
            let again = ubins[j].clone();
            ubins.push(again);
            match load_v(&cfgv, &sysb, &ubins, c.file_route) {
                Ok(dn) => cur = Some(dn),
                Err(e) => {
                    loaded_ok = false;
                    if k + 1 <= 14 {
                        fail(format!("stack of {} user dictionaries (dictionary {} is the file of dictionary {} listed again) rejected: {}", k + 1, k + 1, j + 1, e), "");
                    } else if !e.contains("TooManyDictionaries") {
                        fail(format!("15th user dictionary rejected with an unexpected error: {}", e), "");
                    } else {
                        sink.tag("fifteenth_user_dictionary_rejected");
                    }
                    break;
                }
            }
            if k + 1 > 14 {
                fail("a 15th user dictionary was accepted (the same file listed again counts)".to_string(), "");
            }
            continue;
        }
        let csv = render(rows, &c.sys);
        let has_inline = rows.iter().any(|r| r.a.iter().chain(r.b.iter()).any(|u| matches!(u, Unit::Inline(..))));
        let r = if *configured {
            sink.tag("route_configured");
            build_user(cur.as_ref().unwrap(), &csv)
        } else {
            sink.tag("route_bare");
            let l = DictionaryLoader::read_system_dictionary(&sysb).unwrap().to_loaded().unwrap();
            build_user(&l, &csv)
        };
        let out_of_range = rows.iter().any(|r| r.a.iter().chain(r.b.iter()).chain(r.ws.iter()).any(|u| matches!(u, Unit::Sys(n) if *n >= c.sys.len())));
        if out_of_range {
            // malformed stream: a reference to a system word that does not exist must be rejected by the builder
            sink.tag("malformed_reference_beyond_system_dictionary");
            if verbose {
                println!("builder outcome for the out-of-range reference: {:?}", r.as_ref().map(|b| format!("compiled, {} bytes", b.len())));
            }
            match r {
                Ok(_) => fail(format!("user dictionary {} references system word beyond the system dictionary ({} words) and was compiled", k + 1, c.sys.len()), ""),
                Err(e) if e.starts_with("PANIC") => fail(format!("builder panicked on an out-of-range system reference: {}", e), ""),
                Err(_) => {}
            }
            let id = sink.case_rust_only(d, false);
            if let Some((w, cl)) = bad.into_inner() {
                sink.fail(id, &w, &cl);
            }
            return;
        }
        match r {
            Ok(b) => ubins.push(b),
            Err(e) => {
                if verbose {
                    println!("user dictionary {} ({}) does not compile: {}", k + 1, if *configured { "configured route" } else { "bare route" }, e);
                }
                let _ = has_inline;
                let class = "";
                fail(format!("user dictionary {} ({}) does not compile: {}", k + 1, if *configured { "built against the configured dictionary" } else { "built against the bare system dictionary" }, e), class);
                loaded_ok = false;
                break;
            }
        }
        match load_v(&cfgv, &sysb, &ubins, c.file_route) {
            Ok(dn) => cur = Some(dn),
            Err(e) => {
                loaded_ok = false;
                if verbose {
                    println!("stack of {} user dictionaries does not load: {}", k + 1, e);
                }
                if k + 1 <= 14 {
                    fail(format!("stack of {} user dictionaries rejected: {}", k + 1, e), "");
                } else if !e.contains("TooManyDictionaries") {
                    fail(format!("15th user dictionary rejected with an unexpected error: {}", e), "");
                } else {
                    sink.tag("fifteenth_user_dictionary_rejected");
                }
                break;
            }
        }
        if k + 1 > 14 {
            fail("a 15th user dictionary was accepted".to_string(), "");
        }
    }
    if bad.borrow().is_some() && !loaded_ok && c.users.len() <= 14 {
        let id = sink.case_rust_only(d, false);
        let (w, cl) = bad.into_inner().unwrap();
        sink.fail(id, &w, &cl);
        return;
    }
    let dict = cur.unwrap();
    let nlayers = if loaded_ok { c.users.len() } else { ubins.len().min(14) };
    // observations: every word of every layer
    let mut obs = vec![];
    let mut nontrivial = false;
    let mut res_dicts: Vec<String> = vec![];
    for dno in 0..=nlayers {
        let rows: &Vec<Row> = if dno == 0 { &c.sys } else { &c.users[dno - 1].1 };
        let mut res_rows: Vec<String> = vec![];
        for (i, r) in rows.iter().enumerate() {
            let id = WordId::new(dno as u8, i as u32);
            let got = catch(|| {
                let wi = dict.lexicon().get_word_info(id).map_err(|e| format!("{:?}", e))?;
                let mut sp: Vec<u32> = wi.a_unit_split().iter().map(|w| w.as_raw()).collect();
                sp.extend(wi.b_unit_split().iter().map(|w| w.as_raw()));
                sp.extend(wi.word_structure().iter().map(|w| w.as_raw()));
                Ok::<_, String>((wi.pos_id(), sp, wi.surface().to_string()))
            });
            let (pos_id, splits, surf) = match got {
                Ok(Ok(x)) => x,
                Ok(Err(e)) => {
                    fail(format!("word ({}, {}) cannot be read: {}", dno, i, e), "");
                    continue;
                }
                Err(p) => {
                    fail(format!("reading word ({}, {}) panicked: {}", dno, i, p), "");
                    continue;
                }
            };
            let strings = catch(|| dict.grammar().pos_components(pos_id).to_vec());
            let impl_pos = match &strings {
                Ok(s) => Some(intern(s)),
                Err(_) => None,
            };
            let want: Vec<u32> = r.a.iter().chain(r.b.iter()).chain(r.ws.iter()).map(|u| build_stamp(u, rows, &c.sys, dno > 0)).collect();
            // an inline reference must resolve to a word that IS what it names: same surface, POS and reading
            for (u, got_id) in r.a.iter().chain(r.b.iter()).zip(splits.iter()) {
                if let Unit::Inline(o, n) = u {
                    let t = if *o { &rows[*n] } else { &c.sys[*n] };
                    let (gd, gi) = ((*got_id >> 28) as usize, (*got_id & 0x0fff_ffff) as usize);
                    let grows: Option<&Vec<Row>> = if gd == 0 { Some(&c.sys) } else { c.users.get(gd - 1).map(|x| &x.1) };
                    match grows.and_then(|x| x.get(gi)) {
                        Some(g) if g.surface == t.surface && g.pos == t.pos && g.reading == t.reading => {}
                        Some(g) => fail(format!("word ({}, {}) {:?}: the inline reference {:?} / {:?} / {:?} is bound to word ({}, {}) which is {:?} / {:?} / {:?} (dictionary and POS of the sub-unit are then wrong)", dno, i, r.surface, t.surface, pos_fields(t.pos), t.reading, gd, gi, g.surface, pos_fields(g.pos), g.reading), ""),
                        None => fail(format!("word ({}, {}) {:?}: the inline reference to {:?} is bound to ({}, {}), which no dictionary holds", dno, i, r.surface, t.surface, gd, gi), ""),
                    }
                }
            }
            res_rows.push(format!("({}, {})", clist(r.a.iter().chain(r.b.iter()).chain(r.ws.iter()).map(|u| unit_term(u, rows, &c.sys, dno > 0))), clist(splits.iter().map(|w| cn(*w)))));
            let want_loaded: Vec<u32> = want.iter().map(|w| if w >> 28 != 0 { ((dno as u32) << 28) | (w & 0x0fff_ffff) } else { *w }).collect();
            // the reference lists under restricted subsets: one list, or two, at a time
            if !want.is_empty() {
                use sudachi::dic::subset::InfoSubset as IS;
                let loadedv = |us: &Vec<Unit>| -> Vec<u32> {
                    us.iter().map(|u| build_stamp(u, rows, &c.sys, dno > 0)).map(|w| if w >> 28 != 0 && w != u32::MAX { ((dno as u32) << 28) | (w & 0x0fff_ffff) } else { w }).collect()
                };
                let (wa, wb, ww) = (loadedv(&r.a), loadedv(&r.b), loadedv(&r.ws));
                for (name, sub) in [("{SPLIT_A}", IS::SPLIT_A), ("{SPLIT_B}", IS::SPLIT_B), ("{WORD_STRUCTURE}", IS::WORD_STRUCTURE), ("{SPLIT_A, SPLIT_B}", IS::SPLIT_A | IS::SPLIT_B), ("{SPLIT_A, WORD_STRUCTURE}", IS::SPLIT_A | IS::WORD_STRUCTURE), ("{SPLIT_B, WORD_STRUCTURE}", IS::SPLIT_B | IS::WORD_STRUCTURE)] {
                    let g = catch(|| {
                        let wi = dict.lexicon().get_word_info_subset(id, sub).map_err(|e| format!("{:?}", e))?;
                        Ok::<_, String>((wi.a_unit_split().iter().map(|w| w.as_raw()).collect::<Vec<u32>>(), wi.b_unit_split().iter().map(|w| w.as_raw()).collect::<Vec<u32>>(), wi.word_structure().iter().map(|w| w.as_raw()).collect::<Vec<u32>>()))
                    });
                    sink.tag("reference_lists_under_restricted_subset");
                    match g {
                        Ok(Ok((ga, gb, gw))) => {
                            for (lname, flag, got, wantl, units) in [("split A", IS::SPLIT_A, &ga, &wa, &r.a), ("split B", IS::SPLIT_B, &gb, &wb, &r.b), ("word structure", IS::WORD_STRUCTURE, &gw, &ww, &r.ws)] {
                                if sub.contains(flag) {
                                    if got != wantl {
                                        fail(format!("word ({}, {}) {:?} read with subset {}: {} references are {:?}, CSV row means {:?}", dno, i, r.surface, name, lname, got, wantl), "");
                                    }
                                    if sub == flag {
                                        res_rows.push(format!("({}, {})", clist(units.iter().map(|u| unit_term(u, rows, &c.sys, dno > 0))), clist(got.iter().map(|w| cn(*w)))));
                                    }
                                }
                            }
                        }
                        Ok(Err(e)) => fail(format!("word ({}, {}) cannot be read with subset {}: {}", dno, i, name, e), ""),
                        Err(p) => fail(format!("reading word ({}, {}) with subset {} panicked: {}", dno, i, name, p), ""),
                    }
                }
                // and through exact-surface lookup with a restricted subset
                if !non_indexed(r) {
                    for (name, sub) in [("{SPLIT_A}", IS::SPLIT_A), ("{WORD_STRUCTURE}", IS::WORD_STRUCTURE), ("{SPLIT_B}", IS::SPLIT_B)] {
                        let g = catch(|| {
                            let mut ml = sudachi::analysis::mlist::MorphemeList::empty(&dict);
                            ml.lookup(&r.surface, sub).map_err(|e| format!("{:?}", e))?;
                            let mut v = vec![];
                            for k in 0..ml.len() {
                                let m = ml.get(k);
                                if m.word_id().as_raw() == id.as_raw() {
                                    let wi = m.get_word_info();
                                    v.push((wi.a_unit_split().iter().map(|w| w.as_raw()).collect::<Vec<u32>>(), wi.b_unit_split().iter().map(|w| w.as_raw()).collect::<Vec<u32>>(), wi.word_structure().iter().map(|w| w.as_raw()).collect::<Vec<u32>>()));
                                }
                            }
                            Ok::<_, String>(v)
                        });
                        match g {
                            Ok(Ok(v)) => {
                                for (ga, gb, gw) in v {
                                    let (got, wantl) = if sub == IS::SPLIT_A { (ga, &wa) } else if sub == IS::SPLIT_B { (gb, &wb) } else { (gw, &ww) };
                                    if &got != wantl {
                                        fail(format!("word ({}, {}) {:?} found by MorphemeList::lookup with subset {}: references are {:?}, CSV row means {:?}", dno, i, r.surface, name, got, wantl), "");
                                    }
                                }
                            }
                            Ok(Err(e)) => fail(format!("lookup of {:?} with subset {} failed: {}", r.surface, name, e), ""),
                            Err(p) => fail(format!("lookup of {:?} with subset {} panicked: {}", r.surface, name, p), ""),
                        }
                    }
                }
            }
            if surf != r.surface {
                fail(format!("word ({}, {}) has surface {:?}, CSV row says {:?}", dno, i, surf, r.surface), "");
            }
            match &strings {
                Ok(s) if *s == pos_fields(r.pos) => {}
                Ok(s) => fail(format!("word ({}, {}) {:?} reports POS {:?} (id {}), its CSV row declares {:?}", dno, i, r.surface, s, pos_id, pos_fields(r.pos)), ""),
                Err(p) => fail(format!("part_of_speech of word ({}, {}) {:?} panicked (POS id {}): {}", dno, i, r.surface, pos_id, p), ""),
            }
            if splits != want_loaded {
                fail(format!("word ({}, {}) {:?} reports references {:?}, CSV row means {:?}", dno, i, r.surface, splits, want_loaded), "");
            }
            if dno > 0 && (!want.is_empty() || !sys_pos_known.contains(&r.pos)) {
                nontrivial = true;
            }
            if verbose {
                println!("impl word ({},{}) {:?}: pos id {} = {:?}; references {:?}   | CSV: pos {:?}; references {:?}", dno, i, r.surface, pos_id, strings, splits, pos_fields(r.pos), want_loaded);
            }
            obs.push(format!(
                "({}, {}, {}, {}, {}, {})",
                cnu(dno),
                cnu(i),
                cnu(r.pos),
                copt(impl_pos.map(|p| cn(p))),
                clist(want.iter().map(|w| cn(*w))),
                clist(splits.iter().map(|w| cn(*w)))
            ));
        }
        res_dicts.push(format!("({}, {}, {})", cnu(dno), clist(rows.iter().map(key_term)), clist(res_rows)));
    }
    // every word through LOOKUP (not by its number): exact-surface lookup of every surface must return exactly the indexed rows
    // carrying it, each with the dictionary number of its layer and the POS that row declares
    let mut lookup_mobs: Vec<String> = vec![];
    {
        let mut surfaces: Vec<&str> = vec![];
        for dno in 0..=nlayers {
            let rows: &Vec<Row> = if dno == 0 { &c.sys } else { &c.users[dno - 1].1 };
            for r in rows {
                if !surfaces.contains(&r.surface.as_str()) {
                    surfaces.push(&r.surface);
                }
            }
        }
        for sf in surfaces {
            let got = catch(|| {
                let mut ml = sudachi::analysis::mlist::MorphemeList::empty(&dict);
                ml.lookup(sf, sudachi::dic::subset::InfoSubset::all()).map_err(|e| format!("{:?}", e))?;
                Ok::<_, String>((0..ml.len()).map(|i| { let m = ml.get(i); (m.word_id().as_raw(), m.dictionary_id(), m.is_oov(), m.part_of_speech().to_vec()) }).collect::<Vec<_>>())
            });
            let got = match got {
                Ok(Ok(g)) => g,
                Ok(Err(e)) => {
                    fail(format!("lookup of {:?} failed: {}", sf, e), "");
                    continue;
                }
                Err(p) => {
                    fail(format!("lookup of {:?} panicked: {}", sf, p), "");
                    continue;
                }
            };
            sink.tag("lookup_checked");
            let mut want: Vec<u32> = vec![];
            for dno in 0..=nlayers {
                let rows: &Vec<Row> = if dno == 0 { &c.sys } else { &c.users[dno - 1].1 };
                for (i, r) in rows.iter().enumerate() {
                    if r.surface == sf && !non_indexed(r) {
                        want.push(((dno as u32) << 28) | i as u32);
                    }
                }
            }
            for (raw, did, oov, pos) in &got {
                let dno = (*raw >> 28) as usize;
                let rows: Option<&Vec<Row>> = if dno == 0 { Some(&c.sys) } else { c.users.get(dno - 1).map(|u| &u.1) };
                let declared: Vec<Vec<String>> = rows.map(|rs| rs.iter().filter(|r| r.surface == sf && !non_indexed(r)).map(|r| pos_fields(r.pos)).collect()).unwrap_or_default();
                if *oov || *did != dno as i32 {
                    fail(format!("lookup of {:?}: entry (dictionary {}, word {}) reports dictionary_id {} / is_oov {}", sf, dno, raw & 0x0fff_ffff, did, oov), "");
                }
                if !declared.contains(pos) {
                    fail(format!("lookup of {:?} returns word ({}, {}) with POS {:?}; the rows of dictionary {} with that surface declare {:?}", sf, dno, raw & 0x0fff_ffff, pos, dno, declared), "");
                }
                lookup_mobs.push(cpair(&cn(*raw), &cz(*did as i64)));
            }
            let mut g: Vec<u32> = got.iter().map(|x| x.0).collect();
            g.sort();
            want.sort();
            if g != want {
                fail(format!("lookup of {:?} returns words {:?}, the indexed rows with that surface are {:?} ((dictionary << 28) | row number)", sf, g, want), "");
            }
            if verbose {
                println!("impl lookup {:?} -> {:?}; CSV rows {:?}", sf, got, want);
            }
        }
    }
    // system words must read the same with and without user dictionaries
    match (&base_view, &sys_view(&dict, c.sys.len())) {
        (Ok(a), Ok(b)) => {
            if a != b {
                fail("data of system words differs once user dictionaries are loaded".to_string(), "");
            }
        }
        (_, Err(p)) | (Err(p), _) => fail(format!("reading system words panicked: {}", p), ""),
    }
    // morpheme level: dictionary_id and POS through the tokenizer, including OOV
    let mut mobs = lookup_mobs;
    let mut text = String::from(PROBE);
    for dno in 0..=nlayers {
        let rows: &Vec<Row> = if dno == 0 { &c.sys } else { &c.users[dno - 1].1 };
        text.push_str(&rows[rows.len() / 2].surface);
        text.push_str(if dno % 2 == 0 { "@@" } else { "42" });
        if dno == 0 {
            text.push_str(PROBE);
        }
    }
    // katakana runs: a short dictionary word followed / preceded by katakana no dictionary holds (the join plugin glues them)
    let mut nk = 0;
    for dno in 0..=nlayers {
        let rows: &Vec<Row> = if dno == 0 { &c.sys } else { &c.users[dno - 1].1 };
        if let Some(r) = rows.iter().find(|r| is_kata_word(&r.surface)) {
            if nk < 3 {
                text.push_str(&format!("{}{}@{}{}@", r.surface, KATA_OOV, KATA_OOV, r.surface));
                nk += 1;
            }
        }
    }
    if c.sys.iter().any(|r| r.surface == "7") {
        text.push_str("77@7s0x@");
    }
    let probe_pos = probe_expect(c);
    type Tok = (u32, i32, bool, Vec<String>, String, usize, usize);
    let tokenize = |d: &JapaneseDictionary| -> Result<Result<Vec<Tok>, String>, String> {
        let tk = StatelessTokenizer::new(d);
        catch(|| {
            let ms = tk.tokenize(&text, Mode::C, false).map_err(|e| format!("{:?}", e))?;
            let mut v = vec![];
            for m in ms.iter() {
                v.push((m.word_id().as_raw(), m.dictionary_id(), m.is_oov(), m.part_of_speech().to_vec(), m.surface().to_string(), m.begin(), m.end()));
            }
            Ok::<_, String>(v)
        })
    };
    let mut merged: Vec<String> = vec![];
    let toks = tokenize(&dict);
    // the pieces: the same stack and OOV providers without path rewrite plugins (they do not touch the lattice)
    let pieces: Option<Vec<Tok>> = if c.rewrite.is_empty() {
        None
    } else {
        match load_v(&config_value(c, false), &sysb, &ubins[..nlayers.min(ubins.len())], c.file_route) {
            Ok(d0) => match tokenize(&d0) {
                Ok(Ok(v)) => Some(v),
                Ok(Err(e)) => {
                    fail(format!("tokenizing {:?} without path rewrite plugins failed: {}", text, e), "");
                    None
                }
                Err(p) => {
                    fail(format!("tokenizing {:?} without path rewrite plugins panicked: {}", text, p), "");
                    None
                }
            },
            Err(e) => {
                fail(format!("the stack does not load without path rewrite plugins: {}", e), "");
                None
            }
        }
    };
    match toks {
        Ok(Ok(v)) => {
            let plugin_pos: Vec<Vec<String>> = c.plugins.iter().flat_map(|p| p.pos.iter().map(|q| pos_fields(*q))).collect();
            if !v.iter().any(|m| m.4 == PROBE) {
                sink.tag("probe_not_isolated");
            }
            for (raw, did, oov, pos, surf, mb, me) in v {
                mobs.push(cpair(&cn(raw), &cz(did as i64)));
                if verbose {
                    println!("impl morpheme {:?} [{}..{}) word id {:#x} dictionary {} oov {} POS {:?}", surf, mb, me, raw, did, oov, pos);
                }
                // a token made by a path rewrite plugin out of several pieces
                if let Some(ps) = &pieces {
                    let inside: Vec<&Tok> = ps.iter().filter(|p| p.5 >= mb && p.6 <= me).collect();
                    let covered: usize = inside.iter().map(|p| p.6 - p.5).sum();
                    if covered != me - mb || inside.is_empty() {
                        fail(format!("morpheme {:?} [{}..{}) does not consist of whole tokens of the analysis without path rewrite plugins", surf, mb, me), "");
                        continue;
                    }
                    if inside.len() > 1 {
                        sink.tag("merged_token");
                        merged.push(cpair(&cn(raw), &clist(inside.iter().map(|p| cn(p.0)))));
                        let any_oov = inside.iter().any(|p| p.2);
                        if verbose {
                            println!("   merged from {:?}", inside.iter().map(|p| (p.4.clone(), p.1)).collect::<Vec<_>>());
                        }
                        if any_oov {
                            sink.tag("merged_token_with_oov_part");
                            if !oov || did != -1 {
                                fail(format!("merged token {:?} contains the out-of-vocabulary part {:?} but reports dictionary {} (is_oov {}); its parts (surface, dictionary): {:?}", surf, inside.iter().find(|p| p.2).unwrap().4, did, oov, inside.iter().map(|p| (p.4.clone(), p.1)).collect::<Vec<_>>()), "");
                            }
                        } else if did != -1 && !inside.iter().any(|p| p.1 == did) {
                            fail(format!("merged token {:?} reports dictionary {}, none of its parts comes from it: {:?}", surf, did, inside.iter().map(|p| (p.4.clone(), p.1)).collect::<Vec<_>>()), "");
                        }
                        if oov != (did == -1) {
                            fail(format!("merged token {:?}: is_oov {} but dictionary {}", surf, oov, did), "");
                        }
                        let join_pos = c.join_pos_fields();
                        if pos != join_pos && pos != inside[0].3 {
                            fail(format!("merged token {:?} reports POS {:?}: neither the join plugin's POS nor the POS of its first part", surf, pos), "");
                        }
                        continue;
                    }
                    // untouched token: identical to the piece
                    let p0 = inside[0];
                    if (p0.0, p0.1, p0.2, &p0.3) != (raw, did, oov, &pos) {
                        fail(format!("token {:?} differs from the analysis without path rewrite plugins although it was not merged: {:?} vs {:?}", surf, (raw, did, oov, &pos), (p0.0, p0.1, p0.2, &p0.3)), "");
                    }
                }
                if oov {
                    sink.tag("oov_morpheme");
                    if did != -1 {
                        fail(format!("OOV morpheme {:?} reports dictionary {}", surf, did), "");
                    }
                    if !plugin_pos.contains(&pos) {
                        fail(format!("OOV morpheme {:?} has POS {:?}, no OOV plugin declares it", surf, pos), "");
                    }
                    if surf == PROBE {
                        sink.tag("probe_oov_checked");
                        match probe_pos {
                            Some(q) if pos == pos_fields(q) => {}
                            Some(q) => fail(format!("OOV morpheme {:?} reports POS {:?}; the cheapest provider entry for it declares {:?}", surf, pos, pos_fields(q)), ""),
                            None => fail(format!("OOV morpheme {:?} reports POS {:?} but no provider offers a candidate for it", surf, pos), ""),
                        }
                    }
                } else {
                    let dno = (raw >> 28) as usize;
                    let i = (raw & 0x0fff_ffff) as usize;
                    let rows: Option<&Vec<Row>> = if dno == 0 { Some(&c.sys) } else { c.users.get(dno - 1).map(|u| &u.1) };
                    match rows.and_then(|r| r.get(i)) {
                        Some(r) => {
                            if did != dno as i32 {
                                fail(format!("morpheme {:?} (dic {}, word {}) reports dictionary {}", surf, dno, i, did), "");
                            }
                            if r.surface != surf || pos != pos_fields(r.pos) {
                                fail(format!("morpheme {:?} (dic {}, word {}) reports POS {:?}; row ({:?}) declares {:?}", surf, dno, i, pos, r.surface, pos_fields(r.pos)), "");
                            }
                        }
                        None => fail(format!("morpheme {:?} carries word id ({}, {}) which no dictionary holds", surf, dno, i), ""),
                    }
                }
            }
        }
        Ok(Err(e)) => fail(format!("tokenizing {:?} failed: {}", text, e), ""),
        Err(p) => fail(format!("tokenizing {:?} panicked: {}", text, p), ""),
    }
    let term = format!("andb ({}) (check_case_c12r {} {} {} {} {} {} {})", setup_term(true), head, cbool(loaded_ok), clist(obs), clist(mobs), clist(merged), clist(c.sys.iter().map(key_term)), clist(res_dicts)).replacen("))", "))", 1);
    let id = sink.case(term, d, nontrivial);
    if let Some((w, cl)) = bad.into_inner() {
        if verbose {
            println!("FAIL: {}", w);
        }
        sink.fail(id, &w, &cl);
    }
}


// ---------------------------------------------------------------------------------------------------------------------
// `sudachi ubuild` stage: a user lexicon split over several files given on the command line in NON-alphabetical order; the
// words of the dictionary it writes, their U-prefixed / numeric references included, are compared with the rows in the GIVEN
// order (word number = position in that concatenation).
/// the system dictionary `sudachi ubuild` can load with the DEFAULT configuration (it takes no configuration option): every POS
/// resources/unk.def and resources/sudachi.json name, a matrix as large as their connection ids (header only, all costs 0);
/// compiled once and kept under .work
fn default_cfg_system(dir: &std::path::Path) -> Result<(std::path::PathBuf, Vec<u8>, usize), String> {
    let res = format!("{}/resources", repo());
    let unk = std::fs::read_to_string(format!("{}/unk.def", res)).map_err(|e| format!("unk.def: {}", e))?;
    let cfg: Value = serde_json::from_str(&std::fs::read_to_string(format!("{}/sudachi.json", res)).map_err(|e| format!("sudachi.json: {}", e))?).map_err(|e| format!("sudachi.json: {}", e))?;
    let mut max_id = 0i64;
    let mut poss: Vec<String> = vec!["名詞,普通名詞,一般,*,*,*".to_string()];
    for l in unk.lines().map(|l| l.trim()).filter(|l| !l.is_empty() && !l.starts_with('#')) {
        let c: Vec<&str> = l.split(',').collect();
        if c.len() >= 10 {
            max_id = max_id.max(c[1].parse().unwrap_or(0)).max(c[2].parse().unwrap_or(0));
            poss.push(c[4..10].join(","));
        }
    }
    for key in ["oovProviderPlugin", "pathRewritePlugin"] {
        for p in cfg[key].as_array().cloned().unwrap_or_default() {
            max_id = max_id.max(p["leftId"].as_i64().unwrap_or(0)).max(p["rightId"].as_i64().unwrap_or(0));
            if let Some(a) = p["oovPOS"].as_array() {
                if a.len() == 6 {
                    poss.push(a.iter().map(|x| x.as_str().unwrap_or("*")).collect::<Vec<_>>().join(","));
                }
            }
        }
    }
    poss.push("名詞,数詞,*,*,*,*".to_string());
    poss.sort();
    poss.dedup();
    let n = max_id + 1;
    if n > 20000 {
        return Err(format!("the default configuration asks for a {} x {} matrix", n, n));
    }
    let mut csv = String::new();
    for (i, p) in poss.iter().enumerate() {
        csv.push_str(&format!("基{},0,0,100,基{},{},キ,基{},*,A,*,*,*,*\n", i, i, p, i));
    }
    let path = dir.join(format!("default_cfg_system_{}_{:016x}.dic", n, hash_of(&csv)));
    if let Ok(b) = std::fs::read(&path) {
        if b.len() > (n * n * 2) as usize {
            return Ok((path, b, poss.len()));
        }
    }
    let b = match catch(|| -> Result<Vec<u8>, String> {
        let mut bl = DictBuilder::new_system();
        bl.read_conn(format!("{} {}\n", n, n).as_bytes()).map_err(|e| format!("{:?}", e))?;
        bl.read_lexicon(csv.as_bytes()).map_err(|e| format!("{:?}", e))?;
        bl.resolve().map_err(|e| format!("{:?}", e))?;
        let mut out = vec![];
        bl.compile(&mut out).map_err(|e| format!("{:?}", e))?;
        Ok(out)
    }) {
        Ok(r) => r?,
        Err(p) => return Err(format!("PANIC {}", p)),
    };
    std::fs::create_dir_all(dir).map_err(|e| e.to_string())?;
    std::fs::write(&path, &b).map_err(|e| e.to_string())?;
    Ok((path, b, poss.len()))
}

fn ubuild_round(sink: &mut Sink, work: &std::path::Path, seed: u64, round: usize, verbose: bool) {
    let cli = std::env::var("VERIF_CLI_BIN").unwrap_or_default();
    if cli.is_empty() || !std::path::Path::new(&cli).exists() {
        sink.tag("ubuild_stage_skipped_no_VERIF_CLI_BIN");
        return;
    }
    let dir = work.join("c12_ubuild");
    let d = json!({"kind": "c12-ubuild", "seed": seed, "round": round});
    let (sys_path, sys_bytes, nsys) = match default_cfg_system(&work.join("c12_ubuild_sys")) {
        Ok(x) => x,
        Err(e) => {
            let id = sink.case_rust_only(d, false);
            sink.fail(id, &format!("the system dictionary for `sudachi ubuild` cannot be made: {}", e), "");
            return;
        }
    };
    let mut rng = Rng::new(seed ^ 0xC12_0B1D ^ round as u64);
    // rows per file; references are written against the word numbers of the files in the GIVEN order
    let names = ["zz_first.csv", "aa_second.csv", "mm_third.csv"];
    let nfiles = if round == 0 { 3 } else { 2 + rng.below(2) as usize };
    let counts: Vec<usize> = (0..nfiles).map(|_| if round == 0 { 2 } else { 1 + rng.below(3) as usize }).collect();
    let mut given: Vec<usize> = (0..nfiles).collect();
    if round % 2 == 1 {
        given.push(0); // a path given twice: its rows are in the dictionary twice
    }
    // global row list in the given order: (file, row in file)
    let order: Vec<(usize, usize)> = given.iter().flat_map(|f| (0..counts[*f]).map(move |j| (*f, j))).collect();
    let total = order.len();
    // every distinct (file, row): surface, POS, references (as global word numbers of the FIRST listing of the target)
    let first_pos = |f: usize, j: usize| order.iter().position(|x| *x == (f, j)).unwrap();
    struct URow {
        surface: String,
        pos: usize,
        a: Vec<(bool, usize)>,
        ws: Vec<(bool, usize)>,
    }
    let mut rows: Vec<Vec<URow>> = vec![];
    for f in 0..nfiles {
        let mut v = vec![];
        for j in 0..counts[f] {
            let own = |rng: &mut Rng| (true, rng.below(total as u64) as usize);
            let sysr = |rng: &mut Rng| (false, rng.below(nsys.min(4) as u64) as usize);
            let (a, ws) = if round == 0 {
                (vec![(true, (first_pos(f, j) + 1) % total), (false, 1)], vec![(true, (first_pos(f, j) + 3) % total), (true, 0)])
            } else {
                (if rng.chance(2, 3) { vec![own(&mut rng), sysr(&mut rng)] } else { vec![] }, if rng.chance(2, 3) { vec![own(&mut rng), own(&mut rng)] } else { vec![] })
            };
            v.push(URow { surface: format!("c{}w{}", f, j), pos: (f * 3 + j) % (NPOOL - 1), a, ws });
        }
        rows.push(v);
    }
    let rf = |r: &(bool, usize)| if r.0 { format!("U{}", r.1) } else { format!("{}", r.1) };
    let lst = |v: &Vec<(bool, usize)>| if v.is_empty() { "*".to_string() } else { v.iter().map(rf).collect::<Vec<_>>().join("/") };
    let _ = std::fs::remove_dir_all(&dir);
    std::fs::create_dir_all(&dir).unwrap();
    let mut texts = vec![];
    for f in 0..nfiles {
        let mut t = String::new();
        for (j, r) in rows[f].iter().enumerate() {
            t.push_str(&format!("{},{},{},{},{},{},ヨミ{},{},*,{},{},*,{},*\n", r.surface, j % 5, (j + 2) % 5, 4000 + j, r.surface, pos_csv(r.pos), j, r.surface, if r.a.is_empty() { "A" } else { "C" }, lst(&r.a), lst(&r.ws)));
        }
        std::fs::write(dir.join(names[f]), &t).unwrap();
        texts.push(t);
    }
    let out = dir.join("out.dic");
    let mut cmd = std::process::Command::new(&cli);
    cmd.arg("ubuild").arg("-s").arg(&sys_path).arg("-o").arg(&out).arg("-d").arg("c12");
    for f in &given {
        cmd.arg(dir.join(names[*f]));
    }
    cmd.env("RUST_BACKTRACE", "0");
    let shown = format!("sudachi ubuild -s <system> {}", given.iter().map(|f| names[*f]).collect::<Vec<_>>().join(" "));
    let d = json!({"kind": "c12-ubuild", "seed": seed, "round": round, "command": shown,
                   "files": (0..nfiles).map(|f| json!([names[f], texts[f]])).collect::<Vec<_>>()});
    let id = sink.case_rust_only(d, true);
    sink.tag("ubuild_stage_files_in_non_alphabetical_order");
    if verbose {
        for f in 0..nfiles {
            println!("--- {}\n{}", names[f], texts[f]);
        }
        println!("command: {}", shown);
    }
    let o = match cmd.output() {
        Ok(o) => o,
        Err(e) => {
            sink.fail(id, &format!("cannot start {}: {}", cli, e), "");
            return;
        }
    };
    if !o.status.success() {
        sink.fail(id, &format!("`{}` failed ({:?}) on well-formed lexicon files: {}", shown, o.status.code(), String::from_utf8_lossy(&o.stderr).chars().take(300).collect::<String>()), "");
        return;
    }
    let ubytes = match std::fs::read(&out) {
        Ok(b) => b,
        Err(e) => {
            sink.fail(id, &format!("`{}` wrote no dictionary: {}", shown, e), "");
            return;
        }
    };
    let cfgj = json!({"path": format!("{}/sudachi/tests/resources", repo()), "characterDefinitionFile": "char.def",
        "oovProviderPlugin": [{"class": "com.worksap.nlp.sudachi.SimpleOovPlugin", "oovPOS": ["名詞", "普通名詞", "一般", "*", "*", "*"], "leftId": 0, "rightId": 0, "cost": 30000}]}).to_string();
    let dict = match load(&cfgj, &sys_bytes, &[ubytes]) {
        Ok(x) => x,
        Err(e) => {
            sink.fail(id, &format!("the dictionary written by `{}` does not load: {}", shown, e), "");
            return;
        }
    };
    let mut bad: Option<String> = None;
    for (g, (f, j)) in order.iter().enumerate() {
        let r = &rows[*f][*j];
        let wid = WordId::new(1, g as u32);
        let got = catch(|| {
            let wi = dict.lexicon().get_word_info(wid).map_err(|e| format!("{:?}", e))?;
            Ok::<_, String>((wi.surface().to_string(), dict.grammar().pos_components(wi.pos_id()).to_vec(), wi.a_unit_split().iter().map(|w| w.as_raw()).collect::<Vec<u32>>(), wi.word_structure().iter().map(|w| w.as_raw()).collect::<Vec<u32>>()))
        });
        let stamp = |v: &Vec<(bool, usize)>| -> Vec<u32> { v.iter().map(|x| if x.0 { (1u32 << 28) | x.1 as u32 } else { x.1 as u32 }).collect() };
        match got {
            Ok(Ok((surf, pos, a, ws))) => {
                if verbose {
                    println!("impl word (1, {}): {:?} {:?} split A {:?} word structure {:?}   | row {} of {}: {:?} {:?} A {:?} WS {:?}", g, surf, pos, a, ws, j, names[*f], r.surface, pos_fields(r.pos), stamp(&r.a), stamp(&r.ws));
                }
                if bad.is_none() && (surf != r.surface || pos != pos_fields(r.pos)) {
                    bad = Some(format!("`{}`: word (1, {}) is {:?} / {:?}; position {} of the rows in the order given is row {} of {}: {:?} / {:?}", shown, g, surf, pos, g, j, names[*f], r.surface, pos_fields(r.pos)));
                }
                if bad.is_none() && (a != stamp(&r.a) || ws != stamp(&r.ws)) {
                    bad = Some(format!("`{}`: word (1, {}) {:?} reports split A {:?} / word structure {:?}, its row says {:?} / {:?}", shown, g, surf, a, ws, stamp(&r.a), stamp(&r.ws)));
                }
                // every U-reference must name the word the row's author counted: the rows in the order given
                for (kind, refs) in [("split A", &r.a), ("word structure", &r.ws)] {
                    for x in refs.iter().filter(|x| x.0) {
                        let (tf, tj) = order[x.1];
                        let target = &rows[tf][tj].surface;
                        let named = catch(|| dict.lexicon().get_word_info(WordId::new(1, x.1 as u32)).map(|w| w.surface().to_string()).unwrap_or_default()).unwrap_or_default();
                        if bad.is_none() && &named != target {
                            bad = Some(format!("`{}`: the {} reference U{} of {:?} names {:?} in the files as given, in the dictionary word (1, {}) is {:?}", shown, kind, x.1, r.surface, target, x.1, named));
                        }
                    }
                }
            }
            Ok(Err(e)) => {
                if bad.is_none() {
                    bad = Some(format!("`{}`: word (1, {}) cannot be read: {}", shown, g, e));
                }
            }
            Err(p) => {
                if bad.is_none() {
                    bad = Some(format!("`{}`: reading word (1, {}) panicked: {}", shown, g, p));
                }
            }
        }
    }
    // and through lookup: the surface of the g-th row is found as word g (and the other listings of the same row)
    for (g, (f, j)) in order.iter().enumerate() {
        let sf = rows[*f][*j].surface.clone();
        let got = catch(|| {
            let mut ml = sudachi::analysis::mlist::MorphemeList::empty(&dict);
            ml.lookup(&sf, sudachi::dic::subset::InfoSubset::all()).map(|_| (0..ml.len()).map(|i| ml.get(i).word_id().as_raw()).collect::<Vec<u32>>()).map_err(|e| format!("{:?}", e))
        });
        if let Ok(Ok(ids)) = got {
            if bad.is_none() && !ids.contains(&((1u32 << 28) | g as u32)) {
                bad = Some(format!("`{}`: lookup of {:?} returns words {:?}; the row is number {} of the rows in the order given", shown, sf, ids, g));
            }
        }
    }
    if let Some(b) = bad {
        if verbose {
            println!("FAIL: {}", b);
        }
        sink.fail(id, &b, "");
    }
}

pub fn run(args: &Args) {
    let mut sink = Sink::new("C12", &args.out, &["Model.LexSet", "Model.Codec", "Model.CodecResolve", "Model.LexSetResolve"], args.seed, &args.tier);
    {
        let dir = args.work.join("c12defs");
        let _ = std::fs::remove_dir_all(&dir);
        DEFDIR.with(|d| *d.borrow_mut() = dir);
    }
    sink.shard_size = 60;
    sink.rule("system dictionary (2-6 words, 1-4 POS) + 1-3 OOV providers (SimpleOovPlugin / RegexOovProvider / MeCabOovPlugin with generated char.def + unk.def of 1-3 lines; a Simple one at a random position) each asking for POS from a pool of 12 (present / absent in the system dictionary) with its own userPOS mode allow / forbid / key absent: the configuration must load iff every unknown POS is asked for with allow, and a one-character KATAKANA probe must report the POS of the cheapest provider entry covering it + 0..15 user dictionaries, each compiled either against the bare system dictionary or against the configured dictionary as it stands (CLI ubuild / Python route), rows with POS from the pool (system / plugin-registered / other user dictionaries' / new) and split-A/B + word-structure references written as n, Un and inline triples; every word of every layer is read back (POS strings, references, surface), system words are compared with the user-free load, a text mixing words of all layers with OOV material is tokenized (dictionary_id, POS, OOV = -1); non-trivial = some user word has a user-defined POS or references; distinct by generated Coq term");
    if let Some(p) = &args.replay {
        let v: Value = serde_json::from_str(&std::fs::read_to_string(p).unwrap()).unwrap();
        if v["case"]["kind"] == "c12-ubuild" {
            ubuild_round(&mut sink, &args.work, v["case"]["seed"].as_u64().unwrap_or(args.seed), v["case"]["round"].as_u64().unwrap_or(0) as usize, true);
            sink.finish();
            return;
        }
        let c = case_from_json(&v["case"]);
        // replays show where the implementation panics
        std::panic::set_hook(Box::new(|i| println!("[panic] {}", i)));
        println!("config: {}", config_json(&c));
        for (k, p) in c.plugins.iter().enumerate() {
            println!("provider {}: {} userPOS={} asks for POS {:?}", k, KIND_NAMES[p.kind as usize], MODE_NAMES[p.mode as usize], p.pos.iter().map(|q| pos_csv(*q)).collect::<Vec<_>>());
            if p.kind == 2 {
                let (cd, ud) = mecab_files(p);
                println!("  its char.def:\n{}  its unk.def:\n{}", cd, ud);
            }
        }
        println!("expected POS of the probe {:?}: {:?}", PROBE, probe_expect(&c).map(pos_csv));
        println!("system CSV:\n{}", render(&c.sys, &c.sys));
        for (k, (cf, rows)) in c.users.iter().enumerate() {
            println!("user dictionary {} ({}):\n{}", k + 1, if *cf { "built against the configured dictionary" } else { "built against the bare system dictionary" }, render(rows, &c.sys));
        }
        run_case(&mut sink, &c, true);
        sink.finish();
        return;
    }
    let mut rng = Rng::new(args.seed);
    for round in 0..4 {
        ubuild_round(&mut sink, &args.work, args.seed, round, false);
    }
    // directed: the reproduced defect shape — one plugin registers a POS, one user dictionary with its own POS compiled
    // against the configured dictionary
    {
        let sys = vec![
            Row { surface: "s0x".into(), reading: "ヨ0".into(), pos: 0, a: vec![], b: vec![], ws: vec![] },
            Row { surface: "s1x".into(), reading: "ヨ1".into(), pos: 1, a: vec![], b: vec![], ws: vec![] },
        ];
        for configured in [false, true] {
            let rows = vec![
                Row { surface: "u1w0".into(), reading: "ユ0".into(), pos: 7, a: vec![], b: vec![], ws: vec![] },
                Row { surface: "u1w1".into(), reading: "ユ1".into(), pos: 5, a: vec![Unit::Own(0), Unit::Sys(1)], b: vec![], ws: vec![Unit::Own(0), Unit::Sys(1)] },
                Row { surface: "u1w2".into(), reading: "ユ2".into(), pos: 1, a: vec![Unit::Inline(true, 0), Unit::Inline(false, 0)], b: vec![], ws: vec![] },
            ];
            let c = Case::plain(sys.clone(), vec![Plug::simple(5, 0)], vec![(configured, rows)]);
            run_case(&mut sink, &c, false);
            sink.tag("directed_plugin_pos_then_user_pos");
        }
    }
    // directed (malformed): a plain reference `n` of a user dictionary compiled against a configured dictionary that already
    // holds a user dictionary must be checked against the system dictionary's size, not the size of all layers
    {
        let mk = |s: &str, pos: usize, ws: Vec<Unit>| Row { surface: s.into(), reading: format!("ヨ{}", s), pos, a: vec![], b: vec![], ws };
        let sys = vec![mk("s0x", 0, vec![]), mk("s1x", 1, vec![])];
        let u1 = vec![mk("u1w0", 2, vec![]), mk("u1w1", 3, vec![]), mk("u1w2", 3, vec![])];
        let u2 = vec![mk("u2w0", 4, vec![Unit::Sys(1), Unit::Sys(3)])];
        let c = Case::plain(sys, vec![Plug::simple(0, 0)], vec![(false, u1), (true, u2)]);
        run_case(&mut sink, &c, false);
    }
    // directed: every provider kind x userPOS allow / forbid / key absent x POS present / absent in the system dictionary,
    // with a user dictionary that declares the very POS the provider asks for and one only it has
    for kind in 0..3u8 {
        for mode in 0..3u8 {
            for unknown in [false, true] {
                let mk = |s: &str, pos: usize| Row { surface: s.into(), reading: format!("ヨ{}", s), pos, a: vec![], b: vec![], ws: vec![] };
                let sys = vec![mk("s0x", 0), mk("s1x", 1)];
                let q = if unknown { 6 } else { 1 };
                let target = Plug { kind, mode, pos: vec![q], cats: vec![0], costs: vec![777], kata: (true, true, 0) };
                let mut plugins = vec![target];
                if kind != 0 {
                    plugins.push(Plug::simple(0, 1));
                }
                let u1 = vec![mk("u1w0", q), mk("u1w1", 8), mk("u1w2", 0)];
                let c = Case::plain(sys, plugins, vec![(unknown, u1)]);
                run_case(&mut sink, &c, false);
                sink.tag("directed_provider_x_userpos_x_pos");
            }
        }
    }
    // directed: the same dictionary file listed more than once (both load routes): [u1, u1, u2], 13 x u1 + u2, and 15 listings
    // of which two name the same file (must be rejected like any 15th user dictionary)
    for file_route in [false, true] {
        let mk = |s: &str, pos: usize| Row { surface: s.into(), reading: format!("ヨ{}", s), pos, a: vec![], b: vec![], ws: vec![] };
        let sys = vec![mk("s0x", 0), mk("s1x", 1)];
        let u1 = vec![mk("u1w0", 2), mk("u1w1", 0)];
        let u2 = vec![mk("u2w0", 3), Row { surface: "u2w1".into(), reading: "ヨu2w1".into(), pos: 2, a: vec![Unit::Own(0), Unit::Sys(1)], b: vec![], ws: vec![] }];
        for n1 in [2usize, 13, 14] {
            let mut users = vec![(false, u1.clone()); n1];
            users.push((false, u2.clone()));
            let mut dup = vec![None; n1 + 1];
            for k in 1..n1 {
                dup[k] = Some(0);
            }
            let c = Case { sys: sys.clone(), plugins: vec![Plug::simple(0, 0)], users, dup, file_route, rewrite: vec![], join_pos: None };
            run_case(&mut sink, &c, false);
            sink.tag("directed_dictionary_listed_again");
        }
    }
    // directed: katakana runs glued by JoinKatakanaOovPlugin -- dictionary word (system / user) + unknown katakana and the
    // other way round, with and without JoinNumericPlugin in front
    for rewrite in [vec![1u8], vec![0, 1]] {
        let mk = |s: &str, pos: usize| Row { surface: s.into(), reading: format!("ヨ{}", s), pos, a: vec![], b: vec![], ws: vec![] };
        let sys = vec![mk("s0x", 0), mk("s1x", 1), mk("ピサ", 1), mk("7", NUM_POS)];
        let u1 = vec![mk("u1w0", 5), mk("カア", 7)];
        let u2 = vec![mk("u2w0", 0), mk("カイ", 2)];
        let c = Case { sys, plugins: vec![Plug::simple(0, 0)], users: vec![(false, u1), (true, u2)], dup: vec![None, None], file_route: false, rewrite, join_pos: None };
        run_case(&mut sink, &c, false);
        sink.tag("directed_katakana_join");
    }
    // directed: rows that are not indexed in front of and between ordinary rows, in the system and in user dictionaries
    // (both build routes): word numbers count all rows, so lookup must still find every word with its own POS
    for configured in [false, true] {
        let mk = |s: &str, rd: &str, pos: usize| Row { surface: s.into(), reading: rd.into(), pos, a: vec![], b: vec![], ws: vec![] };
        let sys = vec![mk("s0x", "ヨ0", 0), mk("s1n", "非1", 1), mk("s2x", "ヨ2", 2), mk("s3x", "ヨ3", 1)];
        let mut u1 = vec![mk("u1n0", "非0", 7), mk("u1w1", "ユ1", 5), mk("u1n2", "非2", 3), mk("u1w3", "ユ3", 1), mk("u1w4", "ユ4", 8)];
        u1[3].a = vec![Unit::Own(0), Unit::Own(2)];
        u1[4].a = vec![Unit::Sys(1), Unit::Inline(true, 0)];
        let u2 = vec![mk("u2w0", "ユ0", 6), mk("u2n1", "非1", 6), mk("u2w2", "ユ2", 9)];
        let c = Case::plain(sys, vec![Plug::simple(0, 0)], vec![(configured, u1), (!configured, u2)]);
        run_case(&mut sink, &c, false);
        sink.tag("directed_non_indexed_rows_first_and_between");
    }
    // directed: words named like word id literals referenced inline; references of the 2nd / 3rd user dictionary (read under
    // restricted subsets by every case)
    for configured in [false, true] {
        let mk = |s: &str, rd: &str, pos: usize| Row { surface: s.into(), reading: rd.into(), pos, a: vec![], b: vec![], ws: vec![] };
        let sys = vec![mk("s0x", "ヨ0", 0), mk("s1x", "ヨ1", 1), mk("5", "ゴ", 2), mk("15", "ジュウゴ", 1), mk("s4x", "ヨ4", 0), mk("s5x", "ヨ5", 2)];
        let mut u1 = vec![mk("U1", "ユーイチ", 7), mk("u1w1", "ユ1", 5), mk("3", "サン", 3), mk("u1k3", "フク3", 1), mk("u1k4", "フク4", 8)];
        u1[3].a = vec![Unit::Inline(false, 2), Unit::Inline(true, 0)];
        u1[4].a = vec![Unit::Inline(true, 2), Unit::Inline(false, 3)];
        u1[4].b = vec![Unit::Own(0), Unit::Sys(2)];
        u1[4].ws = vec![Unit::Own(2), Unit::Sys(3)];
        let mut u2 = vec![mk("u2w0", "ユ0", 6), mk("5", "ベツノゴ", 6), mk("u2k2", "フク2", 9)];
        u2[2].a = vec![Unit::Own(0), Unit::Inline(true, 1)];
        u2[2].b = vec![Unit::Inline(false, 2), Unit::Own(1)];
        u2[2].ws = vec![Unit::Own(1), Unit::Own(0)];
        let mut u3 = vec![mk("u3w0", "ユ0", 4), mk("u3k1", "フク1", 4)];
        u3[1].ws = vec![Unit::Own(0), Unit::Sys(0)];
        u3[1].a = vec![Unit::Own(0), Unit::Sys(1)];
        let c = Case::plain(sys, vec![Plug::simple(0, 0)], vec![(configured, u1), (!configured, u2), (configured, u3)]);
        run_case(&mut sink, &c, false);
        sink.tag("directed_id_like_surfaces_and_subsets");
    }
    // directed: the join plugin's oovPOS is a POS that only an OOV provider (Simple / Regex / MeCab, userPOS allow) brings into the
    // grammar: the configuration must load and the glued katakana run must report that POS
    for kind in 0..3u8 {
        for file_route in [false, true] {
            let mk = |s: &str, pos: usize| Row { surface: s.into(), reading: format!("ヨ{}", s), pos, a: vec![], b: vec![], ws: vec![] };
            let sys = vec![mk("s0x", 0), mk("s1x", 1), mk("ピサ", 1), mk("7", NUM_POS)];
            let target = Plug { kind, mode: 0, pos: vec![9], cats: vec![1], costs: vec![555], kata: (false, true, 0) };
            let mut plugins = vec![Plug::simple(0, 1)];
            if kind == 0 {
                plugins = vec![Plug::simple(9, 0)];
            } else {
                plugins.push(target);
            }
            let u1 = vec![mk("u1w0", 9), mk("カア", 7)];
            let c = Case { sys, plugins, users: vec![(file_route, u1)], dup: vec![None], file_route, rewrite: vec![0, 1], join_pos: Some(9) };
            run_case(&mut sink, &c, false);
            sink.tag("directed_join_pos_registered_by_oov_provider");
        }
    }
    // directed: 14 user dictionaries accepted, the 15th rejected
    for n in [14usize, 15] {
        let c = gen_case(&mut rng, n);
        run_case(&mut sink, &c, false);
        sink.tag("directed_capacity");
    }
    let n = args.n(1500, 20000);
    for _ in 0..n {
        let nusers = match rng.below(20) {
            0 => 0,
            1..=8 => 1,
            9..=13 => 2,
            14..=16 => 3,
            17..=18 => 4 + rng.below(4) as usize,
            _ => 8 + rng.below(8) as usize,
        };
        let c = gen_case(&mut rng, nusers);
        run_case(&mut sink, &c, false);
    }
    sink.finish();
}
