//! C20 — out-of-range plugin parameters are rejected when the dictionary is loaded.
//!
//! One case = one system dictionary with an nl x nr connection matrix (compiled by DictBuilder from text, cell (l, r) holding
//! `init_cost l r`) + one configuration (OOV providers, InhibitConnectionPlugin instances).  The implementation is run through
//! JapaneseDictionary::from_cfg_storage; recorded: Ok/Err/Panic, the node templates each OOV provider hands out on a probe
//! text, the matrix cells read back from the loaded grammar, whether analysing the probe text panics.
use crate::common::*;
#[path = "c20_text.rs"]
mod text;
use serde_json::{json, Value};
use std::collections::HashMap;
use std::path::{Path, PathBuf};
use sudachi::analysis::created::CreatedWords;
use sudachi::analysis::node::{LatticeNode, RightId};
use sudachi::analysis::stateful_tokenizer::StatefulTokenizer;
use sudachi::analysis::stateless_tokenizer::DictionaryAccess;
use sudachi::analysis::Mode;
use sudachi::config::ConfigBuilder;
use sudachi::dic::build::DictBuilder;
use sudachi::dic::dictionary::JapaneseDictionary;
use sudachi::dic::storage::{Storage, SudachiDicData};
use sudachi::input_text::InputBuffer;

/// POS of the three words of the system lexicon, in id order (keys 0, 1, 2 of the model)
const SYS_POS: [&str; 3] = ["名詞,固有名詞,地名,一般,*,*", "助詞,格助詞,*,*,*,*", "動詞,一般,*,*,*,*"];
const PROBE: &str = "abc京都に行くア12 x。";
const CATS: [&str; 6] = ["DEFAULT", "ALPHA", "KANJI", "NUMERIC", "KATAKANA", "HIRAGANA"];

fn init_cost(l: i64, r: i64) -> i64 {
    (l * 7 + r * 13).rem_euclid(1000) - 500
}

#[derive(Clone, Debug)]
struct Pos {
    arity_ok: bool,
    key: u64,
}
impl Pos {
    fn strings(&self) -> Vec<String> {
        let mut v: Vec<String> = if (self.key as usize) < SYS_POS.len() {
            SYS_POS[self.key as usize].split(',').map(|s| s.to_string()).collect()
        } else {
            vec!["名詞".into(), format!("利用者{}", self.key), "*".into(), "*".into(), "*".into(), "*".into()]
        };
        if !self.arity_ok {
            v.pop();
        }
        v
    }
    fn coq(&self) -> String {
        format!("({}, {})", cbool(self.arity_ok), cn(self.key))
    }
    fn json(&self) -> Value {
        json!([self.arity_ok, self.key])
    }
    fn from_json(v: &Value) -> Pos {
        Pos { arity_ok: v[0].as_bool().unwrap(), key: v[1].as_u64().unwrap() }
    }
}

/// `userPOS` of a provider's settings: written as "allow" / "forbid", or the key left out
pub type PosMode = Option<bool>;
pub fn mode_coq(m: &PosMode) -> String {
    match m {
        Some(b) => format!("(M (Some {}))", cbool(*b)),
        None => "(M None)".to_string(),
    }
}
pub fn mode_json_field(m: &PosMode) -> String {
    match m {
        Some(true) => ",\"userPOS\":\"allow\"".to_string(),
        Some(false) => ",\"userPOS\":\"forbid\"".to_string(),
        None => String::new(),
    }
}
/// a mode that must not let an absent POS through: written as forbid, or not written at all
pub fn forbid_mode(rng: &mut Rng) -> PosMode {
    if rng.chance(1, 2) {
        Some(false)
    } else {
        None
    }
}

#[derive(Clone, Debug)]
enum Oov {
    Simple { l: i128, r: i128, c: i128, p: Pos, allow: PosMode },
    Regex { l: i128, r: i128, c: i128, p: Pos, allow: PosMode },
    Mecab { lines: Vec<(usize, i128, i128, i128, Pos)>, allow: PosMode },
}

#[derive(Clone, Debug)]
struct Case {
    nl: i64,
    nr: i64,
    inhibit: Vec<Vec<(i128, i128)>>,
    oov: Vec<Oov>,
}

fn czz(x: i128) -> String {
    if x < 0 {
        format!("({})%Z", x)
    } else {
        format!("{}%Z", x)
    }
}

impl Case {
    fn coq_cfg(&self) -> String {
        let inh = clist(self.inhibit.iter().map(|ps| clist(ps.iter().map(|(a, b)| format!("({}, {})", czz(*a), czz(*b))))));
        let oov = clist(self.oov.iter().map(|o| match o {
            Oov::Simple { l, r, c, p, allow } => format!("Simple {} {} {} {} {}", czz(*l), czz(*r), czz(*c), p.coq(), mode_coq(allow)),
            Oov::Regex { l, r, c, p, allow } => format!("Regex {} {} {} {} {}", czz(*l), czz(*r), czz(*c), p.coq(), mode_coq(allow)),
            Oov::Mecab { lines, allow } => format!(
                "Mecab {} {}",
                clist(lines.iter().map(|(_, l, r, c, p)| format!("({}, {}, {}, {})", czz(*l), czz(*r), czz(*c), p.coq()))),
                mode_coq(allow)
            ),
        }));
        format!("(fun M : option bool -> bool => mkCfg {} {})", inh, oov)
    }
    fn json(&self) -> Value {
        let num = |x: &i128| Value::String(x.to_string());
        json!({"kind": "c20", "nl": self.nl, "nr": self.nr,
            "inhibit": self.inhibit.iter().map(|ps| ps.iter().map(|(a, b)| json!([num(a), num(b)])).collect::<Vec<_>>()).collect::<Vec<_>>(),
            "oov": self.oov.iter().map(|o| match o {
                Oov::Simple { l, r, c, p, allow } => json!({"t": "simple", "l": num(l), "r": num(r), "c": num(c), "p": p.json(), "allow": allow}),
                Oov::Regex { l, r, c, p, allow } => json!({"t": "regex", "l": num(l), "r": num(r), "c": num(c), "p": p.json(), "allow": allow}),
                Oov::Mecab { lines, allow } => json!({"t": "mecab", "allow": allow,
                    "lines": lines.iter().map(|(k, l, r, c, p)| json!([k, num(l), num(r), num(c), p.json()])).collect::<Vec<_>>()}),
            }).collect::<Vec<_>>()})
    }
    fn from_json(v: &Value) -> Case {
        let num = |x: &Value| x.as_str().unwrap().parse::<i128>().unwrap();
        Case {
            nl: v["nl"].as_i64().unwrap(),
            nr: v["nr"].as_i64().unwrap(),
            inhibit: v["inhibit"].as_array().unwrap().iter().map(|ps| ps.as_array().unwrap().iter().map(|p| (num(&p[0]), num(&p[1]))).collect()).collect(),
            oov: v["oov"]
                .as_array()
                .unwrap()
                .iter()
                .map(|o| match o["t"].as_str().unwrap() {
                    "simple" => Oov::Simple { l: num(&o["l"]), r: num(&o["r"]), c: num(&o["c"]), p: Pos::from_json(&o["p"]), allow: o["allow"].as_bool() },
                    "regex" => Oov::Regex { l: num(&o["l"]), r: num(&o["r"]), c: num(&o["c"]), p: Pos::from_json(&o["p"]), allow: o["allow"].as_bool() },
                    _ => Oov::Mecab {
                        allow: o["allow"].as_bool(),
                        lines: o["lines"].as_array().unwrap().iter().map(|l| (l[0].as_u64().unwrap() as usize, num(&l[1]), num(&l[2]), num(&l[3]), Pos::from_json(&l[4]))).collect(),
                    },
                })
                .collect(),
        }
    }
    /// the configuration as the JSON text handed to ConfigBuilder (numbers verbatim, so values beyond i64 can be written)
    fn config_json(&self, dir: &Path, unk_files: &[String]) -> String {
        let mut oov = vec![];
        let mut k = 0;
        for o in &self.oov {
            match o {
                Oov::Simple { l, r, c, p, allow } => oov.push(format!(
                    "{{\"class\":\"com.worksap.nlp.sudachi.SimpleOovPlugin\",\"oovPOS\":{},\"leftId\":{},\"rightId\":{},\"cost\":{}{}}}",
                    serde_json::to_string(&p.strings()).unwrap(), l, r, c, mode_json_field(allow)
                )),
                Oov::Regex { l, r, c, p, allow } => oov.push(format!(
                    "{{\"class\":\"com.worksap.nlp.sudachi.RegexOovProvider\",\"regex\":\"[a-z0-9]+\",\"oovPOS\":{},\"leftId\":{},\"rightId\":{},\"cost\":{}{}}}",
                    serde_json::to_string(&p.strings()).unwrap(), l, r, c, mode_json_field(allow)
                )),
                Oov::Mecab { allow, .. } => {
                    oov.push(format!(
                        "{{\"class\":\"com.worksap.nlp.sudachi.MeCabOovPlugin\",\"charDef\":\"char.def\",\"unkDef\":\"{}\"{}}}",
                        unk_files[k], mode_json_field(allow)
                    ));
                    k += 1;
                }
            }
        }
        let inh: Vec<String> = self
            .inhibit
            .iter()
            .map(|ps| {
                format!(
                    "{{\"class\":\"com.worksap.nlp.sudachi.InhibitConnectionPlugin\",\"inhibitPair\":[{}]}}",
                    ps.iter().map(|(a, b)| format!("[{},{}]", a, b)).collect::<Vec<_>>().join(",")
                )
            })
            .collect();
        format!(
            "{{\"path\":{},\"characterDefinitionFile\":\"char.def\",\"oovProviderPlugin\":[{}],\"connectionCostPlugin\":[{}]}}",
            serde_json::to_string(&dir.to_string_lossy()).unwrap(),
            oov.join(","),
            inh.join(",")
        )
    }
    /// a provider that names a POS absent from the dictionary (and not registered by an earlier provider with a written
    /// "allow") although its own userPOS is not a written "allow": (provider, how userPOS was given)
    fn unallowed_absent_pos(&self) -> Option<(&'static str, &'static str)> {
        let mut registered: Vec<u64> = vec![];
        for o in &self.oov {
            let (name, mode, keys): (&'static str, &PosMode, Vec<&Pos>) = match o {
                Oov::Simple { p, allow, .. } => ("SimpleOovPlugin", allow, vec![p]),
                Oov::Regex { p, allow, .. } => ("RegexOovProvider", allow, vec![p]),
                Oov::Mecab { lines, allow } => ("MeCabOovPlugin (unk.def)", allow, lines.iter().map(|l| &l.4).collect()),
            };
            for p in keys {
                if p.arity_ok && p.key >= SYS_POS.len() as u64 && !registered.contains(&p.key) {
                    match mode {
                        Some(true) => registered.push(p.key),
                        Some(false) => return Some((name, "\"forbid\"")),
                        None => return Some((name, "not mentioned")),
                    }
                }
            }
        }
        None
    }
    /// independent oracle: what the property demands of an accepted configuration
    fn valid(&self) -> bool {
        let (nl, nr) = (self.nl as i128, self.nr as i128);
        let lid = |x: i128| 0 <= x && x < nr;
        let rid = |x: i128| 0 <= x && x < nl;
        let cst = |x: i128| -32768 <= x && x <= 32767;
        !self.oov.is_empty()
            && self.oov.iter().all(|o| match o {
                Oov::Simple { l, r, c, p, .. } | Oov::Regex { l, r, c, p, .. } => lid(*l) && rid(*r) && cst(*c) && p.arity_ok,
                Oov::Mecab { lines, .. } => lines.iter().all(|(_, l, r, c, p)| lid(*l) && rid(*r) && cst(*c) && p.arity_ok),
            })
            && self.inhibit.iter().flatten().all(|(a, b)| rid(*a) && lid(*b))
    }
}

struct Env {
    dir: PathBuf,
    dics: HashMap<(i64, i64), Vec<u8>>,
    debug: bool,
}

impl Env {
    fn new(work: &Path) -> Env {
        let debug = cfg!(debug_assertions);
        let dir = work.join(if debug { "c20_res_debug" } else { "c20_res_release" });
        std::fs::create_dir_all(&dir).unwrap();
        // char.def of the test resources + category properties for the classes the generated unk.def files use
        let mut cd = std::fs::read_to_string(format!("{}/sudachi/tests/resources/char.def", repo())).unwrap();
        cd.push_str("\nKANJI 0 0 2\nNUMERIC 1 1 0\nKATAKANA 1 1 2\nHIRAGANA 0 1 2\n");
        std::fs::write(dir.join("char.def"), cd).unwrap();
        Env { dir, dics: HashMap::new(), debug }
    }
    fn dictionary(&mut self, nl: i64, nr: i64) -> Vec<u8> {
        if let Some(d) = self.dics.get(&(nl, nr)) {
            return d.clone();
        }
        let mut m = format!("{} {}\n", nl, nr);
        for r in 0..nr {
            for l in 0..nl {
                m.push_str(&format!("{} {} {}\n", l, r, init_cost(l, r)));
            }
        }
        let lex = format!(
            "京都,0,0,100,京都,{},キョウト,京都,*,A,*,*,*,*\nに,0,0,100,に,{},ニ,に,*,A,*,*,*,*\n行く,0,0,100,行く,{},イク,行く,*,A,*,*,*,*\n",
            SYS_POS[0], SYS_POS[1], SYS_POS[2]
        );
        let mut b = DictBuilder::new_system();
        b.read_conn(m.as_bytes()).expect("matrix");
        b.read_lexicon(lex.as_bytes()).expect("lexicon");
        b.resolve().expect("resolve");
        let mut out = Vec::new();
        b.compile(&mut out).expect("compile");
        if self.dics.len() > 64 {
            self.dics.clear();
        }
        self.dics.insert((nl, nr), out.clone());
        out
    }
}

struct Outcome {
    status: &'static str,
    msg: String,
    nodes: Vec<Vec<(u16, u16, i16, u32)>>,
    cells: Vec<(i64, i64, i64)>,
    analysis_ok: bool,
    analysis_msg: String,
}

fn run_impl(env: &mut Env, case: &Case) -> Outcome {
    let bytes = env.dictionary(case.nl, case.nr);
    let mut unk_files = vec![];
    for (i, o) in case.oov.iter().enumerate() {
        if let Oov::Mecab { lines, .. } = o {
            let name = format!("unk_{}.def", i);
            let mut t = String::from("# generated\n");
            for (cat, l, r, c, p) in lines {
                t.push_str(&format!("{},{},{},{},{}\n", CATS[*cat % CATS.len()], l, r, c, p.strings().join(",")));
            }
            std::fs::write(env.dir.join(&name), t).unwrap();
            unk_files.push(name);
        }
    }
    let cfg_text = case.config_json(&env.dir, &unk_files);
    let cfg = ConfigBuilder::from_bytes(cfg_text.as_bytes()).expect("config json").build();
    let mut out = Outcome { status: "SErr", msg: String::new(), nodes: vec![], cells: vec![], analysis_ok: true, analysis_msg: String::new() };
    let loaded = catch(|| JapaneseDictionary::from_cfg_storage(&cfg, SudachiDicData::new(Storage::Owned(bytes))));
    let dict = match loaded {
        Err(p) => {
            out.status = "SPanic";
            out.msg = p;
            return out;
        }
        Ok(Err(e)) => {
            out.msg = format!("{}", e);
            return out;
        }
        Ok(Ok(d)) => d,
    };
    out.status = "SOk";
    let valid = case.valid();
    // node templates handed out by every provider at every position of the probe text
    let mut input = InputBuffer::from(PROBE);
    input.build(dict.grammar()).unwrap();
    let nchars = PROBE.chars().count();
    for p in dict.oov_provider_plugins() {
        let mut seen: Vec<(u16, u16, i16, u32)> = vec![];
        for off in 0..nchars {
            let mut v = vec![];
            let _ = catch(|| p.provide_oov(&input, off, CreatedWords::empty(), &mut v));
            for n in v {
                let t = (n.left_id(), n.right_id(), n.cost(), n.word_id().word());
                if !seen.contains(&t) {
                    seen.push(t);
                }
            }
        }
        out.nodes.push(seen);
    }
    // matrix cells read back (only in-range arguments: anything else is undefined behaviour of the accessor)
    let (nl, nr) = (case.nl, case.nr);
    let mut want: Vec<(i64, i64)> = vec![];
    if nl * nr <= 400 {
        for r in 0..nr {
            for l in 0..nl {
                want.push((l, r));
            }
        }
    } else {
        want.push((0, 0));
        want.push((nl - 1, nr - 1));
        for (a, b) in case.inhibit.iter().flatten() {
            let (ua, ub) = ((*a as i64) & 0xffff, (*b as i64) & 0xffff);
            let idx = ub * nl + ua;
            for i in [idx - 1, idx, idx + 1] {
                if 0 <= i && i < nl * nr {
                    want.push((i % nl, i / nl));
                }
            }
            if 0 <= *a && (*a as i64) < nl && 0 <= *b && (*b as i64) < nr {
                want.push((*a as i64, *b as i64));
            }
        }
        want.sort();
        want.dedup();
    }
    for (l, r) in want {
        out.cells.push((l, r, dict.grammar().connect_cost(l as i16, r as i16) as i64));
    }
    // analysis of the probe text; in the release profile only when every accepted id is in range (otherwise the
    // unchecked matrix read is undefined behaviour and could take the harness down)
    if env.debug || valid {
        let r = catch(|| {
            let mut tok = StatefulTokenizer::new(&dict, Mode::C);
            tok.reset().push_str(PROBE);
            tok.do_tokenize().map(|_| ())
        });
        match r {
            Ok(Ok(())) => {}
            Ok(Err(e)) => {
                // an error value (e.g. every path inhibited) is not a failure of C20
                out.analysis_msg = format!("analysis error value: {}", e);
            }
            Err(p) => {
                out.analysis_ok = false;
                out.analysis_msg = format!("analysis panicked: {}", p);
            }
        }
    }
    out
}

fn emit(sink: &mut Sink, env: &mut Env, case: &Case, shape: &str, verbose: bool) {
    let out = run_impl(env, case);
    let nodes = clist(out.nodes.iter().map(|ns| clist(ns.iter().map(|(l, r, c, p)| format!("({}, {}, {}, {})", cz(*l as i64), cz(*r as i64), cz(*c as i64), cn(*p))))));
    let cells = clist(out.cells.iter().map(|(l, r, v)| format!("({}, {}, {})", cz(*l), cz(*r), cz(*v))));
    let term = format!(
        "check_load_m {} (mkGram {} {} [0%N; 1%N; 2%N]) {} {} {} {} {}",
        cbool(env.debug), cz(case.nl), cz(case.nr), case.coq_cfg(), out.status, nodes, cells, cbool(out.analysis_ok)
    );
    let valid = case.valid();
    sink.tag(shape);
    sink.tag(&format!("impl={}", out.status));
    sink.tag(if case.nl == case.nr { "square" } else { "non_square" });
    sink.tag(if valid { "cfg_valid" } else { "cfg_invalid" });
    let mut d = case.json();
    d["shape"] = json!(shape);
    d["profile"] = json!(if env.debug { "debug" } else { "release" });
    // non-trivial: some supplied value sits on or next to a dimension boundary, or the configuration is invalid
    let near = |x: i128, d: i64| (x - d as i128).abs() <= 1;
    let boundary = case.oov.iter().any(|o| match o {
        Oov::Simple { l, r, .. } | Oov::Regex { l, r, .. } => near(*l, case.nr) || near(*r, case.nl),
        Oov::Mecab { lines, .. } => lines.iter().any(|(_, l, r, _, _)| near(*l, case.nr) || near(*r, case.nl)),
    }) || case.inhibit.iter().flatten().any(|(a, b)| near(*a, case.nl) || near(*b, case.nr));
    let id = sink.case(term, d, boundary || !valid);
    if verbose {
        println!("configuration: {}", case.config_json(&env.dir, &(0..case.oov.len()).map(|i| format!("unk_{}.def", i)).collect::<Vec<_>>()));
        println!("implementation: load {} {}", out.status, out.msg);
        println!("  node templates per provider (left_id, right_id, cost, pos id): {:?}", out.nodes);
        println!("  cells read back: {:?}", out.cells.iter().take(40).collect::<Vec<_>>());
        println!("  analysis ok: {} {}", out.analysis_ok, out.analysis_msg);
        println!("oracle: configuration valid = {}", valid);
    }
    // Rust-side oracle
    if out.status == "SPanic" {
        sink.fail(id, &format!("loading panicked instead of returning an error: {}", out.msg), "");
    } else if out.status == "SOk" && case.unallowed_absent_pos().is_some() {
        sink.fail(id, &format!("{} names a part of speech that is not in the dictionary while its userPOS is {}, yet the configuration loaded (the POS was registered without being explicitly allowed)",
            case.unallowed_absent_pos().unwrap().0, case.unallowed_absent_pos().unwrap().1), "");
    } else if out.status == "SOk" && !valid {
        sink.fail(id, "configuration with an out-of-range connection id / cost / malformed POS was accepted", "");
    } else if out.status == "SOk" {
        if !out.analysis_ok {
            sink.fail(id, &format!("accepted configuration, then {}", out.analysis_msg), "");
        }
        let named: Vec<(i64, i64)> = case.inhibit.iter().flatten().map(|(a, b)| (*a as i64, *b as i64)).collect();
        for (l, r, v) in &out.cells {
            let want = if named.contains(&(*l, *r)) { 32767 } else { init_cost(*l, *r) };
            if *v != want {
                sink.fail(id, &format!("cell ({}, {}) holds {} after loading, expected {}", l, r, v, want), "");
                break;
            }
        }
    }
}

fn grid(rng: &mut Rng, d: i64, other: i64) -> i128 {
    let g: [i128; 17] = [
        -1, 0, d as i128 - 1, d as i128, d as i128 + 1, other as i128 - 1, other as i128, other as i128 + 1,
        32767, 32768, 65535, 65536, -32768, -32769, 65536 + d as i128 - 1, i64::MAX as i128, i64::MAX as i128 + 1,
    ];
    *rng.pick(&g)
}
fn good(rng: &mut Rng, d: i64) -> i128 {
    match rng.below(3) {
        0 => 0,
        1 => d as i128 - 1,
        _ => rng.below(d as u64) as i128,
    }
}
fn cost_grid(rng: &mut Rng) -> i128 {
    *rng.pick(&[-32769i128, -32768, -1, 0, 1, 32767, 32768, 65535, 65536, -65536])
}
fn good_cost(rng: &mut Rng) -> i128 {
    *rng.pick(&[-32768i128, -100, 0, 5000, 32767])
}
fn gen_pos(rng: &mut Rng, bad: bool) -> (Pos, PosMode) {
    // (pos, userPOS): bad => absent + (forbid written, or userPOS not mentioned), or wrong arity.
    // Wherever user-defined POS are not to be allowed the key is as often left out as written
    let m = |allow: bool, rng: &mut Rng| -> PosMode { if allow { Some(true) } else { forbid_mode(rng) } };
    if bad {
        if rng.chance(1, 2) {
            (Pos { arity_ok: true, key: 100 + rng.below(3) }, forbid_mode(rng))
        } else {
            let a = rng.chance(1, 2);
            (Pos { arity_ok: false, key: rng.below(3) }, m(a, rng))
        }
    } else {
        match rng.below(3) {
            0 => (Pos { arity_ok: true, key: rng.below(3) }, forbid_mode(rng)),
            1 => (Pos { arity_ok: true, key: rng.below(3) }, Some(true)),
            _ => (Pos { arity_ok: true, key: 100 + rng.below(3) }, Some(true)),
        }
    }
}
fn dims(rng: &mut Rng, allow_big: bool) -> (i64, i64) {
    let small = [1i64, 2, 3, 4, 5, 10];
    if allow_big && rng.chance(1, 60) {
        return *rng.pick(&[(32767i64, 1i64), (1, 32767), (32767, 2), (300, 2), (2, 300)]);
    }
    let nl = *rng.pick(&small);
    let nr = if rng.chance(1, 2) { nl } else { *rng.pick(&small) };
    (nl, nr)
}

/// one provider whose field number `bad` (0 none, 1 left, 2 right, 3 cost, 4 pos) is taken from the boundary grid
fn gen_oov(rng: &mut Rng, kind: u64, nl: i64, nr: i64, bad: u64) -> Oov {
    let l = if bad == 1 { grid(rng, nr, nl) } else { good(rng, nr) };
    let r = if bad == 2 { grid(rng, nl, nr) } else { good(rng, nl) };
    let c = if bad == 3 { cost_grid(rng) } else { good_cost(rng) };
    let (p, allow) = gen_pos(rng, bad == 4);
    match kind {
        0 => Oov::Simple { l, r, c, p, allow },
        1 => Oov::Regex { l, r, c, p, allow },
        _ => {
            let n = 1 + rng.below(4) as usize;
            let badline = rng.below(n as u64) as usize;
            let mut lines = vec![];
            for i in 0..n {
                let cat = rng.below(CATS.len() as u64) as usize;
                if i == badline {
                    lines.push((cat, l, r, c, p.clone()));
                } else {
                    let (p2, _) = gen_pos(rng, false);
                    let p2 = if allow == Some(true) { p2 } else { Pos { arity_ok: true, key: rng.below(3) } };
                    lines.push((cat, good(rng, nr), good(rng, nl), good_cost(rng), p2));
                }
            }
            Oov::Mecab { lines, allow }
        }
    }
}

fn baseline_oov() -> Oov {
    Oov::Simple { l: 0, r: 0, c: 3000, p: Pos { arity_ok: true, key: 0 }, allow: None }
}

pub fn run(args: &Args) {
    let mut sink = Sink::new("C20", &args.out, &["Model.GuardLang", "Model.Params", "Model.UnkDefText"], args.seed, &args.tier);
    sink.rule("dictionaries with nl x nr matrices (1..10 square and non-square, a few 32767-sized) x configurations of SimpleOovPlugin / RegexOovProvider / MeCabOovPlugin(unk.def) / InhibitConnectionPlugin where one field (leftId, rightId, cost, POS, pair member) is drawn from the boundary grid {-1,0,d-1,d,d+1,other dim-1..+1,32767,32768,65535,65536,+-i16 ends,i64 max(+1)}; POS present/absent x userPOS allow / forbid / not mentioned (as often left out as written wherever user POS must not be allowed) x wrong arity; non-trivial = a supplied id within 1 of a dimension or configuration invalid; distinct by generated Coq term");
    let mut env = Env::new(&args.work);
    if let Some(p) = &args.replay {
        let v: Value = serde_json::from_str(&std::fs::read_to_string(p).unwrap()).unwrap();
        if v["case"]["kind"] == "c20-text" || v["case"]["kind"] == "c20-text-raw" {
            text::replay(&mut sink, &mut env, &v["case"]);
            sink.finish();
            return;
        }
        let case = Case::from_json(&v["case"]);
        println!("replaying C20 case on a {}x{} matrix, profile {}", case.nl, case.nr, if env.debug { "debug" } else { "release" });
        emit(&mut sink, &mut env, &case, "replay", true);
        sink.finish();
        return;
    }
    let mut rng = Rng::new(args.seed);
    // ---- directed cases first: the defects of the pinned tree and their neighbours
    let p0 = Pos { arity_ok: true, key: 0 };
    for (nl, nr) in [(10i64, 10i64), (3, 2), (2, 3), (1, 1)] {
        for (l, r) in [(nr as i128, 0i128), (0, nl as i128), (nr as i128 - 1, nl as i128 - 1), (nl as i128 - 1, nr as i128 - 1), (-1, 0), (0, -1), (65536, 0)] {
            emit(&mut sink, &mut env, &Case { nl, nr, inhibit: vec![], oov: vec![Oov::Simple { l, r, c: 0, p: p0.clone(), allow: Some(false) }] }, "directed_simple", false);
            emit(&mut sink, &mut env, &Case { nl, nr, inhibit: vec![], oov: vec![Oov::Regex { l, r, c: 0, p: p0.clone(), allow: None }] }, "directed_regex", false);
            emit(&mut sink, &mut env, &Case { nl, nr, inhibit: vec![], oov: vec![baseline_oov(), Oov::Mecab { lines: vec![(1, l, r, 0, p0.clone())], allow: None }] }, "directed_unk", false);
        }
        for (a, b) in [(nl as i128, 0i128), (0, nr as i128), (nl as i128 - 1, nr as i128 - 1), (nr as i128 - 1, nl as i128 - 1), (-1, 0), (0, -1), (32768, 0), (0, 0)] {
            emit(&mut sink, &mut env, &Case { nl, nr, inhibit: vec![vec![(a, b)]], oov: vec![baseline_oov()] }, "directed_inhibit", false);
        }
    }
    // every member of a list of pairs is checked, wherever it stands in the list as written or in sorted order (a bad pair
    // between two good ones, first, last; in the second instance of the plugin)
    for (nl, nr) in [(10i64, 10i64), (3, 2)] {
        let (g0, g2) = ((0i128, 0i128), (nl as i128 - 1, nr as i128 - 1));
        for bad in [(1i128, nr as i128), (1, -1), (1, 32768), (nl as i128, 0), (-1, nr as i128 - 1)] {
            for list in [vec![g0, bad, g2], vec![bad, g0, g2], vec![g0, g2, bad], vec![g2, bad, g0], vec![g0, g0, bad, g2, g2]] {
                emit(&mut sink, &mut env, &Case { nl, nr, inhibit: vec![list.clone()], oov: vec![baseline_oov()] }, "directed_inhibit_list", false);
            }
            emit(&mut sink, &mut env, &Case { nl, nr, inhibit: vec![vec![g0, g2], vec![g0, bad, g2]], oov: vec![baseline_oov()] }, "directed_inhibit_list", false);
        }
        emit(&mut sink, &mut env, &Case { nl, nr, inhibit: vec![vec![g0, (1, 0), g2]], oov: vec![baseline_oov()] }, "directed_inhibit_list", false);
    }
    emit(&mut sink, &mut env, &Case { nl: 32767, nr: 3, inhibit: vec![vec![(-1, 0)]], oov: vec![baseline_oov()] }, "directed_inhibit_wrap_big", false);
    emit(&mut sink, &mut env, &Case { nl: 3, nr: 3, inhibit: vec![], oov: vec![] }, "no_oov_provider", false);
    // POS present / absent x userPOS "allow" / "forbid" / not mentioned, for every provider kind
    for key in [0u64, 100] {
        for mode in [Some(true), Some(false), None] {
            let p = Pos { arity_ok: true, key };
            emit(&mut sink, &mut env, &Case { nl: 3, nr: 3, inhibit: vec![], oov: vec![Oov::Simple { l: 0, r: 0, c: 0, p: p.clone(), allow: mode }] }, "directed_pos_mode_simple", false);
            emit(&mut sink, &mut env, &Case { nl: 3, nr: 3, inhibit: vec![], oov: vec![Oov::Regex { l: 0, r: 0, c: 0, p: p.clone(), allow: mode }] }, "directed_pos_mode_regex", false);
            emit(&mut sink, &mut env, &Case { nl: 3, nr: 3, inhibit: vec![], oov: vec![baseline_oov(), Oov::Mecab { lines: vec![(1, 0, 0, 0, p.clone())], allow: mode }] }, "directed_pos_mode_unk", false);
        }
    }
    // ---- structured stream
    let n = args.n(700, 12000);
    for _ in 0..n {
        let (nl, nr) = dims(&mut rng, true);
        let what = rng.below(10);
        let mut case = Case { nl, nr, inhibit: vec![], oov: vec![] };
        let shape;
        if what < 6 {
            // OOV provider under test
            let kind = rng.below(3);
            let bad = if rng.chance(1, 4) { 0 } else { 1 + rng.below(4) };
            if kind == 2 || rng.chance(1, 3) {
                case.oov.push(baseline_oov());
            }
            case.oov.push(gen_oov(&mut rng, kind, nl, nr, bad));
            if rng.chance(1, 5) {
                let k2 = rng.below(3);
                case.oov.push(gen_oov(&mut rng, k2, nl, nr, 0));
            }
            shape = format!("{}_{}", ["simple", "regex", "unk"][kind as usize], ["all_good", "left_grid", "right_grid", "cost_grid", "pos_bad"][bad as usize]);
        } else {
            case.oov.push(baseline_oov());
            let ninst = 1 + rng.below(2) as usize;
            let bad = !rng.chance(1, 4);
            let bad_inst = rng.below(ninst as u64) as usize;
            for i in 0..ninst {
                let np = rng.below(4) as usize + if i == bad_inst { 1 } else { 0 };
                let bad_pair = rng.below(np.max(1) as u64) as usize;
                let mut ps = vec![];
                for j in 0..np {
                    if bad && i == bad_inst && j == bad_pair {
                        if rng.chance(1, 2) {
                            ps.push((grid(&mut rng, nl, nr), good(&mut rng, nr)));
                        } else {
                            ps.push((good(&mut rng, nl), grid(&mut rng, nr, nl)));
                        }
                    } else {
                        ps.push((good(&mut rng, nl), good(&mut rng, nr)));
                    }
                }
                case.inhibit.push(ps);
            }
            shape = if bad { "inhibit_member_grid".to_string() } else { "inhibit_all_good".to_string() };
        }
        emit(&mut sink, &mut env, &case, &shape, false);
    }
    // ---- malformed stream: several fields off at once
    for _ in 0..args.n(150, 2000) {
        let (nl, nr) = dims(&mut rng, false);
        let mut case = Case { nl, nr, inhibit: vec![], oov: vec![] };
        for _ in 0..(1 + rng.below(2)) {
            let kind = rng.below(3);
            let l = grid(&mut rng, nr, nl);
            let r = grid(&mut rng, nl, nr);
            let c = cost_grid(&mut rng);
            let badpos = rng.chance(1, 2);
            let (p, allow) = gen_pos(&mut rng, badpos);
            case.oov.push(match kind {
                0 => Oov::Simple { l, r, c, p, allow },
                1 => Oov::Regex { l, r, c, p, allow },
                _ => Oov::Mecab { lines: vec![(rng.below(6) as usize, l, r, c, p)], allow },
            });
        }
        if rng.chance(1, 2) {
            case.inhibit.push(vec![(grid(&mut rng, nl, nr), grid(&mut rng, nr, nl))]);
        }
        emit(&mut sink, &mut env, &case, "malformed_multi", false);
    }
    // ---- text layer of the MeCab OOV plugin: category definitions + unk.def as texts
    sink.shard_size = 60;
    text::run(&mut sink, &mut env, &mut rng, args.n(400, 6000));
    sink.finish();
}
