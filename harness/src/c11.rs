//! C11 — loading a subset of word fields never changes the fields that were requested.
//!
//! (a) word level: generated system / user dictionaries (and the same bytes re-labelled as a format without synonym
//!     ids); for a word and ALL 1024 requested subsets s the implementation's `LexiconSet::get_word_info_subset(id,
//!     s.normalize())` raw result is compared with the Coq model's, and every requested accessor with the full load.
//! (b) tokenizer level (implementation-side oracle): analyses with a random subset, modes and both orders of
//!     set_mode / set_subset against the full-field analysis: surfaces partition the input; boundaries and word ids
//!     equal when no path-rewrite plugin is configured or the subset holds surface, POS and normalised form; every
//!     requested accessor equal.  The subset the tokenizer ends up with is compared with the model's.
use crate::c05::{self, cblob, ctxt, Readback};
use crate::common::*;
use serde_json::{json, Value};
use std::collections::HashMap;
use sudachi::analysis::stateful_tokenizer::StatefulTokenizer;
use sudachi::analysis::stateless_tokenizer::DictionaryAccess;
use sudachi::analysis::Mode;
use sudachi::config::{Config, ConfigBuilder};
use sudachi::dic::dictionary::JapaneseDictionary;
use sudachi::dic::lexicon::word_infos::WordInfoData;
use sudachi::dic::subset::InfoSubset;
use sudachi::dic::word_id::WordId;
use sudachi::dic::{DictionaryLoader, LoadedDictionary};

fn raw_of(d: &WordInfoData) -> Readback {
    Readback::Ok {
        surface: d.surface.clone(),
        hwlen: d.head_word_length as usize,
        pos: d.pos_id,
        norm: d.normalized_form.clone(),
        dfwi: d.dictionary_form_word_id,
        dicform: d.dictionary_form.clone(),
        reading: d.reading_form.clone(),
        a: d.a_unit_split.iter().map(|w| w.as_raw()).collect(),
        b: d.b_unit_split.iter().map(|w| w.as_raw()).collect(),
        ws: d.word_structure.iter().map(|w| w.as_raw()).collect(),
        syn: d.synonym_group_ids.clone(),
        params: (0, 0, 0),
    }
}

/// accessor values of the flags in `s` (bit order of InfoSubset), as comparable strings
fn accessors(d: &D2, s: u32) -> Vec<String> {
    let mut v = vec![];
    let w = &d.0;
    if s & 1 != 0 {
        v.push(format!("surface={}", w.surface()));
    }
    if s & 2 != 0 {
        v.push(format!("hwlen={}", w.head_word_length()));
    }
    if s & 4 != 0 {
        v.push(format!("pos={}", w.pos_id()));
    }
    if s & 8 != 0 {
        v.push(format!("norm={}", w.normalized_form()));
    }
    if s & 16 != 0 {
        v.push(format!("dfwi={} dicform={}", w.dictionary_form_word_id(), w.dictionary_form()));
    }
    if s & 32 != 0 {
        v.push(format!("reading={}", w.reading_form()));
    }
    if s & 64 != 0 {
        v.push(format!("a={:?}", w.a_unit_split()));
    }
    if s & 128 != 0 {
        v.push(format!("b={:?}", w.b_unit_split()));
    }
    if s & 256 != 0 {
        v.push(format!("ws={:?}", w.word_structure()));
    }
    if s & 512 != 0 {
        v.push(format!("syn={:?}", w.synonym_group_ids()));
    }
    v
}
struct D2(sudachi::dic::lexicon::word_infos::WordInfo);

fn get<D: DictionaryAccess>(d: &D, wid: WordId, s: InfoSubset) -> Result<sudachi::dic::lexicon::word_infos::WordInfo, String> {
    match catch(|| d.lexicon().get_word_info_subset(wid, s).map_err(|e| format!("{:?}", e))) {
        Ok(r) => r,
        Err(p) => Err(format!("panic {}", p)),
    }
}

#[allow(clippy::too_many_arguments)]
fn word_case<D: DictionaryAccess>(
    sink: &mut Sink,
    d: &D,
    bytes: &[u8],
    has_syn: bool,
    dic: u8,
    nsys: usize,
    wid: u32,
    subsets: &[u32],
    desc: Value,
) {
    let id = WordId::new(dic, wid);
    let full = match get(d, id, InfoSubset::all()) {
        Ok(w) => w,
        Err(e) => {
            let c = sink.case_rust_only(desc, false);
            sink.fail(c, &format!("full load of word ({}, {}) failed: {}", dic, wid, e), "");
            return;
        }
    };
    let full2 = D2(full.clone());
    let full_raw = raw_of(full.borrow_data());
    let mut distinct: Vec<Readback> = vec![];
    let mut index: HashMap<String, usize> = HashMap::new();
    let mut pairs = vec![];
    let mut bad: Option<String> = None;
    for &s in subsets {
        let req = InfoSubset::from_bits_truncate(s);
        let loaded = req.normalize();
        let r = match get(d, id, loaded) {
            Ok(w) => {
                let got = accessors(&D2(w.clone()), s);
                let want = accessors(&full2, s);
                if got != want && bad.is_none() {
                    bad = Some(format!(
                        "word ({}, {}), requested subset {:#b} (loaded {:#b}): accessors {:?}, after a full load {:?}",
                        dic, wid, s, loaded.bits(), got, want
                    ));
                }
                raw_of(w.borrow_data())
            }
            Err(e) => {
                if bad.is_none() {
                    bad = Some(format!("word ({}, {}), requested subset {:#b}: {}", dic, wid, s, e));
                }
                Readback::Fail(e)
            }
        };
        let key = r.coq();
        let k = *index.entry(key).or_insert_with(|| {
            distinct.push(r.clone());
            distinct.len() - 1
        });
        pairs.push((s, k));
    }
    let sec = match c05::sections(bytes) {
        Some(s) => s,
        None => return,
    };
    let term = format!(
        "check_c11_word {} {} {} {} {} {} {} {} {} {}",
        cnu(sec.words_offset),
        cblob(sec.words),
        cbool(has_syn),
        cn(dic),
        cnu(nsys),
        cnu(nsys),
        cn(wid),
        full_raw.coq(),
        clist(distinct.iter().map(|r| r.coq())),
        clist(pairs.iter().map(|(s, k)| format!("({}, {})", cn(*s), cnu(*k))))
    );
    sink.tag(if has_syn { "dictionary_with_synonym_ids" } else { "dictionary_without_synonym_ids" });
    sink.tag(if dic == 0 { "system_word" } else { "user_word" });
    sink.tag(if subsets.len() == 1024 { "all_1024_subsets" } else { "sampled_subsets" });
    if let Readback::Ok { dfwi, .. } = &full_raw {
        sink.tag(if *dfwi < 0 || *dfwi as u32 == wid { "own_dictionary_form" } else { "dictionary_form_elsewhere" });
    }
    let c = sink.case(term, desc, true);
    if let Some(b) = bad {
        sink.fail(c, &b, "");
    }
}

fn all_subsets() -> Vec<u32> {
    (0..1024).collect()
}
fn sampled(rng: &mut Rng, n: usize) -> Vec<u32> {
    let mut v: Vec<u32> = vec![0, 1, 16, 8, 32, 64, 128, 512, 1023, 16 | 512];
    for _ in 0..n {
        v.push(rng.below(1024) as u32);
    }
    v
}

fn word_level(sink: &mut Sink, rng: &mut Rng, n_dicts: usize, exhaustive_words: usize) {
    let mut exhaustive_left = exhaustive_words;
    for k in 0..n_dicts {
        let st = rng.next();
        let user = k % 2 == 1;
        let mut r = Rng(st);
        let mut scratch = Sink::new("C11", &sink.dir.join("scratch"), &[], 0, "quick");
        let c = c05::gen_case(&mut r, &mut scratch, user, false, false);
        let sys_bytes = match c05::compile_system(&c.sys_csv, &c.matrix_text, c.time, &c.descr) {
            Ok(b) => b,
            Err(_) => continue,
        };
        let loaded: LoadedDictionary = match DictionaryLoader::read_system_dictionary(&sys_bytes).ok().and_then(|d| d.to_loaded()) {
            Some(l) => l,
            None => continue,
        };
        let nsys = loaded.grammar.pos_list.len();
        let desc = |wid: usize, kind: &str| json!({"kind": "c11-word", "rng": st, "user": user, "word": wid, "variant": kind, "csv": if c.sys_csv.len() < 1200 { c.sys_csv.clone() } else { String::new() }, "user_csv": if c.user_csv.len() < 1200 { c.user_csv.clone() } else { String::new() }});
        if !user {
            for wid in 0..c.sys.rows.len() {
                let subs = if exhaustive_left > 0 && wid < 2 {
                    exhaustive_left -= 1;
                    all_subsets()
                } else {
                    sampled(rng, 30)
                };
                word_case(sink, &loaded, &sys_bytes, true, 0, nsys, wid as u32, &subs, desc(wid, "system"));
            }
            // the same dictionary labelled as the first system format: no synonym group ids
            let mut v1 = sys_bytes.clone();
            v1[..8].copy_from_slice(&0x7366d3f18bd111e7u64.to_le_bytes());
            if let Some(l1) = DictionaryLoader::read_system_dictionary(&v1).ok().and_then(|d| d.to_loaded()) {
                for wid in 0..c.sys.rows.len().min(2) {
                    let subs = if exhaustive_left > 0 && wid == 0 {
                        exhaustive_left -= 1;
                        all_subsets()
                    } else {
                        sampled(rng, 30)
                    };
                    word_case(sink, &l1, &v1, false, 0, nsys, wid as u32, &subs, desc(wid, "system-v1"));
                }
            }
        } else if let Some(u) = &c.user {
            let ub = match c05::compile_user(&loaded, &c.user_csv, c.time, &c.descr) {
                Ok(b) => b,
                Err(_) => continue,
            };
            let jd = match c05::load_with_user(sys_bytes.clone(), vec![ub.clone()]) {
                Ok(d) => d,
                Err(_) => continue,
            };
            for wid in 0..u.rows.len() {
                let subs = if exhaustive_left > 0 && wid < 2 {
                    exhaustive_left -= 1;
                    all_subsets()
                } else {
                    sampled(rng, 30)
                };
                word_case(sink, &jd, &ub, true, 1, nsys, wid as u32, &subs, desc(wid, "user"));
            }
        }
    }
}

// ---------------------------------------------------------------- tokenizer level
fn config(rewrite: bool) -> Config {
    let res = c05::resources();
    let j = json!({
        "path": res,
        "systemDict": "system.dic.test",
        "userDict": ["user.dic.test"],
        "characterDefinitionFile": "char.def",
        "inputTextPlugin": [{"class": "com.worksap.nlp.sudachi.DefaultInputTextPlugin"}],
        "oovProviderPlugin": [{"class": "com.worksap.nlp.sudachi.SimpleOovPlugin", "oovPOS": ["名詞", "普通名詞", "一般", "*", "*", "*"], "leftId": 8, "rightId": 8, "cost": 6000}],
        "pathRewritePlugin": if rewrite { json!([
            {"class": "com.worksap.nlp.sudachi.JoinNumericPlugin", "enableNormalize": true},
            {"class": "com.worksap.nlp.sudachi.JoinKatakanaOovPlugin", "oovPOS": ["名詞", "普通名詞", "一般", "*", "*", "*"], "minLength": 3}]) } else { json!([]) }
    });
    ConfigBuilder::from_bytes(j.to_string().as_bytes()).unwrap().build()
}
fn mode_of(k: u64) -> Mode {
    match k {
        0 => Mode::A,
        1 => Mode::B,
        _ => Mode::C,
    }
}
#[derive(PartialEq, Debug, Clone)]
struct Tok {
    begin: usize,
    end: usize,
    surface: String,
    wid: u32,
    acc: Vec<String>,
}
/// analyse; `order`: 0 = set_mode then set_subset, 1 = set_subset then set_mode; None subset = all fields
fn analyse(dict: &JapaneseDictionary, text: &str, m0: Mode, m: Mode, subset: Option<u32>, order: u8, req: u32) -> Result<(Vec<Tok>, u32), String> {
    match catch(|| {
        let mut tok = StatefulTokenizer::new(dict, m0);
        match subset {
            Some(s) => {
                let sub = InfoSubset::from_bits_truncate(s);
                if order == 0 {
                    tok.set_mode(m);
                    tok.set_subset(sub);
                } else {
                    tok.set_subset(sub);
                    tok.set_mode(m);
                }
            }
            None => {
                tok.set_mode(m);
            }
        }
        // read the tokenizer's subset back (set_subset returns the previous one) and restore it unchanged
        let cur = tok.set_subset(InfoSubset::all());
        let cur_bits = cur.bits();
        // restoring through set_subset would re-normalise; analyse with a fresh tokenizer configured the same way
        let mut tok = StatefulTokenizer::new(dict, m0);
        match subset {
            Some(s) => {
                let sub = InfoSubset::from_bits_truncate(s);
                if order == 0 {
                    tok.set_mode(m);
                    tok.set_subset(sub);
                } else {
                    tok.set_subset(sub);
                    tok.set_mode(m);
                }
            }
            None => {
                tok.set_mode(m);
            }
        }
        tok.reset().push_str(text);
        tok.do_tokenize().map_err(|e| format!("{:?}", e))?;
        let ml = tok.into_morpheme_list().map_err(|e| format!("{:?}", e))?;
        let mut out = vec![];
        for i in 0..ml.len() {
            let mo = ml.get(i);
            out.push(Tok {
                begin: mo.begin(),
                end: mo.end(),
                surface: mo.surface().to_string(),
                wid: mo.word_id().as_raw(),
                acc: accessors(&D2(mo.get_word_info().clone()), req & !1 & !2),
            });
        }
        Ok::<(Vec<Tok>, u32), String>((out, cur_bits))
    }) {
        Ok(r) => r,
        Err(p) => Err(format!("panic {}", p)),
    }
}

fn tokenizer_level(sink: &mut Sink, rng: &mut Rng, n: usize) {
    let dicts: Vec<(bool, JapaneseDictionary)> = [false, true]
        .iter()
        .filter_map(|rw| JapaneseDictionary::from_cfg(&config(*rw)).ok().map(|d| (*rw, d)))
        .collect();
    if dicts.len() != 2 {
        let c = sink.case_rust_only(json!({"kind": "c11-tok-setup"}), false);
        sink.fail(c, "cannot load the shipped test dictionaries", "");
        return;
    }
    let pieces = ["東京都", "京都", "東京", "に", "行く", "行った", "高輪ゲートウェイ駅", "特急はくたか", "いく", "いった", "123", "三千円", "アイウエオ", "abc", "ｱｲｳ", " ", "。", "ぴらる", "魔法", "東", "都", "くに", "東京府", "ａ"];
    for k in 0..n {
        let (rewrite, dict) = &dicts[k % 2];
        let np = 1 + rng.below(4) as usize;
        let text: String = (0..np).map(|_| *rng.pick(&pieces)).collect();
        let s = match rng.below(6) {
            0 => 0,
            1 => 16,
            2 => 1 | 4 | 8,
            _ => rng.below(1024) as u32,
        };
        let (m0, m) = (rng.below(3), rng.below(3));
        let desc = json!({"kind": "c11-tok", "text": text, "subset": s, "m0": m0, "m": m, "rewrite": rewrite});
        let full = analyse(dict, &text, mode_of(m0), mode_of(m), None, 0, s);
        let r0 = analyse(dict, &text, mode_of(m0), mode_of(m), Some(s), 0, s);
        let r1 = analyse(dict, &text, mode_of(m0), mode_of(m), Some(s), 1, s);
        let (full, r0, r1) = match (full, r0, r1) {
            (Ok(a), Ok(b), Ok(c)) => (a, b, c),
            (a, b, c) => {
                // an analysis that fails with all fields fails for reasons outside C11; one that fails only with a subset is ours
                let c_id = sink.case_rust_only(desc, false);
                if a.is_ok() {
                    sink.fail(c_id, &format!("analysis fails only when a subset is loaded: {:?} / {:?}", b.err(), c.err()), "");
                }
                continue;
            }
        };
        let term = format!("check_c11_order {} {} {} {} {}", cn(m0), cn(m), cn(s), cn(r0.1), cn(r1.1));
        let mut bad: Option<String> = None;
        let same_needed = !*rewrite || (s & 13) == 13;
        for (name, r) in [("set_mode;set_subset", &r0.0), ("set_subset;set_mode", &r1.0)] {
            let cat: String = r.iter().map(|t| t.surface.as_str()).collect();
            let contiguous = r.windows(2).all(|w| w[0].end == w[1].begin) && r.first().map(|t| t.begin == 0).unwrap_or(text.is_empty()) && r.last().map(|t| t.end == text.len()).unwrap_or(true);
            if cat != text || !contiguous {
                bad = Some(format!("{}: surfaces {:?} do not partition {:?}", name, r.iter().map(|t| &t.surface).collect::<Vec<_>>(), text));
            }
            if same_needed {
                let b1: Vec<_> = r.iter().map(|t| (t.begin, t.end, t.wid)).collect();
                let b2: Vec<_> = full.0.iter().map(|t| (t.begin, t.end, t.wid)).collect();
                if b1 != b2 {
                    bad = Some(format!("{}: boundaries / word ids {:?}, full-field analysis {:?}", name, b1, b2));
                } else {
                    for (x, y) in r.iter().zip(full.0.iter()) {
                        if x.acc != y.acc && x.wid >> 28 != 0xf {
                            bad = Some(format!("{}: token {:?}: requested accessors {:?}, full-field analysis {:?}", name, x.surface, x.acc, y.acc));
                        }
                    }
                }
            }
        }
        sink.tag(if *rewrite { "tok_with_path_rewrite" } else { "tok_without_path_rewrite" });
        sink.tag(if same_needed { "tok_boundaries_compared" } else { "tok_partition_only" });
        let c_id = sink.case(term, desc, true);
        if let Some(b) = bad {
            sink.fail(c_id, &b, "");
        }
    }
}

pub fn run(args: &Args) {
    let mut sink = Sink::new("C11", &args.out, &["Model.Codec", "Model.CodecIO", "Model.CodecCheck"], args.seed, &args.tier);
    sink.shard_size = 12;
    sink.rule("(a) words of generated system and user dictionaries (strings across the 127/128 prefix boundary, astral characters, forms empty / equal / different, arrays of 0..127 ids, own and foreign dictionary forms, with synonym ids and re-labelled as the format without) x ALL 1024 requested subsets for some words and 40 sampled subsets (always incl. {}, {SURFACE}, {DIC_FORM_WORD_ID}, {NORMALIZED_FORM}, {READING_FORM}, splits, all) for the others: raw WordInfoData of get_word_info_subset(normalize s) vs model, requested accessors vs full load; (b) analyses of texts over the shipped test dictionaries (system+user) with/without path-rewrite plugins x random subset x initial mode x mode x both orders of set_mode/set_subset vs the full-field analysis, and the tokenizer's resulting subset vs model; every case non-trivial; distinct by generated Coq term");
    let mut rng = Rng::new(args.seed);
    if let Some(p) = &args.replay {
        let v: Value = serde_json::from_str(&std::fs::read_to_string(p).unwrap()).unwrap();
        let case = &v["case"];
        if case["kind"] == "c11-tok" {
            let rw = case["rewrite"].as_bool().unwrap();
            let dict = JapaneseDictionary::from_cfg(&config(rw)).unwrap();
            let (text, s, m0, m) = (case["text"].as_str().unwrap(), case["subset"].as_u64().unwrap() as u32, case["m0"].as_u64().unwrap(), case["m"].as_u64().unwrap());
            println!("text {:?} subset {:#b} initial mode {} mode {} path-rewrite plugins {}", text, s, m0, m, rw);
            println!("full fields        : {:?}", analyse(&dict, text, mode_of(m0), mode_of(m), None, 0, s));
            println!("set_mode;set_subset: {:?}", analyse(&dict, text, mode_of(m0), mode_of(m), Some(s), 0, s));
            println!("set_subset;set_mode: {:?}", analyse(&dict, text, mode_of(m0), mode_of(m), Some(s), 1, s));
        } else if case["kind"] == "c11-word" {
            // regenerate the dictionary from the recorded generator state and show the word for the subsets that differ
            let st = case["rng"].as_u64().unwrap();
            let user = case["user"].as_bool().unwrap();
            let mut r = Rng(st);
            let mut scratch = Sink::new("C11", &args.out.join("scratch"), &[], 0, "quick");
            let c = c05::gen_case(&mut r, &mut scratch, user, false, false);
            println!("system csv:\n{}user csv:\n{}", c.sys_csv, c.user_csv);
            let sys_bytes = c05::compile_system(&c.sys_csv, &c.matrix_text, c.time, &c.descr).unwrap();
            let loaded = DictionaryLoader::read_system_dictionary(&sys_bytes).unwrap().to_loaded().unwrap();
            let wid = case["word"].as_u64().unwrap() as u32;
            let show = |d: &dyn Fn(InfoSubset) -> Result<sudachi::dic::lexicon::word_infos::WordInfo, String>| {
                let full = d(InfoSubset::all());
                println!("full load: {:?}", full.as_ref().map(|w| accessors(&D2(w.clone()), 1023)));
                for s in 0..1024u32 {
                    let got = d(InfoSubset::from_bits_truncate(s).normalize()).map(|w| accessors(&D2(w), s));
                    let want = full.clone().map(|w| accessors(&D2(w), s));
                    if got != want {
                        println!("subset {:#012b}: {:?}   full: {:?}", s, got, want);
                    }
                }
            };
            if user {
                let ub = c05::compile_user(&loaded, &c.user_csv, c.time, &c.descr).unwrap();
                let jd = c05::load_with_user(sys_bytes.clone(), vec![ub]).unwrap();
                show(&|s| get(&jd, WordId::new(1, wid), s));
            } else {
                show(&|s| get(&loaded, WordId::new(0, wid), s));
            }
        }
        sink.finish();
        return;
    }
    word_level(&mut sink, &mut rng, args.n(26, 300), args.n(40, 400));
    tokenizer_level(&mut sink, &mut rng, args.n(600, 8000));
    sink.finish();
}
