//! C11 — loading a subset of word fields never changes the fields that were requested.
//!
//! (a) word level: generated system / user dictionaries (and the same bytes re-labelled as a format without synonym
//!     ids); for a word and ALL 1024 requested subsets s the implementation's `LexiconSet::get_word_info_subset(id,
//!     s.normalize())` raw result is compared with the Coq model's, and every requested accessor with the full load.
//! (b) tokenizer level (implementation-side oracle): analyses with a random subset, modes and both orders of
//!     set_mode / set_subset against the full-field analysis: surfaces partition the input; boundaries and word ids
//!     equal when no path-rewrite plugin is configured or the subset holds surface, POS and normalised form; every
//!     requested accessor equal.  The subset the tokenizer ends up with is compared with the model's.
use crate::c05::{self, cblob, ctxt, Readback};
use crate::common::*;
use serde_json::{json, Value};
use std::collections::HashMap;
use sudachi::analysis::stateful_tokenizer::StatefulTokenizer;
use sudachi::analysis::stateless_tokenizer::DictionaryAccess;
use sudachi::analysis::Mode;
use sudachi::config::{Config, ConfigBuilder};
use sudachi::dic::dictionary::JapaneseDictionary;
use sudachi::dic::lexicon::word_infos::WordInfoData;
use sudachi::dic::subset::InfoSubset;
use sudachi::dic::word_id::WordId;
use sudachi::dic::{DictionaryLoader, LoadedDictionary};

fn raw_of(d: &WordInfoData) -> Readback {
    Readback::Ok {
        surface: d.surface.clone(),
        hwlen: d.head_word_length as usize,
        pos: d.pos_id,
        norm: d.normalized_form.clone(),
        dfwi: d.dictionary_form_word_id,
        dicform: d.dictionary_form.clone(),
        reading: d.reading_form.clone(),
        a: d.a_unit_split.iter().map(|w| w.as_raw()).collect(),
        b: d.b_unit_split.iter().map(|w| w.as_raw()).collect(),
        ws: d.word_structure.iter().map(|w| w.as_raw()).collect(),
        syn: d.synonym_group_ids.clone(),
        params: (0, 0, 0),
    }
}

/// accessor values of the flags in `s` (bit order of InfoSubset), as comparable strings
fn accessors(d: &D2, s: u32) -> Vec<String> {
    let mut v = vec![];
    let w = &d.0;
    if s & 1 != 0 {
        v.push(format!("surface={}", w.surface()));
    }
    if s & 2 != 0 {
        v.push(format!("hwlen={}", w.head_word_length()));
    }
    if s & 4 != 0 {
        v.push(format!("pos={}", w.pos_id()));
    }
    if s & 8 != 0 {
        v.push(format!("norm={}", w.normalized_form()));
    }
    if s & 16 != 0 {
        v.push(format!("dfwi={} dicform={}", w.dictionary_form_word_id(), w.dictionary_form()));
    }
    if s & 32 != 0 {
        v.push(format!("reading={}", w.reading_form()));
    }
    if s & 64 != 0 {
        v.push(format!("a={:?}", w.a_unit_split()));
    }
    if s & 128 != 0 {
        v.push(format!("b={:?}", w.b_unit_split()));
    }
    if s & 256 != 0 {
        v.push(format!("ws={:?}", w.word_structure()));
    }
    if s & 512 != 0 {
        v.push(format!("syn={:?}", w.synonym_group_ids()));
    }
    v
}
struct D2(sudachi::dic::lexicon::word_infos::WordInfo);

fn get<D: DictionaryAccess>(d: &D, wid: WordId, s: InfoSubset) -> Result<sudachi::dic::lexicon::word_infos::WordInfo, String> {
    match catch(|| d.lexicon().get_word_info_subset(wid, s).map_err(|e| format!("{:?}", e))) {
        Ok(r) => r,
        Err(p) => Err(format!("panic {}", p)),
    }
}

#[allow(clippy::too_many_arguments)]
fn word_case<D: DictionaryAccess>(
    sink: &mut Sink,
    d: &D,
    bytes: &[u8],
    has_syn: bool,
    dic: u8,
    nsys: usize,
    pos_offset: usize,
    wid: u32,
    subsets: &[u32],
    desc: Value,
) {
    let id = WordId::new(dic, wid);
    let full = match get(d, id, InfoSubset::all()) {
        Ok(w) => w,
        Err(e) => {
            let c = sink.case_rust_only(desc, false);
            sink.fail(c, &format!("full load of word ({}, {}) failed: {}", dic, wid, e), "");
            return;
        }
    };
    let full2 = D2(full.clone());
    let full_raw = raw_of(full.borrow_data());
    let mut distinct: Vec<Readback> = vec![];
    let mut index: HashMap<String, usize> = HashMap::new();
    let mut pairs = vec![];
    let mut bad: Option<String> = None;
    for &s in subsets {
        let req = InfoSubset::from_bits_truncate(s);
        let loaded = req.normalize();
        let r = match get(d, id, loaded) {
            Ok(w) => {
                let got = accessors(&D2(w.clone()), s);
                let want = accessors(&full2, s);
                if got != want && bad.is_none() {
                    bad = Some(format!(
                        "word ({}, {}), requested subset {:#b} (loaded {:#b}): accessors {:?}, after a full load {:?}",
                        dic, wid, s, loaded.bits(), got, want
                    ));
                }
                raw_of(w.borrow_data())
            }
            Err(e) => {
                if bad.is_none() {
                    bad = Some(format!("word ({}, {}), requested subset {:#b}: {}", dic, wid, s, e));
                }
                Readback::Fail(e)
            }
        };
        let key = r.coq();
        let k = *index.entry(key).or_insert_with(|| {
            distinct.push(r.clone());
            distinct.len() - 1
        });
        pairs.push((s, k));
    }
    let sec = match c05::sections(bytes) {
        Some(s) => s,
        None => return,
    };
    let term = format!(
        "check_c11_word {} {} {} {} {} {} {} {} {} {}",
        cnu(sec.words_offset),
        cblob(sec.words),
        cbool(has_syn),
        cn(dic),
        cnu(nsys),
        cnu(pos_offset),
        cn(wid),
        full_raw.coq(),
        clist(distinct.iter().map(|r| r.coq())),
        clist(pairs.iter().map(|(s, k)| format!("({}, {})", cn(*s), cnu(*k))))
    );
    sink.tag(if has_syn { "dictionary_with_synonym_ids" } else { "dictionary_without_synonym_ids" });
    sink.tag(match dic {
        0 => "system_word",
        1 => "user_word_dictionary_1",
        _ => "user_word_dictionary_2",
    });
    if let Readback::Ok { a, b, ws, .. } = &full_raw {
        if dic > 1 && a.iter().chain(b.iter()).chain(ws.iter()).any(|w| w >> 28 != 0) {
            sink.tag("user_word_dictionary_2_refers_to_user_word");
        }
    }
    sink.tag(if subsets.len() == 1024 { "all_1024_subsets" } else { "sampled_subsets" });
    if let Readback::Ok { dfwi, .. } = &full_raw {
        sink.tag(if *dfwi < 0 || *dfwi as u32 == wid { "own_dictionary_form" } else { "dictionary_form_elsewhere" });
    }
    let c = sink.case(term, desc, true);
    if let Some(b) = bad {
        sink.fail(c, &b, "");
    }
}

fn all_subsets() -> Vec<u32> {
    (0..1024).collect()
}
fn sampled(rng: &mut Rng, n: usize) -> Vec<u32> {
    let mut v: Vec<u32> = vec![0, 1, 16, 8, 32, 64, 128, 512, 1023, 16 | 512];
    for _ in 0..n {
        v.push(rng.below(1024) as u32);
    }
    v
}

/// system lexicon + (for `user`) two user lexicons compiled against it; everything derives from the generator state
struct Stack {
    c: c05::Case,
    u2: Option<(c05::Lex, String)>,
}
fn gen_stack(st: u64, user: bool, special: Option<usize>, scratch_dir: &std::path::Path) -> Stack {
    let mut r = Rng(st);
    let mut scratch = Sink::new("C11", &scratch_dir.join("scratch"), &[], 0, "quick");
    // the case generator of C05 makes the second user lexicon (U-references that differ between split A, split B and word
    // structure) as part of every user case
    let c = c05::gen_case_with(&mut r, &mut scratch, user, false, false, special);
    let u2 = c.user2.clone().map(|l| (l, c.user2_csv.clone()));
    Stack { c, u2 }
}

struct LoadedStack {
    sys_bytes: Vec<u8>,
    loaded_nsys: usize,
    u1: Vec<u8>,
    u2: Vec<u8>,
    pos_offset_2: usize,
    jd: JapaneseDictionary,
}
fn load_stack(stk: &Stack) -> Option<LoadedStack> {
    let c = &stk.c;
    let sys_bytes = c05::compile_system(&c.sys_csv, &c.matrix_text, c.time, &c.descr).ok()?;
    let loaded: LoadedDictionary = DictionaryLoader::read_system_dictionary(&sys_bytes).ok().and_then(|d| d.to_loaded())?;
    let nsys = loaded.grammar.pos_list.len();
    let u1 = c05::compile_user(&loaded, &c.user_csv, c.time, &c.descr).ok()?;
    let (_, csv2) = stk.u2.as_ref()?;
    let u2 = c05::compile_user(&loaded, csv2, c.time, &c.descr).ok()?;
    // POS of the second user dictionary are re-based behind those the first one added
    let sys_exp = c05::expect(&c.sys, &c.pool, None)?;
    let e1 = c05::expect(c.user.as_ref()?, &c.pool, Some((&c.sys, &sys_exp)))?;
    let jd = c05::load_with_user(sys_bytes.clone(), vec![u1.clone(), u2.clone()]).ok()?;
    Some(LoadedStack { sys_bytes, loaded_nsys: nsys, u1, u2, pos_offset_2: nsys + e1.new_pos.len(), jd })
}

fn word_level(sink: &mut Sink, rng: &mut Rng, n_dicts: usize, exhaustive_words: usize) {
    let mut exhaustive_left = exhaustive_words;
    // first, whatever the seed: the directed lexicons of C05 whose split A / split B / word structure / synonym arrays have
    // 0, 1, 63, 64, 65, 127 items in rotating positions (as a system lexicon, and as the first user lexicon of a stack)
    let directed = c05::ARRAY_VARIANTS;
    for k0 in 0..directed + n_dicts {
        let special = if k0 < directed { Some(c05::ARRAYS_BASE + k0) } else { None };
        let k = if k0 < directed { k0 } else { k0 - directed };
        let st = rng.next();
        let user = k % 2 == 1;
        let stk = gen_stack(st, user, special, &sink.dir.clone());
        let c = &stk.c;
        let desc = |dic: u8, wid: usize, kind: &str| json!({"kind": "c11-word", "rng": st, "user": user, "special": special, "dic": dic, "word": wid, "variant": kind, "csv": if c.sys_csv.len() < 1200 { c.sys_csv.clone() } else { String::new() }, "user_csv": if c.user_csv.len() < 1200 { c.user_csv.clone() } else { String::new() },
            "user2_csv": stk.u2.as_ref().map(|x| if x.1.len() < 1200 { x.1.clone() } else { String::new() }).unwrap_or_default()});
        if !user {
            let sys_bytes = match c05::compile_system(&c.sys_csv, &c.matrix_text, c.time, &c.descr) {
                Ok(b) => b,
                Err(_) => continue,
            };
            let loaded: LoadedDictionary = match DictionaryLoader::read_system_dictionary(&sys_bytes).ok().and_then(|d| d.to_loaded()) {
                Some(l) => l,
                None => continue,
            };
            let nsys = loaded.grammar.pos_list.len();
            for wid in 0..c.sys.rows.len() {
                let subs = if exhaustive_left > 0 && wid < 2 {
                    exhaustive_left -= 1;
                    all_subsets()
                } else {
                    sampled(rng, 30)
                };
                word_case(sink, &loaded, &sys_bytes, true, 0, nsys, nsys, wid as u32, &subs, desc(0, wid, "system"));
            }
            // the same dictionary labelled as the first system format: no synonym group ids
            let mut v1 = sys_bytes.clone();
            v1[..8].copy_from_slice(&0x7366d3f18bd111e7u64.to_le_bytes());
            if let Some(l1) = DictionaryLoader::read_system_dictionary(&v1).ok().and_then(|d| d.to_loaded()) {
                for wid in 0..c.sys.rows.len().min(2) {
                    let subs = if exhaustive_left > 0 && wid == 0 {
                        exhaustive_left -= 1;
                        all_subsets()
                    } else {
                        sampled(rng, 30)
                    };
                    word_case(sink, &l1, &v1, false, 0, nsys, nsys, wid as u32, &subs, desc(0, wid, "system-v1"));
                }
            }
        } else {
            // system + two user dictionaries: the words of the SECOND one have their POS ids and their references to
            // user words re-based by LexiconSet (for the first one re-stamping to dictionary 1 changes nothing)
            let ls = match load_stack(&stk) {
                Some(l) => l,
                None => continue,
            };
            let _ = &ls.sys_bytes;
            let n1 = c.user.as_ref().map(|u| u.rows.len()).unwrap_or(0);
            for wid in 0..(if special.is_some() { n1 } else { n1.min(2) }) {
                word_case(sink, &ls.jd, &ls.u1, true, 1, ls.loaded_nsys, ls.loaded_nsys, wid as u32, &sampled(rng, 30), desc(1, wid, "user-1"));
            }
            let n2 = stk.u2.as_ref().map(|u| u.0.rows.len()).unwrap_or(0);
            for wid in 0..n2 {
                let subs = if exhaustive_left > 0 && wid < 2 {
                    exhaustive_left -= 1;
                    all_subsets()
                } else {
                    sampled(rng, 30)
                };
                word_case(sink, &ls.jd, &ls.u2, true, 2, ls.loaded_nsys, ls.pos_offset_2, wid as u32, &subs, desc(2, wid, "user-2"));
            }
        }
    }
}

// ---------------------------------------------------------------- tokenizer level
fn config(rewrite: bool) -> Config {
    let res = c05::resources();
    let j = json!({
        "path": res,
        "characterDefinitionFile": "char.def",
        "inputTextPlugin": [{"class": "com.worksap.nlp.sudachi.DefaultInputTextPlugin"}],
        "oovProviderPlugin": [{"class": "com.worksap.nlp.sudachi.SimpleOovPlugin", "oovPOS": ["名詞", "普通名詞", "一般", "*", "*", "*"], "leftId": 8, "rightId": 8, "cost": 6000}],
        "pathRewritePlugin": if rewrite { json!([
            {"class": "com.worksap.nlp.sudachi.JoinNumericPlugin", "enableNormalize": true},
            {"class": "com.worksap.nlp.sudachi.JoinKatakanaOovPlugin", "oovPOS": ["名詞", "普通名詞", "一般", "*", "*", "*"], "minLength": 3}]) } else { json!([]) }
    });
    ConfigBuilder::from_bytes(j.to_string().as_bytes()).unwrap().build()
}
/// the shipped system dictionary with TWO user dictionaries on top, compiled here from the shipped CSVs: user2.csv as
/// dictionary 1 and user1.csv as dictionary 2, so that 東京府 (splits `5/U1`: a system word and a user word) and its
/// references live in a dictionary whose references LexiconSet must re-stamp
/// ids of lex.csv: 1 に, 3 京都, 5 東京, 6 東京都, 9 都
const NESTED_SPLITS_CSV: &str = "東京都京都,6,6,-2000,東京都京都,名詞,固有名詞,地名,一般,*,*,トウキョウトキョウト,東京都京都,*,C,5/9/3,6/3,*,*\n\
東京都京都に,6,6,-4000,東京都京都に,名詞,固有名詞,地名,一般,*,*,トウキョウトキョウトニ,東京都京都に,*,C,5/9/3/1,U0/1,U0/1,*\n\
京都東京,6,6,-2000,京都東京,名詞,固有名詞,地名,一般,*,*,キョウトトウキョウ,京都東京,*,B,3/5,*,*,7\n";
fn shipped_stack(rewrite: bool) -> Result<JapaneseDictionary, String> {
    let res = c05::resources();
    let sys = std::fs::read(format!("{}/system.dic.test", res)).map_err(|e| e.to_string())?;
    let loaded = DictionaryLoader::read_system_dictionary(&sys).map_err(|e| format!("{:?}", e))?.to_loaded().ok_or("no grammar")?;
    let mut users = vec![];
    for f in ["user2.csv", "user1.csv"] {
        let csv = std::fs::read_to_string(format!("{}/{}", res, f)).map_err(|e| e.to_string())?;
        users.push(c05::compile_user(&loaded, &csv, 0, "")?);
    }
    // the shipped lexicons have A splits only (東京都, 東京府): a third user dictionary with words that split differently in
    // mode A and mode B, into system words and into its own words
    users.push(c05::compile_user(&loaded, NESTED_SPLITS_CSV, 0, "")?);
    match catch(|| {
        let mut st = sudachi::dic::storage::SudachiDicData::new(sudachi::dic::storage::Storage::Owned(sys.clone()));
        for u in users {
            st.add_user(sudachi::dic::storage::Storage::Owned(u));
        }
        JapaneseDictionary::from_cfg_storage(&config(rewrite), st).map_err(|e| format!("{:?}", e))
    }) {
        Ok(r) => r,
        Err(p) => Err(format!("panic {}", p)),
    }
}
fn mode_of(k: u64) -> Mode {
    match k {
        0 => Mode::A,
        1 => Mode::B,
        _ => Mode::C,
    }
}
#[derive(PartialEq, Debug, Clone)]
struct Tok {
    begin: usize,
    end: usize,
    surface: String,
    wid: u32,
    acc: Vec<String>,
}
/// analyse; `order`: 0 = set_mode then set_subset, 1 = set_subset then set_mode; None subset = all fields
fn analyse(dict: &JapaneseDictionary, text: &str, m0: Mode, m: Mode, subset: Option<u32>, order: u8, req: u32) -> Result<(Vec<Tok>, u32), String> {
    match catch(|| {
        let mut tok = StatefulTokenizer::new(dict, m0);
        match subset {
            Some(s) => {
                let sub = InfoSubset::from_bits_truncate(s);
                if order == 0 {
                    tok.set_mode(m);
                    tok.set_subset(sub);
                } else {
                    tok.set_subset(sub);
                    tok.set_mode(m);
                }
            }
            None => {
                tok.set_mode(m);
            }
        }
        // read the tokenizer's subset back (set_subset returns the previous one) and restore it unchanged
        let cur = tok.set_subset(InfoSubset::all());
        let cur_bits = cur.bits();
        // restoring through set_subset would re-normalise; analyse with a fresh tokenizer configured the same way
        let mut tok = StatefulTokenizer::new(dict, m0);
        match subset {
            Some(s) => {
                let sub = InfoSubset::from_bits_truncate(s);
                if order == 0 {
                    tok.set_mode(m);
                    tok.set_subset(sub);
                } else {
                    tok.set_subset(sub);
                    tok.set_mode(m);
                }
            }
            None => {
                tok.set_mode(m);
            }
        }
        tok.reset().push_str(text);
        tok.do_tokenize().map_err(|e| format!("{:?}", e))?;
        let ml = tok.into_morpheme_list().map_err(|e| format!("{:?}", e))?;
        let mut out = vec![];
        for i in 0..ml.len() {
            let mo = ml.get(i);
            out.push(Tok {
                begin: mo.begin(),
                end: mo.end(),
                surface: mo.surface().to_string(),
                wid: mo.word_id().as_raw(),
                acc: accessors(&D2(mo.get_word_info().clone()), req & !1 & !2),
            });
        }
        Ok::<(Vec<Tok>, u32), String>((out, cur_bits))
    }) {
        Ok(r) => r,
        Err(p) => Err(format!("panic {}", p)),
    }
}

fn tokenizer_level(sink: &mut Sink, rng: &mut Rng, n: usize) {
    let dicts: Vec<(bool, JapaneseDictionary)> = [false, true]
        .iter()
        .filter_map(|rw| shipped_stack(*rw).ok().map(|d| (*rw, d)))
        .collect();
    if dicts.len() != 2 {
        let c = sink.case_rust_only(json!({"kind": "c11-tok-setup"}), false);
        sink.fail(c, "cannot load the shipped test dictionaries", "");
        return;
    }
    let pieces = ["東京都", "京都", "東京", "に", "行く", "行った", "高輪ゲートウェイ駅", "特急はくたか", "いく", "いった", "123", "三千円", "アイウエオ", "abc", "ｱｲｳ", " ", "。", "ぴらる", "魔法", "東", "都", "くに", "東京府", "ａ", "東京府", "府", "すだち", "かぼす", "ぴさる", "東京都京都", "東京都京都に", "京都東京"];
    for k in 0..n {
        let (rewrite, dict) = &dicts[k % 2];
        let np = 1 + rng.below(4) as usize;
        let text: String = (0..np).map(|_| *rng.pick(&pieces)).collect();
        let s = match rng.below(6) {
            0 => 0,
            1 => 16,
            2 => 1 | 4 | 8,
            _ => rng.below(1024) as u32,
        };
        let (m0, m) = (rng.below(3), rng.below(3));
        let desc = json!({"kind": "c11-tok", "text": text, "subset": s, "m0": m0, "m": m, "rewrite": rewrite});
        let full = analyse(dict, &text, mode_of(m0), mode_of(m), None, 0, s);
        let r0 = analyse(dict, &text, mode_of(m0), mode_of(m), Some(s), 0, s);
        let r1 = analyse(dict, &text, mode_of(m0), mode_of(m), Some(s), 1, s);
        let (full, r0, r1) = match (full, r0, r1) {
            (Ok(a), Ok(b), Ok(c)) => (a, b, c),
            (a, b, c) => {
                // an analysis that fails with all fields fails for reasons outside C11; one that fails only with a subset is ours
                let c_id = sink.case_rust_only(desc, false);
                if a.is_ok() {
                    sink.fail(c_id, &format!("analysis fails only when a subset is loaded: {:?} / {:?}", b.err(), c.err()), "");
                }
                continue;
            }
        };
        let term = format!("check_c11_order {} {} {} {} {}", cn(m0), cn(m), cn(s), cn(r0.1), cn(r1.1));
        let mut bad: Option<String> = None;
        let same_needed = !*rewrite || (s & 13) == 13;
        for (name, r) in [("set_mode;set_subset", &r0.0), ("set_subset;set_mode", &r1.0)] {
            let cat: String = r.iter().map(|t| t.surface.as_str()).collect();
            let contiguous = r.windows(2).all(|w| w[0].end == w[1].begin) && r.first().map(|t| t.begin == 0).unwrap_or(text.is_empty()) && r.last().map(|t| t.end == text.len()).unwrap_or(true);
            if cat != text || !contiguous {
                bad = Some(format!("{}: surfaces {:?} do not partition {:?}", name, r.iter().map(|t| &t.surface).collect::<Vec<_>>(), text));
            }
            if same_needed {
                let b1: Vec<_> = r.iter().map(|t| (t.begin, t.end, t.wid)).collect();
                let b2: Vec<_> = full.0.iter().map(|t| (t.begin, t.end, t.wid)).collect();
                if b1 != b2 {
                    bad = Some(format!("{}: boundaries / word ids {:?}, full-field analysis {:?}", name, b1, b2));
                } else {
                    for (x, y) in r.iter().zip(full.0.iter()) {
                        if x.acc != y.acc && x.wid >> 28 != 0xf {
                            bad = Some(format!("{}: token {:?}: requested accessors {:?}, full-field analysis {:?}", name, x.surface, x.acc, y.acc));
                        }
                    }
                }
            }
        }
        sink.tag(if *rewrite { "tok_with_path_rewrite" } else { "tok_without_path_rewrite" });
        sink.tag(if same_needed { "tok_boundaries_compared" } else { "tok_partition_only" });
        let c_id = sink.case(term, desc, true);
        if let Some(b) = bad {
            sink.fail(c_id, &b, "");
        }
    }
}

// ---------------------------------------------------------------- long-lived tokenizers, shared result lists
#[derive(Clone, Debug)]
enum Op {
    Mode(usize, u64),
    Subset(usize, u32),
    /// tokenizer, list, text: analyse and collect the result into the list
    Run(usize, usize, String),
}
fn ops_json(ops: &[Op]) -> Value {
    Value::Array(
        ops.iter()
            .map(|o| match o {
                Op::Mode(t, m) => json!(["mode", t, m]),
                Op::Subset(t, s) => json!(["subset", t, s]),
                Op::Run(t, l, x) => json!(["run", t, l, x]),
            })
            .collect(),
    )
}
fn ops_from_json(v: &Value) -> Vec<Op> {
    v.as_array()
        .unwrap()
        .iter()
        .map(|o| match o[0].as_str().unwrap() {
            "mode" => Op::Mode(o[1].as_u64().unwrap() as usize, o[2].as_u64().unwrap()),
            "subset" => Op::Subset(o[1].as_u64().unwrap() as usize, o[2].as_u64().unwrap() as u32),
            _ => Op::Run(o[1].as_u64().unwrap() as usize, o[2].as_u64().unwrap() as usize, o[3].as_str().unwrap().to_string()),
        })
        .collect()
}

/// Runs the operations on two tokenizers and two result lists that live for the whole sequence.  Every analysis is
/// compared with a full-field analysis of the same text in the same mode by a fresh tokenizer, for the subset that
/// was last requested of that tokenizer.  Returns the Coq term and the first failure.
fn run_sequence(dict: &JapaneseDictionary, rewrite: bool, m0s: [u64; 2], ops: &[Op], verbose: bool) -> (String, Option<String>) {
    use sudachi::analysis::mlist::MorphemeList;
    let mut toks: Vec<StatefulTokenizer<&JapaneseDictionary>> = m0s.iter().map(|m| StatefulTokenizer::new(dict, mode_of(*m))).collect();
    let mut lists: Vec<MorphemeList<&JapaneseDictionary>> = (0..2).map(|_| MorphemeList::empty(dict)).collect();
    let mut req: [Option<u32>; 2] = [None, None];
    let mut modes = m0s;
    let mut coq: Vec<String> = vec![];
    let mut bad: Option<String> = None;
    for (k, op) in ops.iter().enumerate() {
        match op {
            Op::Mode(t, m) => {
                toks[*t].set_mode(mode_of(*m));
                modes[*t] = *m;
                coq.push(format!("OpMode {} {}", cnu(*t), cn(*m)));
            }
            Op::Subset(t, s) => {
                toks[*t].set_subset(InfoSubset::from_bits_truncate(*s));
                req[*t] = Some(*s);
                coq.push(format!("OpSubset {} {}", cnu(*t), cn(*s)));
            }
            Op::Run(t, l, text) => {
                let s = req[*t].unwrap_or(1023);
                let r = catch(|| {
                    let tok = &mut toks[*t];
                    tok.reset().push_str(text);
                    tok.do_tokenize().map_err(|e| format!("{:?}", e))?;
                    lists[*l].collect_results(tok).map_err(|e| format!("{:?}", e))?;
                    let ml = &lists[*l];
                    let mut out = vec![];
                    for i in 0..ml.len() {
                        let mo = ml.get(i);
                        out.push(Tok {
                            begin: mo.begin(),
                            end: mo.end(),
                            surface: mo.surface().to_string(),
                            wid: mo.word_id().as_raw(),
                            acc: accessors(&D2(mo.get_word_info().clone()), s & !1 & !2),
                        });
                    }
                    Ok::<(Vec<Tok>, u32), String>((out, ml.subset().bits()))
                });
                let r = match r {
                    Ok(x) => x,
                    Err(p) => Err(format!("panic {}", p)),
                };
                let full = analyse(dict, text, mode_of(modes[*t]), mode_of(modes[*t]), None, 0, s);
                if verbose {
                    println!("step {}: tokenizer {} (mode {}, requested subset {:#b}) analyses {:?} into list {}", k, t, modes[*t], s, text, l);
                    println!("   with the long-lived tokenizer: {:?}", r);
                    println!("   full-field, fresh tokenizer  : {:?}", full);
                }
                match (r, full) {
                    (Ok((toks_out, observed)), Ok((full, _))) => {
                        coq.push(format!("OpCollect {} {}", cnu(*t), cn(observed)));
                        if bad.is_some() {
                            continue;
                        }
                        let cat: String = toks_out.iter().map(|t| t.surface.as_str()).collect();
                        let contiguous = toks_out.windows(2).all(|w| w[0].end == w[1].begin)
                            && toks_out.first().map(|t| t.begin == 0).unwrap_or(text.is_empty())
                            && toks_out.last().map(|t| t.end == text.len()).unwrap_or(true);
                        if cat != *text || !contiguous {
                            bad = Some(format!("step {}: surfaces {:?} do not partition {:?}", k, toks_out.iter().map(|t| &t.surface).collect::<Vec<_>>(), text));
                        }
                        if !rewrite || (s & 13) == 13 {
                            let b1: Vec<_> = toks_out.iter().map(|t| (t.begin, t.end, t.wid)).collect();
                            let b2: Vec<_> = full.iter().map(|t| (t.begin, t.end, t.wid)).collect();
                            if b1 != b2 {
                                bad = Some(format!("step {} ({:?}, mode {}, requested subset {:#b}): boundaries / word ids {:?}, full-field analysis {:?}", k, text, modes[*t], s, b1, b2));
                            } else {
                                for (x, y) in toks_out.iter().zip(full.iter()) {
                                    if x.acc != y.acc && x.wid >> 28 != 0xf && bad.is_none() {
                                        bad = Some(format!("step {} (mode {}, requested subset {:#b}): token {:?}: requested accessors {:?}, full-field analysis {:?}", k, modes[*t], s, x.surface, x.acc, y.acc));
                                    }
                                }
                                // splitting the collected morphemes (Morpheme::split_into reads the sub-words with the
                                // subset stored in the list): compared when the split field of that mode was requested
                                if bad.is_none() {
                                    bad = compare_splits(dict, &lists[*l], text, modes[*t], s).map(|b| format!("step {}: {}", k, b));
                                }
                            }
                        }
                    }
                    (Err(e), Ok(_)) => {
                        if bad.is_none() {
                            bad = Some(format!("step {}: analysis of {:?} fails only on the long-lived tokenizer: {}", k, text, e));
                        }
                    }
                    _ => {}
                }
            }
        }
    }
    (format!("check_c11_ops {} {}", clist(m0s.iter().map(|m| cn(*m))), clist(coq)), bad)
}

/// split every morpheme of `ml` in the modes whose split field is in the requested subset `s`, and compare with the
/// same split of a fresh full-field analysis of the text
fn compare_splits(dict: &JapaneseDictionary, ml: &sudachi::analysis::mlist::MorphemeList<&JapaneseDictionary>, text: &str, mode: u64, s: u32) -> Option<String> {
    use sudachi::analysis::mlist::MorphemeList;
    let r = catch(|| {
        let mut tok = StatefulTokenizer::new(dict, mode_of(mode));
        tok.reset().push_str(text);
        tok.do_tokenize().ok()?;
        let full = tok.into_morpheme_list().ok()?;
        if full.len() != ml.len() {
            return None;
        }
        for (bit, m) in [(64u32, Mode::A), (128u32, Mode::B)] {
            if s & bit == 0 {
                continue;
            }
            for i in 0..ml.len() {
                let mut o1 = MorphemeList::empty(dict);
                let mut o2 = MorphemeList::empty(dict);
                let k1 = ml.split_into(m, i, &mut o1).ok()?;
                let k2 = full.split_into(m, i, &mut o2).ok()?;
                let d1: Vec<_> = (0..o1.len()).map(|j| { let x = o1.get(j); (x.begin(), x.end(), x.word_id().as_raw(), accessors(&D2(x.get_word_info().clone()), s & !1 & !2)) }).collect();
                let d2: Vec<_> = (0..o2.len()).map(|j| { let x = o2.get(j); (x.begin(), x.end(), x.word_id().as_raw(), accessors(&D2(x.get_word_info().clone()), s & !1 & !2)) }).collect();
                if k1 != k2 || d1 != d2 {
                    return Some(format!("split_into({:?}) of morpheme {} of {:?} (requested subset {:#b}): {:?} {:?}, on the full-field analysis {:?} {:?}", m, i, text, s, k1, d1, k2, d2));
                }
            }
        }
        None
    });
    match r {
        Ok(x) => x,
        Err(p) => Some(format!("splitting the collected morphemes of {:?} panicked: {}", text, p)),
    }
}

fn sequence_level(sink: &mut Sink, rng: &mut Rng, n: usize) {
    let dicts: Vec<(bool, JapaneseDictionary)> = [false, true].iter().filter_map(|rw| shipped_stack(*rw).ok().map(|d| (*rw, d))).collect();
    if dicts.len() != 2 {
        return; // reported by tokenizer_level
    }
    // words that split in mode A and / or B (nested, into system and user words), and words that do not
    let splittable = ["東京都", "東京府", "東京都京都", "東京都京都に", "京都東京"];
    let plain = ["京都", "に", "行く", "行った", "高輪ゲートウェイ駅", "特急はくたか", "いった", "123", "三千円", "アイウエオ", "ぴらる", "すだち", "府"];
    let subsets = [0u32, 16, 13, 1023, 64, 128, 32, 8 | 512, 4, 1, 256];
    for k in 0..n {
        let (rewrite, dict) = &dicts[k % 2];
        let m0s = [rng.below(3), rng.below(3)];
        // a small vocabulary per sequence, so that the same words come back after the tokenizer was reconfigured: whatever
        // an implementation keeps from earlier analyses (results, decoded entries, buffers) is then met again
        let mut vocab: Vec<&str> = vec![*rng.pick(&splittable)];
        if rng.chance(1, 2) {
            vocab.push(*rng.pick(&splittable));
        }
        for _ in 0..1 + rng.below(2) {
            vocab.push(*rng.pick(&plain));
        }
        let main_tok = rng.below(2) as usize;
        let len = 5 + rng.below(8) as usize;
        let mut ops = vec![];
        let mut runs = 0;
        // often start from a restricted subset: with all fields loaded nothing that is kept can be incomplete
        if rng.chance(3, 4) {
            let s = if rng.chance(2, 3) { *rng.pick(&subsets) } else { rng.below(1024) as u32 };
            ops.push(Op::Subset(main_tok, s));
        }
        for _ in 0..len {
            let t = if rng.chance(4, 5) { main_tok } else { 1 - main_tok };
            match rng.below(20) {
                0..=2 => {
                    let s = if rng.chance(2, 3) { *rng.pick(&subsets) } else { rng.below(1024) as u32 };
                    ops.push(Op::Subset(t, s));
                }
                3..=8 => ops.push(Op::Mode(t, rng.below(3))),
                _ => {
                    // mostly one shared list: that is where configurations of earlier analyses can leak
                    let l = if rng.chance(3, 4) { 0 } else { 1 };
                    let np = 1 + rng.below(3) as usize;
                    ops.push(Op::Run(t, l, (0..np).map(|_| *rng.pick(&vocab)).collect()));
                    runs += 1;
                }
            }
        }
        let desc = json!({"kind": "c11-seq", "rewrite": rewrite, "m0": [m0s[0], m0s[1]], "ops": ops_json(&ops)});
        let (term, bad) = run_sequence(dict, *rewrite, m0s, &ops, false);
        sink.tag(if runs >= 3 { "sequence_with_3_or_more_analyses" } else { "sequence_with_fewer_analyses" });
        // the shape the reconfiguration hazards need: analysis, mode change without a subset change, analysis, on one tokenizer
        let mut last: [u8; 2] = [0, 0]; // 0 nothing yet, 1 analysed, 2 analysed then mode changed
        let mut shape = false;
        for o in &ops {
            match o {
                Op::Run(t, _, _) => {
                    if last[*t] == 2 {
                        shape = true;
                    }
                    last[*t] = 1;
                }
                Op::Mode(t, _) => {
                    if last[*t] >= 1 {
                        last[*t] = 2;
                    }
                }
                Op::Subset(t, _) => last[*t] = 0,
            }
        }
        if shape {
            sink.tag("sequence_analyse_set_mode_analyse");
        }
        let id = sink.case(term, desc, runs >= 2);
        if let Some(b) = bad {
            sink.fail(id, &b, "");
        }
    }
}

// ---------------------------------------------------------------- lists filled by lookup, then split
/// MorphemeList::empty(dict) -> lookup(query, subset) -> split_into(A / B): what Python's Dictionary.lookup(..) builds.
/// lookup loads the entries with the subset it is given; the parts a split produces are loaded with the subset STORED in
/// the list, which for a list that never received results is the default one, all fields (InfoSubset::default()).
/// Promised, and checked: every field of `s` of every entry, and every field of `s` of every part, is what it is when
/// everything is loaded; parts have the ranges and word ids of the full-field split.
fn lookup_route_case(dict: &JapaneseDictionary, query: &str, s: u32, verbose: bool) -> (u32, Option<String>) {
    use sudachi::analysis::mlist::MorphemeList;
    type Item = (usize, usize, u32, Vec<String>);
    let go = |sub: u32| -> Result<(u32, Vec<Item>, Vec<(String, usize, bool, Vec<Item>)>), String> {
        match catch(|| {
            let mut ml = MorphemeList::empty(dict);
            let fresh_subset = ml.subset().bits();
            let n = ml.lookup(query, InfoSubset::from_bits_truncate(sub)).map_err(|e| format!("{:?}", e))?;
            let item = |x: &sudachi::analysis::morpheme::Morpheme<&JapaneseDictionary>| -> Item { (x.begin(), x.end(), x.word_id().as_raw(), accessors(&D2(x.get_word_info().clone()), s & !2)) };
            let entries: Vec<Item> = (0..n).map(|i| item(&ml.get(i))).collect();
            let mut splits = vec![];
            for (bit, m, name) in [(64u32, Mode::A, "A"), (128u32, Mode::B, "B")] {
                if s & bit == 0 {
                    continue;
                }
                for i in 0..n {
                    let mut out = MorphemeList::empty(dict);
                    let did = ml.split_into(m, i, &mut out).map_err(|e| format!("{:?}", e))?;
                    let parts: Vec<Item> = (0..out.len()).map(|j| item(&out.get(j))).collect();
                    splits.push((name.to_string(), i, did, parts));
                }
            }
            Ok((fresh_subset, entries, splits))
        }) {
            Ok(r) => r,
            Err(p) => Err(format!("panic {}", p)),
        }
    };
    let got = go(s);
    // the expectation does not go through a MorphemeList: every word id is read with all fields straight from the lexicon,
    // the parts of a split are the units of the entry's split list, laid end to end by their head-word lengths
    let full = |wid: u32| -> Option<sudachi::dic::lexicon::word_infos::WordInfo> { get(dict, WordId::from_raw(wid), InfoSubset::all()).ok() };
    if verbose {
        println!("query {:?}, lookup subset {:#b}\n   with the subset: {:?}", query, s, got);
    }
    match got {
        Ok((fs, ge, gs)) => {
            for e in &ge {
                let want = match full(e.2) {
                    Some(w) => accessors(&D2(w), s & !2),
                    None => continue,
                };
                if e.3 != want || e.0 != 0 || e.1 != query.len() {
                    return (fs, Some(format!("lookup({:?}, {:#b}): entry {:?}, with all fields {:?}", query, s, e, want)));
                }
            }
            for (name, i, did, parts) in &gs {
                let ew = match full(ge[*i].2) {
                    Some(w) => w,
                    None => continue,
                };
                let units: Vec<u32> = if name == "A" { ew.a_unit_split().iter().map(|w| w.as_raw()).collect() } else { ew.b_unit_split().iter().map(|w| w.as_raw()).collect() };
                let mut want: Vec<Item> = vec![];
                let mut off = 0usize;
                for (k, u) in units.iter().enumerate() {
                    let w = match full(*u) {
                        Some(w) => w,
                        None => return (fs, None),
                    };
                    let end = if k + 1 == units.len() { query.len() } else { off + w.head_word_length() };
                    want.push((off, end, *u, accessors(&D2(w), s & !2)));
                    off = end;
                }
                if *did != !units.is_empty() || *parts != want {
                    return (fs, Some(format!("lookup({:?}, {:#b}) then split_into({}) of entry {}: split happened {}, parts {:?}; the units of its split list with all fields: {:?}", query, s, name, i, did, parts, want)));
                }
            }
            (fs, None)
        }
        Err(e) => (0, Some(format!("lookup({:?}, {:#b}) and split fail: {}", query, s, e))),
    }
}

fn lookup_level(sink: &mut Sink, rng: &mut Rng, n: usize) {
    let dict = match shipped_stack(false) {
        Ok(d) => d,
        Err(_) => return,
    };
    let queries = ["東京都", "東京府", "東京都京都", "東京都京都に", "京都東京", "京都", "東京", "に", "すだち", "行く", "特急はくたか", "ない語"];
    for k in 0..n {
        let q = if k < queries.len() * 4 { queries[k % queries.len()] } else { *rng.pick(&queries) };
        // the split field of one or both modes (else nothing can be split), and any other fields
        let s = (match rng.below(3) { 0 => 64, 1 => 128, _ => 192 }) | match rng.below(5) { 0 => 0, 1 => 1, 2 => 1 | 4 | 8, 3 => 1023, _ => rng.below(1024) as u32 };
        let desc = json!({"kind": "c11-lookup", "query": q, "subset": s});
        let (fresh, bad) = lookup_route_case(&dict, q, s, false);
        sink.tag("lookup_then_split");
        // model: a list that never received results holds the default subset, all fields (Generated/FieldOrder.v checks the
        // Default impl); lookup does not change it
        let id = sink.case(format!("N.eqb {} ALL", cn(fresh)), desc, true);
        if let Some(b) = bad {
            sink.fail(id, &b, "");
        }
    }
}

// ---------------------------------------------------------------- split_into a list that has a history
/// What MorphemeList::split_into(mode, index, out) promises (mlist.rs): when the morpheme has no split in that mode it
/// returns false and leaves `out` alone; otherwise `out` is re-pointed to the input of the list being split, the parts are
/// APPENDED to whatever `out` held (it is not cleared), they are loaded with the subset of the list being split -- not with
/// whatever `out` carried from its previous life -- and `out` reports that subset from then on.
/// The previous lives of `out`:
const HISTORIES: &[&str] = &[
    "fresh list",
    "collected the analysis of 京都 by a tokenizer with subset {}",
    "collected the analysis of 京都 by a tokenizer with subset {SURFACE}",
    "collected the analysis of 京都に by a tokenizer with subset {POS_ID}",
    "collected the analysis of 東京都 by a tokenizer with all fields",
    "filled by lookup(東京, {SURFACE})",
    "collected a {SURFACE} analysis, then filled by lookup(東京都, {READING_FORM})",
    "target of split_into(A) of a list analysed with the split fields only",
    "target of split_into(A) of a list analysed with all fields",
    "collected a {} analysis, then target of split_into(B) of a full-field list",
    "target of a split of a full-field list, then collected a {NORMALIZED_FORM} analysis",
];
type ML<'a> = sudachi::analysis::mlist::MorphemeList<&'a JapaneseDictionary>;
fn collect_into<'a>(dict: &'a JapaneseDictionary, text: &str, subset: Option<u32>, into: &mut ML<'a>) -> Result<(), String> {
    let mut tok = StatefulTokenizer::new(dict, Mode::C);
    if let Some(s) = subset {
        tok.set_subset(InfoSubset::from_bits_truncate(s));
    }
    tok.reset().push_str(text);
    tok.do_tokenize().map_err(|e| format!("{:?}", e))?;
    into.collect_results(&mut tok).map_err(|e| format!("{:?}", e))
}
fn target_with_history<'a>(dict: &'a JapaneseDictionary, h: usize) -> Result<ML<'a>, String> {
    use sudachi::analysis::mlist::MorphemeList;
    let mut t = MorphemeList::empty(dict);
    let split_of = |subset: Option<u32>, mode: Mode, t: &mut ML<'a>| -> Result<(), String> {
        let mut l = MorphemeList::empty(dict);
        collect_into(dict, "東京都", subset, &mut l)?;
        l.split_into(mode, 0, t).map_err(|e| format!("{:?}", e))?;
        Ok(())
    };
    match h {
        0 => {}
        1 => collect_into(dict, "京都", Some(0), &mut t)?,
        2 => collect_into(dict, "京都", Some(1), &mut t)?,
        3 => collect_into(dict, "京都に", Some(4), &mut t)?,
        4 => collect_into(dict, "東京都", None, &mut t)?,
        5 => {
            t.lookup("東京", InfoSubset::from_bits_truncate(1)).map_err(|e| format!("{:?}", e))?;
        }
        6 => {
            collect_into(dict, "京都", Some(1), &mut t)?;
            t.lookup("東京都", InfoSubset::from_bits_truncate(32)).map_err(|e| format!("{:?}", e))?;
        }
        7 => split_of(Some(64 | 128), Mode::A, &mut t)?,
        8 => split_of(None, Mode::A, &mut t)?,
        9 => {
            collect_into(dict, "京都", Some(0), &mut t)?;
            split_of(None, Mode::B, &mut t)?;
        }
        _ => {
            split_of(None, Mode::A, &mut t)?;
            collect_into(dict, "京都", Some(8), &mut t)?;
        }
    }
    Ok(t)
}
/// one analysis (mode C, requested subset `s` incl. at least one split field) whose morphemes are split into targets with
/// every history, cleared or not; the parts are compared with the same split of a fresh full-field analysis into a fresh list.
/// Returns (subset of the analysed list, subsets the targets report after a split that happened, first failure).
fn history_case(dict: &JapaneseDictionary, text: &str, s: u32, verbose: bool) -> (u32, Vec<u32>, Option<String>) {
    use sudachi::analysis::mlist::MorphemeList;
    type Item = (usize, usize, u32, Vec<String>);
    let r = catch(|| -> Result<(u32, Vec<u32>, Option<String>), String> {
        let mut src = MorphemeList::empty(dict);
        collect_into(dict, text, Some(s), &mut src)?;
        let src_subset = src.subset().bits();
        let mut full = MorphemeList::empty(dict);
        collect_into(dict, text, None, &mut full)?;
        let item = |x: &sudachi::analysis::morpheme::Morpheme<&JapaneseDictionary>| -> Item { (x.begin(), x.end(), x.word_id().as_raw(), accessors(&D2(x.get_word_info().clone()), s & !1 & !2)) };
        let mut observed = vec![];
        let mut bad: Option<String> = None;
        if full.len() != src.len() {
            return Ok((src_subset, observed, None)); // boundaries of the analysis itself: the tokenizer level's concern
        }
        for (bit, m, name) in [(64u32, Mode::A, "A"), (128u32, Mode::B, "B")] {
            if s & bit == 0 {
                continue;
            }
            for i in 0..src.len() {
                let mut o2 = MorphemeList::empty(dict);
                let did2 = full.split_into(m, i, &mut o2).map_err(|e| format!("{:?}", e))?;
                let want: Vec<Item> = (0..o2.len()).map(|j| item(&o2.get(j))).collect();
                for h in 0..HISTORIES.len() {
                    for clear in [false, true] {
                        let mut target = target_with_history(dict, h)?;
                        if clear {
                            target.clear();
                        }
                        let before = target.len();
                        let before_subset = target.subset().bits();
                        let did = src.split_into(m, i, &mut target).map_err(|e| format!("{:?}", e))?;
                        let parts: Vec<Item> = (before..target.len()).map(|j| item(&target.get(j))).collect();
                        let after_subset = target.subset().bits();
                        if verbose {
                            println!("split_into({}) of morpheme {} into a list that {}{}: {} {:?} (list subset {:#b} -> {:#b})", name, i, HISTORIES[h], if clear { ", cleared" } else { "" }, did, parts, before_subset, after_subset);
                        }
                        if did {
                            observed.push(after_subset);
                        }
                        if bad.is_some() {
                            continue;
                        }
                        let what = format!(
                            "analysis of {:?} (mode C, requested subset {:#b}), split_into({}) of morpheme {} into a list that {}{} (its subset then: {:#b})",
                            text, s, name, i, HISTORIES[h], if clear { ", cleared" } else { "" }, before_subset
                        );
                        if did != did2 || parts != want {
                            bad = Some(format!("{}: {} {:?}; the same split of a fresh full-field analysis into a fresh list: {} {:?}", what, did, parts, did2, want));
                        } else if did && after_subset != src_subset {
                            bad = Some(format!("{}: the list reports the subset {:#b} afterwards, the list that was split {:#b}", what, after_subset, src_subset));
                        } else if !did && (target.len() != before || after_subset != before_subset) {
                            bad = Some(format!("{}: nothing to split, but the list changed", what));
                        }
                    }
                }
            }
        }
        if verbose {
            println!("full-field analysis: {:?}", (0..full.len()).map(|j| item(&full.get(j))).collect::<Vec<_>>());
        }
        Ok((src_subset, observed, bad))
    });
    match r {
        Ok(Ok(x)) => x,
        Ok(Err(e)) => (0, vec![], Some(format!("analysis of {:?} with subset {:#b} and split into lists with a history fails: {}", text, s, e))),
        Err(p) => (0, vec![], Some(format!("analysis of {:?} with subset {:#b} and split into lists with a history panicked: {}", text, s, p))),
    }
}
fn history_level(sink: &mut Sink, rng: &mut Rng, n_random: usize) {
    let dicts: Vec<(bool, JapaneseDictionary)> = [false, true].iter().filter_map(|rw| shipped_stack(*rw).ok().map(|d| (*rw, d))).collect();
    if dicts.len() != 2 {
        return;
    }
    let texts = ["東京都", "東京都京都に", "京都東京府に行く"];
    // directed: whatever the seed
    let mut todo: Vec<(usize, String, u32)> = vec![];
    for (d, _) in dicts.iter().enumerate() {
        for t in texts {
            for s in [1023u32, 64 | 128 | 4 | 32, 64 | 128 | 13 | 512, 64 | 128, 64 | 13 | 16] {
                todo.push((d, t.to_string(), s));
            }
        }
    }
    let vocab = ["東京都", "東京府", "東京都京都", "京都", "に", "行く", "すだち", "特急はくたか"];
    for _ in 0..n_random {
        let np = 1 + rng.below(3) as usize;
        let t: String = (0..np).map(|_| *rng.pick(&vocab)).collect();
        let s = (match rng.below(3) { 0 => 64, 1 => 128, _ => 192 }) | rng.below(1024) as u32;
        todo.push((rng.below(2) as usize, t, s));
    }
    for (d, text, s) in todo {
        let (rewrite, dict) = &dicts[d];
        // with path-rewrite plugins the analysis itself is only comparable when the plugins see what they read
        if *rewrite && (s & 13) != 13 {
            continue;
        }
        let desc = json!({"kind": "c11-history", "rewrite": rewrite, "text": text, "subset": s});
        let (src_subset, observed, bad) = history_case(dict, &text, s, false);
        sink.tag("split_into_lists_with_a_history");
        // model: the analysed list holds the tokenizer's subset (OpCollect); every target reports that subset after the split
        let mut ops = vec![format!("OpSubset {} {}", cnu(0), cn(s)), format!("OpCollect {} {}", cnu(0), cn(src_subset))];
        let mut obs = observed.clone();
        obs.sort();
        obs.dedup();
        for o in obs {
            ops.push(format!("OpCollect {} {}", cnu(0), cn(o)));
        }
        let id = sink.case(format!("check_c11_ops {} {}", clist([cn(2u32)]), clist(ops)), desc, true);
        if let Some(b) = bad {
            sink.fail(id, &b, "");
        }
    }
}

// ---------------------------------------------------------------- the Python route: create(fields=F, projection=P)
/// sudachipy.Dictionary.create(mode, fields=F, projection=P): the tokenizer loads F plus what the projection P reads
/// (python/src/dictionary.rs).  Requested = F and the projected surface, Morpheme.surface().  Each session is compared with
/// the session that differs only in fields=None (all fields), run in the same interpreter: the projected surface and every
/// field of F must be equal for every morpheme; ranges must be equal whenever F holds surface, POS and normalized form (what
/// the path-rewrite plugins of the test configuration read) -- when they differ without that, nothing is compared.
const PY_FIELDS: &[&str] = &["surface", "pos", "normalized_form", "dictionary_form", "reading_form", "word_structure", "split_a", "split_b", "synonym_group_id"];
const PY_PROJECTIONS: &[Option<&str>] = &[None, Some("surface"), Some("normalized"), Some("reading"), Some("dictionary"), Some("dictionary_and_surface"), Some("normalized_and_surface"), Some("normalized_nouns")];
const PY_TEXTS: &[&str] = &["東京都に行った", "京都東京都にいっていく", "特急はくたかで高輪ゲートウェイ駅", "すだちを１２３円で"];
fn py_compare(s: &Value, got: &Value, full: &Value) -> Option<String> {
    let fields: Vec<&str> = s["fields"].as_array().map(|a| a.iter().filter_map(|x| x.as_str()).collect()).unwrap_or_default();
    let has = |n: &str| fields.iter().any(|f| *f == n);
    let ops = s["ops"].as_array().cloned().unwrap_or_default();
    for (k, op) in ops.iter().enumerate() {
        let (g, f) = (&got[k], &full[k]);
        let what = format!("create(mode={}, fields={}, projection={}).tokenize({})", s["mode"], s["fields"], s["projection"], op["text"]);
        if f["ok"] != json!(true) {
            continue;
        }
        if g["ok"] != json!(true) {
            return Some(format!("{} fails ({}); with fields=None it succeeds", what, g["error"]));
        }
        let (gm, fm) = (g["morphemes"].as_array().cloned().unwrap_or_default(), f["morphemes"].as_array().cloned().unwrap_or_default());
        let ranges = |v: &[Value]| -> Vec<(i64, i64)> { v.iter().map(|m| (m["begin"].as_i64().unwrap_or(-1), m["end"].as_i64().unwrap_or(-1))).collect() };
        if ranges(&gm) != ranges(&fm) {
            if has("surface") && has("pos") && has("normalized_form") {
                return Some(format!("{}: ranges {:?}, with fields=None {:?}", what, ranges(&gm), ranges(&fm)));
            }
            continue;
        }
        for (x, y) in gm.iter().zip(fm.iter()) {
            let mut keys: Vec<&str> = vec!["surface", "raw_surface", "slice_ok"];
            if has("pos") {
                keys.push("pos");
                keys.push("pos_id");
            }
            for (f, k) in [("normalized_form", "normalized_form"), ("dictionary_form", "dictionary_form"), ("reading_form", "reading_form"), ("synonym_group_id", "synonym_group_ids")] {
                if has(f) {
                    keys.push(k);
                }
            }
            for key in keys {
                if x[key] != y[key] {
                    let shown = |v: &[Value]| -> Vec<Value> { v.iter().map(|m| m[key].clone()).collect() };
                    return Some(format!("{}: Morpheme.{} of the morphemes {}, with fields=None {}", what, if key == "surface" { "surface() (the projected form)".to_string() } else { key.to_string() }, json!(shown(&gm)), json!(shown(&fm))));
                }
            }
        }
    }
    None
}
fn run_py_sessions(args: &Args, sessions: &[Value]) -> Result<Vec<Value>, String> {
    let pypkg = std::env::var("VERIF_PYPKG").unwrap_or_default();
    let root = std::env::var("VERIF_ROOT").unwrap_or_else(|_| ".".into());
    if pypkg.is_empty() || !std::path::Path::new(&pypkg).join("sudachipy/sudachipy.so").exists() {
        return Err("skipped".into());
    }
    let res = format!("{}/python/tests/resources", repo());
    std::fs::create_dir_all(&args.work).map_err(|e| e.to_string())?;
    let sp = args.work.join("c11_sessions.json");
    let op = args.work.join("c11_py_out.json");
    std::fs::write(&sp, serde_json::to_vec(sessions).unwrap()).map_err(|e| e.to_string())?;
    let _ = std::fs::remove_file(&op);
    let st = std::process::Command::new("timeout")
        .args(["-k", "10", "600", "python3"])
        .arg(format!("{}/pyharness/run_py.py", root))
        .arg(format!("{}/sudachi.json", res))
        .arg(&res)
        .arg(&sp)
        .arg(&op)
        .env("PYTHONPATH", &pypkg)
        .env("PYTHONDONTWRITEBYTECODE", "1")
        .output()
        .map_err(|e| format!("cannot start python3: {}", e))?;
    let py: Option<Value> = std::fs::read_to_string(&op).ok().and_then(|s| serde_json::from_str(&s).ok());
    match py {
        Some(v) if st.status.success() => Ok(v["results"].as_array().cloned().unwrap_or_default()),
        _ => Err(format!("the interpreter session failed: status {:?}: {}", st.status.code(), String::from_utf8_lossy(&st.stderr).chars().take(600).collect::<String>())),
    }
}
fn py_session(mode: &str, fields: Option<&[&str]>, proj: Option<&str>, texts: &[&str]) -> Value {
    json!({"mode": mode, "fields": fields, "projection": proj, "ops": texts.iter().map(|t| json!({"op": "tokenize", "text": t, "mode": null, "out": false})).collect::<Vec<_>>()})
}
fn python_level(sink: &mut Sink, rng: &mut Rng, args: &Args, n_random: usize) {
    // directed, whatever the seed: small F x every P x modes C and A
    let small: Vec<Vec<&str>> = vec![vec![], vec!["pos"], vec!["surface"], vec!["pos", "surface"], vec!["normalized_form"], vec!["reading_form", "pos"], vec!["dictionary_form"], vec!["synonym_group_id"], vec!["split_a", "pos"], vec!["surface", "pos", "normalized_form"]];
    let mut todo: Vec<(String, Vec<&str>, Option<&str>, Vec<&str>)> = vec![];
    for p in PY_PROJECTIONS {
        for m in ["C", "A"] {
            for f in &small {
                todo.push((m.to_string(), f.clone(), *p, PY_TEXTS.to_vec()));
            }
        }
    }
    let vocab = ["東京都", "京都", "に", "行った", "いく", "特急はくたか", "高輪ゲートウェイ駅", "すだち", "１２３", "円", "アイアイウ", "。"];
    for _ in 0..n_random {
        let f: Vec<&str> = PY_FIELDS.iter().filter(|_| rng.chance(1, 3)).cloned().collect();
        let np = 1 + rng.below(4) as usize;
        let t: String = (0..np).map(|_| *rng.pick(&vocab)).collect();
        let t: &'static str = Box::leak(t.into_boxed_str());
        todo.push((rng.pick(&["A", "B", "C"]).to_string(), f, *rng.pick(PY_PROJECTIONS), vec![t]));
    }
    let mut sessions: Vec<Value> = vec![];
    for (m, f, p, t) in &todo {
        sessions.push(py_session(m, Some(&f[..]), *p, t));
        sessions.push(py_session(m, None, *p, t));
    }
    // the POS table of the dictionary the sessions run on, for the model of the projections (builder G's Model/PyProjection.v)
    let res = format!("{}/python/tests/resources", repo());
    let pl: Option<String> = Config::new(Some(format!("{}/sudachi.json", res).into()), Some(res.clone().into()), None)
        .ok()
        .and_then(|c| JapaneseDictionary::from_cfg(&c).ok())
        .map(|d| clist(d.grammar().pos_list.iter().map(|p| clist(p.iter().map(|c| ctext(c))))));
    match run_py_sessions(args, &sessions) {
        Ok(results) => {
            for k in 0..todo.len() {
                let s = &sessions[2 * k];
                let desc = json!({"kind": "c11-py", "session": s});
                // Coq side (C11_projection_same_as_all_fields as a run): the model's projection of the morphemes of the
                // fields=None session must be the strings Morpheme.surface() returned in the session with the field set
                let term = match (&pl, results[2 * k][0]["morphemes"].as_array(), results[2 * k + 1][0]["morphemes"].as_array()) {
                    (Some(pl), Some(bm), Some(am)) if am.len() == bm.len() && !am.is_empty() && am.iter().zip(bm.iter()).all(|(x, y)| x["begin"] == y["begin"] && x["end"] == y["end"]) => {
                        let ms = clist(am.iter().map(|m| {
                            format!(
                                "mkPym {} {} {} {} {}",
                                ctext(m["raw_surface"].as_str().unwrap_or("")),
                                cn(m["pos_id"].as_u64().unwrap_or(0)),
                                ctext(m["normalized_form"].as_str().unwrap_or("")),
                                ctext(m["reading_form"].as_str().unwrap_or("")),
                                ctext(m["dictionary_form"].as_str().unwrap_or(""))
                            )
                        }));
                        let py = clist(bm.iter().map(|m| ctext(m["surface"].as_str().unwrap_or(""))));
                        let proj = match s["projection"].as_str() {
                            None => "None".to_string(),
                            Some(x) => format!("(Some \"{}\"%string)", x),
                        };
                        Some(format!("check_projection {} {} {} {}", proj, pl, ms, py))
                    }
                    _ => None,
                };
                let id = match term {
                    Some(t) => {
                        sink.tag("python_projection_vs_model");
                        sink.case(t, desc, true)
                    }
                    None => sink.case_rust_only(desc, true),
                };
                sink.tag("python_create_fields_projection");
                if !s["projection"].is_null() {
                    sink.tag(&format!("python_projection_{}", s["projection"].as_str().unwrap_or("")));
                }
                if let Some(b) = py_compare(s, &results[2 * k], &results[2 * k + 1]) {
                    sink.fail(id, &b, "");
                }
            }
        }
        Err(e) if e == "skipped" => sink.tag("python_skipped_no_module"),
        Err(e) => {
            let id = sink.case_rust_only(json!({"kind": "c11-py", "session": sessions.first()}), false);
            sink.fail(id, &e, "");
        }
    }
}

pub fn run(args: &Args) {
    let mut sink = Sink::new("C11", &args.out, &["Model.Codec", "Model.CodecIO", "Model.CodecCheck", "Model.PyProjection"], args.seed, &args.tier);
    sink.shard_size = 12;
    sink.rule("(a) words of generated dictionaries: a system dictionary (also re-labelled as the format without synonym ids) or a system dictionary with TWO user dictionaries on top, the second with references from user words to user words (strings across the 127/128 prefix boundary, astral characters, forms empty / equal / different, arrays of 0/1/2/63/64/65/127 ids incl. directed lexicons with these lengths in every array field, own and foreign dictionary forms) x ALL 1024 requested subsets for some words and 40 sampled subsets (always incl. {}, {SURFACE}, {DIC_FORM_WORD_ID}, {NORMALIZED_FORM}, {READING_FORM}, each split alone, all) for the others: raw WordInfoData of LexiconSet::get_word_info_subset(normalize s) vs model, requested accessors vs full load; (b) analyses of texts over the shipped system dictionary with user2.csv and user1.csv compiled on top as dictionaries 1 and 2, with/without path-rewrite plugins x random subset x initial mode x mode x both orders of set_mode/set_subset vs the full-field analysis, and the tokenizer's resulting subset vs model; (c) sequences of 4..10 operations (set_mode, set_subset, analyse + collect_results) on two long-lived tokenizers sharing two MorphemeLists, every analysis vs a fresh full-field analysis in the same mode, the subset each list reports after a collection vs model; (d) MorphemeList::empty -> lookup(query, subset) -> split_into(A / B) vs the lexicon read with all fields; (e) split_into of the morphemes of an analysis (directed subsets x texts, and random ones) into target lists with a history (filled before by tokenizers with narrower / wider subsets, by lookup, by earlier splits, cleared or not) vs the same split of a fresh full-field analysis into a fresh list, on ranges, word ids, every requested field and the subset the target reports; (f) sudachipy sessions create(mode, fields=F, projection=P) for small F x every P x modes C / A (directed) and random F, P, texts, in the module built from the working tree: Morpheme.surface() (the projected form) and every field of F vs the session with fields=None; every case non-trivial except sequences with fewer than two analyses; distinct by generated Coq term");
    let mut rng = Rng::new(args.seed);
    if let Some(p) = &args.replay {
        let v: Value = serde_json::from_str(&std::fs::read_to_string(p).unwrap()).unwrap();
        let case = &v["case"];
        if case["kind"] == "c11-tok" {
            let rw = case["rewrite"].as_bool().unwrap();
            let dict = shipped_stack(rw).unwrap();
            let (text, s, m0, m) = (case["text"].as_str().unwrap(), case["subset"].as_u64().unwrap() as u32, case["m0"].as_u64().unwrap(), case["m"].as_u64().unwrap());
            println!("text {:?} subset {:#b} initial mode {} mode {} path-rewrite plugins {}", text, s, m0, m, rw);
            println!("full fields        : {:?}", analyse(&dict, text, mode_of(m0), mode_of(m), None, 0, s));
            println!("set_mode;set_subset: {:?}", analyse(&dict, text, mode_of(m0), mode_of(m), Some(s), 0, s));
            println!("set_subset;set_mode: {:?}", analyse(&dict, text, mode_of(m0), mode_of(m), Some(s), 1, s));
        } else if case["kind"] == "c11-lookup" {
            let dict = shipped_stack(false).unwrap();
            let (_, bad) = lookup_route_case(&dict, case["query"].as_str().unwrap(), case["subset"].as_u64().unwrap() as u32, true);
            println!("verdict: {:?}", bad);
        } else if case["kind"] == "c11-py" {
            let s = case["session"].clone();
            let mut full = s.clone();
            full["fields"] = Value::Null;
            match run_py_sessions(args, &[s.clone(), full]) {
                Ok(r) => {
                    println!("session            : {}", s);
                    println!("with the fields    : {}", r[0]);
                    println!("with fields=None   : {}", r[1]);
                    println!("verdict: {:?}", py_compare(&s, &r[0], &r[1]));
                }
                Err(e) => println!("python: {}", e),
            }
        } else if case["kind"] == "c11-history" {
            let dict = shipped_stack(case["rewrite"].as_bool().unwrap()).unwrap();
            let (_, _, bad) = history_case(&dict, case["text"].as_str().unwrap(), case["subset"].as_u64().unwrap() as u32, true);
            println!("verdict: {:?}", bad);
        } else if case["kind"] == "c11-seq" {
            let rw = case["rewrite"].as_bool().unwrap();
            let dict = shipped_stack(rw).unwrap();
            let m0s = [case["m0"][0].as_u64().unwrap(), case["m0"][1].as_u64().unwrap()];
            let ops = ops_from_json(&case["ops"]);
            println!("two tokenizers (initial modes {:?}), two result lists, path-rewrite plugins {}: {:?}", m0s, rw, ops);
            let (_, bad) = run_sequence(&dict, rw, m0s, &ops, true);
            println!("verdict: {:?}", bad);
        } else if case["kind"] == "c11-word" {
            // regenerate the dictionary from the recorded generator state and show the word for the subsets that differ
            let st = case["rng"].as_u64().unwrap();
            let user = case["user"].as_bool().unwrap();
            let dic = case["dic"].as_u64().unwrap_or(if user { 1 } else { 0 }) as u8;
            let stk = gen_stack(st, user, case["special"].as_u64().map(|d| d as usize), &args.out);
            let c = &stk.c;
            println!("system csv:\n{}user csv (dictionary 1):\n{}user csv (dictionary 2):\n{}", c.sys_csv, c.user_csv, stk.u2.as_ref().map(|x| x.1.as_str()).unwrap_or(""));
            let sys_bytes = c05::compile_system(&c.sys_csv, &c.matrix_text, c.time, &c.descr).unwrap();
            let loaded = DictionaryLoader::read_system_dictionary(&sys_bytes).unwrap().to_loaded().unwrap();
            let wid = case["word"].as_u64().unwrap() as u32;
            let show = |d: &dyn Fn(InfoSubset) -> Result<sudachi::dic::lexicon::word_infos::WordInfo, String>| {
                let full = d(InfoSubset::all());
                println!("full load: {:?}", full.as_ref().map(|w| accessors(&D2(w.clone()), 1023)));
                for s in 0..1024u32 {
                    let got = d(InfoSubset::from_bits_truncate(s).normalize()).map(|w| accessors(&D2(w), s));
                    let want = full.clone().map(|w| accessors(&D2(w), s));
                    if got != want {
                        println!("subset {:#012b}: {:?}   full: {:?}", s, got, want);
                    }
                }
            };
            if user {
                let ls = load_stack(&stk).unwrap();
                show(&|s| get(&ls.jd, WordId::new(dic, wid), s));
            } else {
                show(&|s| get(&loaded, WordId::new(0, wid), s));
            }
        }
        sink.finish();
        return;
    }
    word_level(&mut sink, &mut rng, args.n(26, 300), args.n(40, 400));
    tokenizer_level(&mut sink, &mut rng, args.n(400, 6000));
    sequence_level(&mut sink, &mut rng, args.n(300, 4000));
    lookup_level(&mut sink, &mut rng, args.n(120, 1500));
    history_level(&mut sink, &mut rng, args.n(20, 400));
    python_level(&mut sink, &mut rng, args, args.n(40, 600));
    sink.finish();
}
