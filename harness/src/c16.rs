//! C16 — sentence splitting partitions the text and breaks only after terminators.
//!
//! Implementation under test: `SentenceDetector::get_eos`, `SentenceSplitter::{with_limit, with_checker}.split`,
//! `NonBreakChecker` over a dictionary compiled in memory from a generated lexicon.
//! Each case records get_eos of the whole text and the ranges of the iterator; the Coq shard re-computes both with the
//! Gallina model (Model/Sentence.v) and evaluates the property predicates on the implementation's ranges.
use crate::common::*;
use serde_json::{json, Value};
use sudachi::dic::build::DictBuilder;
use sudachi::dic::DictionaryLoader;
use sudachi::sentence_detector::{NonBreakChecker, SentenceDetector};
use sudachi::sentence_splitter::{SentenceSplitter, SplitSentences};

// ------------------------------------------------------------------------------------------------
// independent Rust oracle (char level), written from the regex patterns of sentence_detector.rs
// ------------------------------------------------------------------------------------------------
const PERIODS: &str = "。？！♪…?!";
const DOT: &str = ".．";
const COMMA: &str = ",，、";
const OPEN: &str = "({｛[（「【『［≪〔“";
const CLOSE: &str = ")}]）」｝】』］〕≫”";
const KANSUJI: &str = "〇一二三四五六七八九十百千万億兆";

fn is_an(c: char) -> bool {
    c.is_ascii_alphanumeric() || ('ａ'..='ｚ').contains(&c) || ('Ａ'..='Ｚ').contains(&c) || ('０'..='９').contains(&c) || KANSUJI.contains(c)
}
fn is_period(c: char) -> bool {
    PERIODS.contains(c)
}
fn is_dot(c: char) -> bool {
    DOT.contains(c)
}
fn is_comma(c: char) -> bool {
    COMMA.contains(c)
}
fn is_open(c: char) -> bool {
    OPEN.contains(c)
}
fn is_close(c: char) -> bool {
    CLOSE.contains(c)
}
fn blen(s: &[char]) -> usize {
    s.iter().map(|c| c.len_utf8()).sum()
}
fn br_tag_at(s: &[char], p: usize) -> bool {
    p + 4 <= s.len() && (s[p..p + 4] == ['<', 'b', 'r', '>'] || s[p..p + 4] == ['<', 'B', 'R', '>'])
}

/// length of the SENTENCE_BREAKER match starting exactly at p, if any
fn breaker_at(s: &[char], p: usize) -> Option<usize> {
    let n = s.len();
    let c = s[p];
    let mut e;
    if is_period(c) {
        e = p + 1;
    } else if c == '・' {
        let mut q = p;
        while q < n && s[q] == '・' {
            q += 1;
        }
        if q - p < 3 {
            return None;
        }
        e = q;
    } else if is_dot(c) {
        if p > 0 && is_an(s[p - 1]) {
            return None;
        }
        if p + 1 < n && (is_an(s[p + 1]) || is_comma(s[p + 1])) {
            return None;
        }
        e = p + 1;
    } else if c == '<' {
        let mut q = p;
        let mut k = 0;
        while br_tag_at(s, q) {
            q += 4;
            k += 1;
        }
        return if k >= 2 { Some(q - p) } else { None };
    } else {
        return None;
    }
    while e < n && (is_dot(s[e]) || is_period(s[e])) {
        e += 1;
    }
    Some(e - p)
}

fn paren_level(s: &[char]) -> usize {
    let mut level = 0usize;
    for &c in s {
        if is_open(c) {
            level += 1;
        } else if is_close(c) && level > 0 {
            level -= 1;
        }
    }
    level
}

fn prohibited_bos(s: &[char]) -> usize {
    s.iter().take_while(|&&c| is_close(c) || is_comma(c) || is_period(c)).count()
}

fn continuous_phrase(s: &[char], eos: usize) -> bool {
    let last = s[eos - 1];
    let rest = &s[eos..];
    if (matches!(last, '！' | '？' | '!' | '?') || is_close(last))
        && (rest[0] == 'と' || rest[0] == 'っ' || (rest.len() >= 2 && rest[0] == 'で' && rest[1] == 'す'))
    {
        return true;
    }
    let c = rest[0];
    (c == 'と' || c == 'や' || c == 'の') && eos >= 2 && is_an(s[eos - 2]) && is_dot(s[eos - 1])
}

/// the repaired NonBreakChecker: a word starting inside the 30-byte look-back window that crosses the candidate,
/// or ends on it and has more than one character
fn non_break_word(input: &[char], lex: &[Vec<char>], eos: usize) -> bool {
    let eos_byte = blen(&input[..eos]);
    let start = eos_byte.saturating_sub(30);
    for j in 0..eos {
        if blen(&input[..j]) < start {
            continue;
        }
        for w in lex {
            if input[j..].starts_with(w) {
                let end = j + w.len();
                if end > eos || (end == eos && w.len() > 1) {
                    return true;
                }
            }
        }
    }
    false
}

/// the property's own reading (no look-back bound): ANY dictionary word that crosses the candidate, or ends on it with
/// more than one character
fn word_across_unbounded(input: &[char], lex: &[Vec<char>], eos: usize) -> bool {
    for j in 0..eos {
        for w in lex {
            if input[j..].starts_with(w) {
                let end = j + w.len();
                if end > eos || (end == eos && w.len() > 1) {
                    return true;
                }
            }
        }
    }
    false
}

pub const CLASS_LOOKBACK: &str = "c16_word_beyond_lookback";

fn is_ws(c: char) -> bool {
    c.is_whitespace()
}

/// `.+\s+` leftmost-first on s: end of the match (chars)
fn spaces_end(s: &[char]) -> Option<usize> {
    let n = s.len();
    let p0 = (0..n).find(|&i| s[i] != '\n')?;
    if let Some(q) = (p0 + 1..n).find(|&i| s[i] == '\n') {
        let mut e = q;
        while e < n && is_ws(s[e]) {
            e += 1;
        }
        return Some(e);
    }
    (p0 + 1..n).rev().find(|&r| is_ws(s[r])).map(|r| r + 1)
}

pub fn oracle_get_eos(input: &[char], limit: usize, lex: Option<&[Vec<char>]>) -> i64 {
    if input.is_empty() {
        return 0;
    }
    let n = usize::min(limit, input.len());
    let s = &input[..n];
    let exceeds = n < input.len();
    let mut p = 0;
    while p < n {
        let m = match breaker_at(s, p) {
            None => {
                p += 1;
                continue;
            }
            Some(m) => m,
        };
        p += m;
        let mut eos = p;
        if paren_level(&s[..eos]) > 0 {
            continue;
        }
        if eos < n {
            eos += prohibited_bos(&s[eos..]);
        }
        if n == 2 && is_an(s[0]) && is_dot(s[1]) {
            continue;
        }
        if eos < n && continuous_phrase(s, eos) {
            continue;
        }
        if let Some(l) = lex {
            if non_break_word(input, l, eos) {
                continue;
            }
        }
        return blen(&s[..eos]) as i64;
    }
    if exceeds {
        if let Some(e) = spaces_end(s) {
            return -(blen(&s[..e]) as i64);
        }
    }
    -(blen(s) as i64)
}

pub fn oracle_split(input: &[char], limit: usize, lex: Option<&[Vec<char>]>) -> Vec<(usize, usize)> {
    let mut out = vec![];
    let mut cpos = 0;
    let mut bpos = 0;
    while cpos < input.len() {
        let rv = oracle_get_eos(&input[cpos..], limit, lex);
        if rv <= 0 {
            out.push((bpos, bpos + blen(&input[cpos..])));
            break;
        }
        let mut k = cpos;
        let mut b = 0;
        while b < rv as usize {
            b += input[k].len_utf8();
            k += 1;
        }
        out.push((bpos, bpos + b));
        bpos += b;
        cpos = k;
    }
    out
}

// ------------------------------------------------------------------------------------------------
// implementation
// ------------------------------------------------------------------------------------------------
fn csv_line(w: &str) -> String {
    format!("\"{}\",0,0,100,\"{}\",名詞,普通名詞,一般,*,*,*,ゴ,\"{}\",*,A,*,*,*,*\n", w, w, w)
}

pub fn build_dict(words: &[String]) -> Vec<u8> {
    let mut b = DictBuilder::new_system();
    b.read_conn("1 1\n0 0 0\n".as_bytes()).unwrap();
    let mut csv = String::new();
    for w in words {
        csv.push_str(&csv_line(w));
    }
    b.read_lexicon(csv.as_bytes()).unwrap();
    b.resolve().unwrap();
    let mut out = Vec::new();
    b.compile(&mut out).unwrap();
    out
}

/// a user dictionary compiled against the given system dictionary
pub fn build_user_dict(system: &[u8], words: &[String]) -> Vec<u8> {
    let sys = DictionaryLoader::read_system_dictionary(system).unwrap().to_loaded().unwrap();
    let mut b = DictBuilder::new_user(&sys);
    let mut csv = String::new();
    for w in words {
        csv.push_str(&csv_line(w));
    }
    b.read_lexicon(csv.as_bytes()).unwrap();
    b.resolve().unwrap();
    let mut out = Vec::new();
    b.compile(&mut out).unwrap();
    out
}

/// The dictionary behind the checker: layers[0] is the system lexicon, the others are user lexicons in load order
/// (LexiconSet::lookup consults them last-loaded first, the system lexicon last).  The property and the model only
/// know the union of the words; which lexicon a word lives in must not matter.
#[derive(Clone, Debug, PartialEq)]
pub struct Lexicon {
    pub layers: Vec<Vec<String>>,
}
impl Lexicon {
    pub fn single(words: Vec<String>) -> Lexicon {
        Lexicon { layers: vec![words] }
    }
    pub fn flat(&self) -> Vec<String> {
        let mut v: Vec<String> = self.layers.iter().flatten().cloned().collect();
        v.sort();
        v.dedup();
        v
    }
    /// compiled dictionaries, system first
    pub fn compile(&self) -> Vec<Vec<u8>> {
        let sys = build_dict(&self.layers[0]);
        let mut out = vec![];
        for l in &self.layers[1..] {
            out.push(build_user_dict(&sys, l));
        }
        out.insert(0, sys);
        out
    }
}

#[derive(Debug, Clone, PartialEq)]
pub struct Outcome {
    pub eos: Option<i64>,                  // get_eos of the whole text; None = Err or panic
    pub ranges: Option<Vec<(usize, usize)>>, // None = panic / error / did not terminate
    pub slices_ok: bool,
    pub note: String,
}

pub fn run_impl(text: &str, limit: usize, dicts: Option<&[Vec<u8>]>) -> Outcome {
    // the system dictionary plus user dictionaries appended the way LoadedDictionary::merge_dictionary /
    // JapaneseDictionary::add_user do it
    let loaded = dicts.map(|ds| {
        let mut l = DictionaryLoader::read_system_dictionary(&ds[0]).unwrap().to_loaded().unwrap();
        for u in &ds[1..] {
            let npos = l.grammar.pos_list.len();
            let ud = DictionaryLoader::read_user_dictionary(u).unwrap();
            l.lexicon_set.append(ud.lexicon, npos).unwrap();
        }
        l
    });
    let mut note = String::new();
    let eos = {
        let checker = loaded.as_ref().map(|l| NonBreakChecker::new(&l.lexicon_set));
        let sd = SentenceDetector::with_limit(limit);
        match catch(|| sd.get_eos(text, checker.as_ref())) {
            Ok(Ok(v)) => Some(v as i64),
            Ok(Err(e)) => {
                note = format!("get_eos error: {:?}", e);
                None
            }
            Err(p) => {
                note = format!("get_eos panicked: {}", p);
                None
            }
        }
    };
    let mut slices_ok = true;
    let ranges = {
        let sp = SentenceSplitter::with_limit(limit);
        let sp = match loaded.as_ref() {
            Some(l) => sp.with_checker(&l.lexicon_set),
            None => sp,
        };
        let cap = text.len() + 2;
        let r = catch(|| {
            let mut v = vec![];
            let mut ok = true;
            for (r, s) in sp.split(text) {
                if text.get(r.clone()) != Some(s) {
                    ok = false;
                }
                v.push((r.start, r.end));
                if v.len() > cap {
                    return (None, ok);
                }
            }
            (Some(v), ok)
        });
        match r {
            Ok((Some(v), ok)) => {
                slices_ok = ok;
                Some(v)
            }
            Ok((None, _)) => {
                note = "iterator did not terminate within |text|+2 steps".into();
                None
            }
            Err(p) => {
                note = format!("iterator panicked: {}", p);
                None
            }
        }
    };
    Outcome { eos, ranges, slices_ok, note }
}

// ------------------------------------------------------------------------------------------------
// property predicate on the implementation's output (Rust side; the Coq shard evaluates the same in Gallina)
// ------------------------------------------------------------------------------------------------
fn ends_after_terminator(t: &[char]) -> bool {
    let mut k = t.len();
    let mut saw = false;
    while k > 0 && (is_close(t[k - 1]) || is_comma(t[k - 1]) || is_period(t[k - 1]) || is_dot(t[k - 1])) {
        if is_period(t[k - 1]) || is_dot(t[k - 1]) {
            saw = true;
        }
        k -= 1;
    }
    if saw {
        return true;
    }
    let h = &t[..k];
    if h.len() >= 3 && h[h.len() - 3..].iter().all(|&c| c == '・') {
        return true;
    }
    h.len() >= 8 && br_tag_at(h, h.len() - 4) && br_tag_at(h, h.len() - 8)
}

/// long sentences abbreviated for messages
fn ab(t: &str) -> String {
    let n = t.chars().count();
    if n <= 48 {
        return t.to_string();
    }
    let head: String = t.chars().take(12).collect();
    let tail: String = t.chars().skip(n - 24).collect();
    format!("{}…({} characters)…{}", head, n, tail)
}

fn property_on_output(text: &str, chars: &[char], lex: Option<&[Vec<char>]>, limit: usize, o: &Outcome) -> Option<(String, &'static str)> {
    let mut known: Option<(String, &'static str)> = None;
    let ranges = match &o.ranges {
        None => return Some((format!("no partition produced: {}", o.note), "")),
        Some(r) => r,
    };
    if !o.slices_ok {
        return Some(("a reported slice differs from the text in its range".into(), ""));
    }
    let mut pos = 0;
    for (i, &(b, e)) in ranges.iter().enumerate() {
        if b != pos {
            return Some((format!("range {} starts at {} but the previous one ended at {}", i, b, pos), ""));
        }
        if e <= b {
            return Some((format!("range {} is empty", i), ""));
        }
        if !text.is_char_boundary(b) || e > text.len() || !text.is_char_boundary(e) {
            return Some((format!("range {} = {}..{} is not on character boundaries", i, b, e), ""));
        }
        pos = e;
    }
    if pos != text.len() {
        return Some((format!("ranges end at {} but the text has {} bytes", pos, text.len()), ""));
    }
    if ranges.len() > chars.len() {
        return Some(("more sentences than characters".into(), ""));
    }
    for (i, &(b, e)) in ranges.iter().enumerate() {
        let sent: Vec<char> = text[b..e].chars().collect();
        if i + 1 < ranges.len() {
            if !ends_after_terminator(&sent) {
                return Some((format!("sentence {} ({:?}) is not the last one and does not end after a terminator", i, ab(&text[b..e])), ""));
            }
            if paren_level(&sent) > 0 {
                return Some((format!("break after sentence {} ({:?}) lies inside an unclosed bracket", i, ab(&text[b..e])), ""));
            }
            if let Some(l) = lex {
                let cstart = text[..b].chars().count();
                let rest = &chars[cstart..];
                if non_break_word(rest, l, sent.len()) {
                    return Some((format!("break after sentence {} ({:?}) lies inside / at the end of a multi-character dictionary word", i, ab(&text[b..e])), ""));
                }
                if known.is_none() && word_across_unbounded(rest, l, sent.len()) {
                    // only words that start before the 30-byte look-back window are left: the recorded finding
                    known = Some((
                        format!("break after sentence {} ({:?}) lies inside / at the end of a multi-character dictionary word that starts more than 30 bytes before the break", i, ab(&text[b..e])),
                        CLASS_LOOKBACK,
                    ));
                }
            }
        }
        // converse (within the window): the first unvetoed terminator of the sentence is where it ends
        let cstart = text[..b].chars().count();
        let want = oracle_get_eos(&chars[cstart..], limit, lex);
        if want > 0 && (e - b) as i64 != want {
            return Some((
                format!("sentence {} starting at byte {}: an unvetoed terminator ends at +{} bytes but the sentence runs to +{}", i, b, want, e - b),
                "",
            ));
        }
    }
    known
}

// ------------------------------------------------------------------------------------------------
// generators
// ------------------------------------------------------------------------------------------------
const TERMS: [&str; 9] = ["。", "？", "！", "♪", "…", "?", "!", ".", "．"];
const OTHER: [&str; 46] = [
    "・", "・・・", ",", "，", "、", "<br>", "<BR>", "<br><br>", "<BR><br>", "<br", "br>", "<", ">", "a", "Z", "1", "９", "ａ", "〇", "十", "兆", "と", "っ", "で", "す",
    "や", "の", " ", "\n", "\t", "　", "あ", "京", "都", "に", "行", "た", "x", "😀", "é", "\r", "\u{a0}", "\u{2028}", "\u{85}", "\u{b}", " \n",
];

/// characters that are special inside a regex / a regex character class (the detector's building blocks are regex
/// fragments): they are ordinary text and must never act as terminator, bracket, comma or class member
const SPECIALS: [&str; 12] = ["\\", "\\\\", "\\n", "^", "-", "*", "+", "|", "$", "\\)", "\\]", "a-z"];

fn gen_text(rng: &mut Rng, maxlen: usize) -> String {
    let n = rng.below(maxlen as u64 + 1) as usize;
    let mut s = String::new();
    let mut count = 0;
    while count < n {
        // after a terminator, a bracket or a comma a special character follows quite often
        let after_punct = s.chars().last().map(|c| is_period(c) || is_dot(c) || is_close(c) || is_open(c) || is_comma(c) || c == '>').unwrap_or(false);
        if after_punct && rng.chance(1, 5) {
            let t = *rng.pick(&SPECIALS);
            s.push_str(t);
            count += t.chars().count();
            continue;
        }
        let t: &str = match rng.below(20) {
            0..=5 => *rng.pick(&TERMS),
            6 | 7 => {
                let cs: Vec<char> = OPEN.chars().collect();
                let c = *rng.pick(&cs);
                s.push(c);
                count += 1;
                continue;
            }
            8 | 9 => {
                let cs: Vec<char> = CLOSE.chars().collect();
                let c = *rng.pick(&cs);
                s.push(c);
                count += 1;
                continue;
            }
            10 => *rng.pick(&SPECIALS),
            _ => *rng.pick(&OTHER),
        };
        s.push_str(t);
        count += t.chars().count();
    }
    s
}

/// directed shapes named by the property: itemisation headers, numbers with periods, quoting particles, nesting
fn gen_directed(rng: &mut Rng) -> String {
    let shapes = [
        "あいう。\\えお", "保存先はどこですか？\\\\srv\\share。次", "しました。\\n次の行。", "あ。）\\い", "あ！」、\\い。う", "あ。^い", "あ。-い", "あ。]い。",
        "あ?|い", "あ。$い", "(あ\\)。い", "あ…*い+う。",
        "1. あいう。えお", "1.と2.が。", "1.やb.から。", "3.141", "四百十.〇", "あいう?です。", "あいう?って。", "あいう?という。", "あいう?の？です。",
        "あ（いう。え）お", "（あ（いう）。え）お", "あ（いう）。えお", "あいう?)えお", "あいう?,えお", "あいう!??", "京都に行った。東京に行った。",
        "モーニング娘。の歌。次", "ばな。なです。", "a.b", "あ.い", "あ. い", "「あ。」と言った。次", "『あ！』って。次", "(1) あ。(2) い。", "あ・・・い", "あ・・い。う",
        "あ<br><br>い", "あ<br>い<BR><BR><br>う", "“あ。”い。", "あ。）」、い", "１．あ。２．い", "a.\nb.\n", "あ  い  う", "。。。", "...", "．", "!", "あ。\nい。\n",
    ];
    let mut s = rng.pick(&shapes).to_string();
    // small perturbation: insert / delete / duplicate one piece
    if rng.chance(1, 2) {
        let cs: Vec<char> = s.chars().collect();
        let i = rng.below(cs.len() as u64 + 1) as usize;
        let ins = match rng.below(5) {
            0 | 1 => rng.pick(&TERMS).to_string(),
            2 => rng.pick(&SPECIALS).to_string(),
            _ => rng.pick(&OTHER).to_string(),
        };
        s = cs[..i].iter().collect::<String>() + &ins + &cs[i..].iter().collect::<String>();
    }
    if rng.chance(1, 4) {
        let cs: Vec<char> = s.chars().collect();
        if !cs.is_empty() {
            let i = rng.below(cs.len() as u64) as usize;
            s = cs[..i].iter().chain(cs[i + 1..].iter()).collect();
        }
    }
    s
}

fn gen_lexicon(rng: &mut Rng, chars: &[char]) -> Vec<String> {
    let mut words: Vec<String> = vec![];
    // one-character entries, terminators first
    for t in TERMS {
        if rng.chance(1, 2) {
            words.push(t.to_string());
        }
    }
    if rng.chance(1, 3) {
        words.push("<br>".into());
    }
    // substrings of the text: words containing / ending with / starting with a terminator, and others
    let n = chars.len();
    if n > 0 {
        for _ in 0..rng.below(6) {
            let i = rng.below(n as u64) as usize;
            let l = 1 + rng.below(4) as usize;
            let j = usize::min(n, i + l);
            let w: String = chars[i..j].iter().collect();
            if !w.contains('"') && !w.contains('\\') && !w.contains('\n') {
                words.push(w);
            }
        }
        // around terminators
        for (i, c) in chars.iter().enumerate() {
            if (is_period(*c) || is_dot(*c)) && rng.chance(1, 3) {
                let a = i.saturating_sub(rng.below(3) as usize);
                let b = usize::min(n, i + 1 + rng.below(3) as usize);
                let w: String = chars[a..b].iter().collect();
                if !w.contains('"') && !w.contains('\\') && !w.contains('\n') {
                    words.push(w);
                }
            }
        }
    }
    // long words ending with / containing a terminator: around the 30-byte look-back of the checker
    for (i, c) in chars.iter().enumerate() {
        if (is_period(*c) || is_dot(*c)) && i >= 8 && rng.chance(1, 5) {
            let a = i.saturating_sub(8 + rng.below(5) as usize);
            let b = usize::min(n, i + 1 + rng.below(2) as usize);
            let w: String = chars[a..b].iter().collect();
            if !w.contains('"') && !w.contains('\\') && !w.contains('\n') {
                words.push(w);
            }
        }
    }
    if rng.chance(1, 4) {
        words.push("モーニング娘。".into());
    }
    words.sort();
    words.dedup();
    words.retain(|w| !w.is_empty());
    if words.is_empty() {
        words.push("。".into());
    }
    words
}

/// Distribute a generated word list over a system lexicon and 0..3 user lexicons.  Words that contain a terminator get
/// companions with the same start (proper prefixes, one-character extensions) and companion and word are put into
/// DIFFERENT lexicons, in both directions (terminator word in a user lexicon / in the system lexicon); some words are
/// entered in two lexicons.
fn gen_layers(rng: &mut Rng, chars: &[char], words: Vec<String>) -> Lexicon {
    let nuser = match rng.below(6) {
        0 | 1 => 0,
        2 | 3 => 1,
        4 => 2,
        _ => 3,
    } as usize;
    let mut layers: Vec<Vec<String>> = vec![vec![]; nuser + 1];
    let ok = |w: &str| !w.is_empty() && !w.contains('"') && !w.contains('\\') && !w.contains('\n');
    for w in words {
        let wc: Vec<char> = w.chars().collect();
        let has_term = wc.iter().any(|&c| is_period(c) || is_dot(c));
        let home = rng.below(nuser as u64 + 1) as usize;
        if has_term && wc.len() >= 2 && rng.chance(2, 3) {
            // a companion that starts where w starts
            let comp: String = if rng.chance(3, 4) {
                wc[..1 + rng.below(wc.len() as u64 - 1) as usize].iter().collect()
            } else {
                // extension by the character that follows an occurrence of w in the text, if any
                let mut e = w.clone();
                if let Some(p) = (0..chars.len()).find(|&p| chars[p..].starts_with(&wc)) {
                    if p + wc.len() < chars.len() {
                        e.push(chars[p + wc.len()]);
                    }
                }
                e
            };
            if ok(&comp) && comp != w {
                let other = if nuser == 0 { 0 } else { (home + 1 + rng.below(nuser as u64) as usize) % (nuser + 1) };
                layers[other].push(comp);
            }
        }
        if nuser > 0 && rng.chance(1, 8) {
            let twin = (home + 1) % (nuser + 1);
            layers[twin].push(w.clone());
        }
        layers[home].push(w);
    }
    for l in layers.iter_mut() {
        l.sort();
        l.dedup();
    }
    if layers[0].is_empty() {
        // a system dictionary needs an entry; take one from a user lexicon if there is one
        let donor = layers.iter().position(|l| !l.is_empty());
        match donor {
            Some(d) => {
                let w = layers[d].pop().unwrap();
                layers[0].push(w);
            }
            None => layers[0].push("。".into()),
        }
    }
    let sys = layers.remove(0);
    let mut out = vec![sys];
    out.extend(layers.into_iter().filter(|l| !l.is_empty()));
    Lexicon { layers: out }
}

fn gen_limit(rng: &mut Rng, nchars: usize) -> usize {
    match rng.below(10) {
        0..=4 => 1 + rng.below(8) as usize,
        5..=6 => 4096,
        7 => usize::max(1, nchars.saturating_sub(1)),
        8 => usize::max(1, nchars),
        _ => nchars + 1,
    }
}

// ------------------------------------------------------------------------------------------------
// cases
// ------------------------------------------------------------------------------------------------
fn desc(text: &str, limit: usize, lex: &Option<Vec<String>>, layers: &Option<Lexicon>) -> Value {
    json!({"kind": "c16", "text": text, "limit": limit, "lexicon": lex,
           "layers": layers.as_ref().map(|l| l.layers.clone())})
}

fn one_case(sink: &mut Sink, text: &str, limit: usize, layers: &Option<Lexicon>, verbose: bool) {
    let chars: Vec<char> = text.chars().collect();
    let lex_flat: Option<Vec<String>> = layers.as_ref().map(|l| l.flat());
    let lex = &lex_flat;
    let lexc: Option<Vec<Vec<char>>> = lex.as_ref().map(|l| l.iter().map(|w| w.chars().collect()).collect());
    let dict = layers.as_ref().map(|l| l.compile());
    let out = run_impl(text, limit, dict.as_deref());
    if let Some(l) = layers {
        sink.tag(&format!("user_lexicons={}", l.layers.len() - 1));
    }
    let want_eos = oracle_get_eos(&chars, limit, lexc.as_deref());
    let want_ranges = oracle_split(&chars, limit, lexc.as_deref());
    if verbose {
        println!("text            : {:?}", text);
        println!("limit           : {}", limit);
        println!("lexicon (union) : {:?}", lex);
        println!("lexicon layers  : {:?}   (system first, then user dictionaries in load order)", layers.as_ref().map(|l| &l.layers));
        println!("impl get_eos    : {:?}   {}", out.eos, out.note);
        println!("impl sentences  : {:?}", out.ranges.as_ref().map(|r| r.iter().map(|&(b, e)| &text[b..e]).collect::<Vec<_>>()));
        println!("impl ranges     : {:?}", out.ranges);
        println!("oracle get_eos  : {}", want_eos);
        println!("oracle ranges   : {:?}", want_ranges);
    }
    let lex_term = match &lexc {
        None => "None".to_string(),
        Some(l) => format!("(Some {})", clist(l.iter().map(|w| clist(w.iter().map(|c| cn(*c as u32)))))),
    };
    let out_term = match (&out.eos, &out.ranges) {
        (Some(e), Some(r)) => format!("(Some ({}, {}))", cz(*e), clist(r.iter().map(|&(b, e)| cpair(&cnu(b), &cnu(e))))),
        _ => "None".to_string(),
    };
    let term = format!("check_case {} {} {} {}", ctext(text), cnu(limit), lex_term, out_term);
    let has_term = chars.iter().any(|&c| is_period(c) || is_dot(c)) || text.contains("・・・") || text.to_lowercase().contains("<br><br>");
    let nsent = out.ranges.as_ref().map(|r| r.len()).unwrap_or(0);
    sink.tag(if lex.is_some() { "with_checker" } else { "no_checker" });
    sink.tag(&format!("limit={}", if limit <= 8 { limit.to_string() } else if limit == 4096 { "4096".into() } else { "text-relative".into() }));
    sink.tag(&format!("sentences={}", usize::min(nsent, 6)));
    if chars.len() > limit {
        sink.tag("text_longer_than_window");
    }
    if has_term && nsent == 1 {
        sink.tag("terminator_present_but_single_sentence");
    }
    if chars.iter().any(|&c| is_open(c) || is_close(c)) {
        sink.tag("has_brackets");
    }
    let verdict = property_on_output(text, &chars, lexc.as_deref(), limit, &out);
    let mut d = desc(text, limit, lex, layers);
    if let Some((_, cls)) = &verdict {
        if !cls.is_empty() {
            d["known_class"] = json!(cls);
            sink.tag("known_finding_lookback");
        }
    }
    let id = sink.case(term, d, has_term);
    if let Some((why, cls)) = verdict {
        if cls.is_empty() || (out.eos == Some(want_eos) && out.ranges.as_ref() == Some(&want_ranges)) {
            sink.fail(id, &why, cls);
        } else {
            sink.fail(id, &format!("{}; moreover implementation and reference matcher differ", why), "");
        }
    } else if out.eos != Some(want_eos) {
        sink.fail(id, &format!("get_eos returned {:?} but the reference matcher gives {}", out.eos, want_eos), "");
    } else if out.ranges.as_ref() != Some(&want_ranges) {
        sink.fail(id, &format!("sentence ranges {:?} differ from the reference {:?}", out.ranges, want_ranges), "");
    }
}

/// More than 65,536 BYTES of unpunctuated text, then a dictionary word that contains a terminator, then more text; windows
/// above and just below the length of the text, with the checker.  Byte offsets of dictionary words found there exceed
/// every 16-bit quantity (the model's offsets are unbounded).  Directed: the same two cases under every seed.
fn wide_cases() -> Vec<(String, usize, Option<Lexicon>)> {
    let n = 21_900; // x 3 bytes = 65,700
    let text: String = std::iter::repeat('あ').take(n).collect::<String>() + "ばな。なです。つぎの文。おわり";
    let lex = |ls: &[&[&str]]| Some(Lexicon { layers: ls.iter().map(|x| x.iter().map(|s| s.to_string()).collect()).collect() });
    vec![
        (text.clone(), 100_000, lex(&[&["な。な", "。", "です"]])),
        // the window ends inside the word: its tail lies beyond the window but inside the text
        (text, n + 5, lex(&[&["。", "な"], &["な。な"]])),
    ]
}

fn corpus() -> Vec<(String, usize, Option<Lexicon>)> {
    let mut w: Vec<(String, usize, Option<Lexicon>)> = vec![];
    // words that contain / end with the terminator live in a user lexicon while the system lexicon has a word with the
    // same start (and the other way round): which lexicon a word comes from must not matter
    let l = |ls: &[&[&str]]| Some(Lexicon { layers: ls.iter().map(|x| x.iter().map(|s| s.to_string()).collect()).collect() });
    w.push(("東京娘。に行く。東京".into(), 4096, l(&[&["東", "東京", "に", "行く"], &["東京娘。"]])));
    w.push(("京都。府に行く。東京".into(), 4096, l(&[&["京都", "東京", "に"], &["京都。府"]])));
    w.push(("東京娘。に行く。東京".into(), 4096, l(&[&["東京娘。", "に"], &["東", "東京"]])));
    w.push(("東京娘。に行く。東京".into(), 4096, l(&[&["に"], &["東京娘。"], &["東京"], &["東"]])));
    w.push(("東京娘。に行く。東京".into(), 4096, l(&[&["に"], &["東京"], &["東京娘。"], &["東"]])));
    let mut v: Vec<(String, usize, Option<Vec<String>>)> = vec![];
    // the reproduced defect of the pinned tree: a one-character entry equal to the terminator must not suppress the break
    v.push(("京都に行った。東京に行った。".into(), 4096, Some(vec!["。".into()])));
    v.push(("京都に行った。東京に行った。".into(), 4096, Some(vec!["。".into(), "京都".into(), "に".into(), "た".into()])));
    v.push(("あ？い！う".into(), 4096, Some(vec!["？".into(), "！".into()])));
    // a multi-character word containing / ending with the terminator does suppress it
    v.push(("モーニング娘。の歌。次".into(), 4096, Some(vec!["モーニング娘。".into(), "。".into()])));
    v.push(("ばな。なです。".into(), 4096, Some(vec!["な。な".into()])));
    v.push(("あ。いう".into(), 4096, Some(vec!["。".into(), "。い".into()])));
    // recorded finding: a dictionary word that starts more than 30 bytes before the break is not seen by the checker
    v.push(("あいうえおかきくけこさ。い".into(), 4096, Some(vec!["あいうえおかきくけこさ。".into()])));
    v.push(("ああいうえおかきくけこ。い".into(), 4096, Some(vec!["あいうえおかきくけこ。".into()]))); // 11 characters = 33 bytes: still seen? (starts 33 bytes back: not seen)
    v.push(("あいうえおかきくけ。い".into(), 4096, Some(vec!["あいうえおかきくけ。".into()]))); // 10 characters = 30 bytes: seen, no break
    // window limits: negative eos sends the iterator to the end of the text
    v.push(("あいうえおか。き。".into(), 3, None));
    v.push(("あい。うえお。".into(), 5, None));
    v.push(("あ い うえお".into(), 5, None));
    v.push(("😀。😀。😀".into(), 2, None));
    // pinned unit tests of the detector
    for t in ["あいうえお。", "あいう。えお。", "あいう。。えお。", "あいうえお", "あいう えお。", "", "あいう.えお", "3.141", "四百十.〇", "あいうえお!??",
        "あ（いう。え）お", "（あ（いう）。え）お", "あ（いう）。えお", "1. あいう。えお", "あいう?えお", "あいう?)えお", "あいう?,えお", "あいう?です。", "あいう?って。",
        "あいう?という。", "あいう?の？です。", "1.と2.が。", "1.やb.から。", "1.の12.が。", "テスト。テスト", "　振り返って見ると白い物！　女が軒下で招いている。"] {
        v.push((t.into(), 4096, None));
    }
    w.extend(v.into_iter().map(|(t, l, lex)| (t, l, lex.map(Lexicon::single))));
    w
}

fn long_text(rng: &mut Rng, nchars: usize) -> String {
    let mut s = String::new();
    let mut n = 0;
    while n < nchars {
        let t = gen_text(rng, 30);
        n += t.chars().count();
        s.push_str(&t);
        if rng.chance(1, 3) {
            s.push_str("あいうえおかきくけこ");
            n += 10;
        }
    }
    s
}

// ------------------------------------------------------------------------------------------------
// the command-line tool (sudachi-cli/src/analysis.rs): sentence boundaries visible in its output
// ------------------------------------------------------------------------------------------------
use std::path::{Path, PathBuf};
use std::process::Command;
use sudachi::config::Config;
use sudachi::dic::dictionary::JapaneseDictionary;

/// a dictionary configuration the tool is run with
struct CliDict {
    name: String,
    cfg: PathBuf,
    res: PathBuf,
    dict: JapaneseDictionary,
    layers: Option<Lexicon>, // Some = generated in this run (replay rebuilds it)
    pool: Vec<String>,       // surfaces to build lines from
}

/// the lexicon oracle restricted to one text: every dictionary word (system + user lexicons, as LexiconSet::lookup
/// reports them) that occurs in the text.  On this text lookup_lex over these words equals the real lookup.
fn words_in_text(dict: &JapaneseDictionary, text: &str) -> Vec<String> {
    let mut v = vec![];
    for (i, _) in text.char_indices() {
        for e in dict.lexicon().lookup(text.as_bytes(), i) {
            if let Some(w) = text.get(i..e.end as usize) {
                v.push(w.to_string());
            }
        }
    }
    v.sort();
    v.dedup();
    v
}

fn first_columns(csv: &str) -> Vec<String> {
    let mut v = vec![];
    for l in csv.lines() {
        if l.starts_with('"') {
            continue;
        }
        if let Some(w) = l.split(',').next() {
            if !w.is_empty() && !w.contains('\\') {
                v.push(w.to_string());
            }
        }
    }
    v
}

fn test_cli_dict() -> CliDict {
    let res = PathBuf::from(format!("{}/python/tests/resources", repo()));
    let cfg = res.join("sudachi.json");
    let config = Config::new(Some(cfg.clone()), Some(res.clone()), None).expect("test configuration");
    let dict = JapaneseDictionary::from_cfg(&config).expect("test dictionary");
    let mut pool = vec![];
    for f in ["lex.csv", "user1.csv", "user2.csv"] {
        if let Ok(t) = std::fs::read_to_string(res.join(f)) {
            pool.extend(first_columns(&t));
        }
    }
    pool.sort();
    pool.dedup();
    CliDict { name: "test".into(), cfg, res, dict, layers: None, pool }
}

/// system + user dictionaries written to `dir`, with a configuration that needs no plugin objects
fn generated_cli_dict(dir: &Path, layers: &Lexicon) -> CliDict {
    std::fs::create_dir_all(dir).unwrap();
    let res = PathBuf::from(format!("{}/python/tests/resources", repo()));
    let bins = layers.compile();
    let mut users = vec![];
    for (k, b) in bins.iter().enumerate() {
        let f = dir.join(if k == 0 { "system.dic".to_string() } else { format!("user{}.dic", k) });
        std::fs::write(&f, b).unwrap();
        if k > 0 {
            users.push(f.to_string_lossy().to_string());
        }
    }
    let cfgv = json!({
        "systemDict": dir.join("system.dic").to_string_lossy(),
        "userDict": users,
        "characterDefinitionFile": "char.def",
        "inputTextPlugin": [],
        "oovProviderPlugin": [{"class": "com.worksap.nlp.sudachi.SimpleOovPlugin",
                               "oovPOS": ["名詞", "普通名詞", "一般", "*", "*", "*"], "leftId": 0, "rightId": 0, "cost": 10000}],
        "pathRewritePlugin": []
    });
    let cfg = dir.join("sudachi.json");
    std::fs::write(&cfg, serde_json::to_string_pretty(&cfgv).unwrap()).unwrap();
    let config = Config::new(Some(cfg.clone()), Some(res.clone()), None).expect("generated configuration");
    let dict = JapaneseDictionary::from_cfg(&config).expect("generated dictionary");
    CliDict { name: "generated".into(), cfg, res, dict, layers: Some(layers.clone()), pool: layers.flat() }
}

const CLI_PLAIN: [&str; 38] = [
    "\\", "\\n", "^", "-", "*", "+", "|", "$",
    "。", "？", "！", "…", "?", "!", ".", "．", "、", ",", "・・・", "<br><br>", "（", "）", "「", "」", "(", ")", "と", "っ", "です", "の", "あ", "京都", "に",
    "行った", "1", "a", "　", "😀",
];

/// lines every run of the tool gets, whatever the seed: the only terminator is the repeated line-break tag, only a run
/// of middle dots, mixtures, and specials right after terminators
const CLI_DIRECTED: [&str; 16] = [
    "あ<br><br>い", "京都<BR><br>に行った", "あ<br><BR><br>", "<br><br>あ", "あ<br>い", "あ・・・い", "あ・・い", "・・・・あ", "あ<br><br>い。う", "あ・・・い<br><br>う",
    "あ（い<br><br>う）え<BR><BR>お", "あ<br><br>」い", "あいう。\\えお", "どこですか？\\\\srv", "あ。）\\い", "あ。^い-う|え$",
];

fn cli_line(rng: &mut Rng, pool: &[String], term_words: &[String]) -> String {
    let n = rng.below(9) as usize;
    let mut s = String::new();
    for _ in 0..n {
        match rng.below(10) {
            0..=2 if !term_words.is_empty() => s.push_str(rng.pick(term_words).as_str()),
            3..=5 if !pool.is_empty() => s.push_str(rng.pick(pool).as_str()),
            _ => s.push_str(*rng.pick(&CLI_PLAIN)),
        }
    }
    // the tool reads lines; blanks separate the surfaces of the -w output, tabs the columns of the default output
    s.retain(|c| c != '\n' && c != '\r' && c != '\t' && c != ' ' && c != '\0');
    s
}

fn file_bytes(rng: &mut Rng, lines: &[String]) -> Vec<u8> {
    let mut f = String::new();
    for (i, l) in lines.iter().enumerate() {
        f.push_str(l);
        if i + 1 < lines.len() || rng.chance(1, 2) {
            f.push_str(if rng.chance(1, 4) { "\r\n" } else { "\n" });
        }
    }
    f.into_bytes()
}

/// the sentences the tool shows: default output = first columns joined up to each EOS line; -w = one line per
/// sentence, surfaces separated by blanks
fn shown_sentences(stdout: &str, wakati: bool) -> Result<Vec<String>, String> {
    let mut v = vec![];
    if wakati {
        for l in stdout.split_terminator('\n') {
            v.push(l.replace(' ', ""));
        }
        return Ok(v);
    }
    let mut cur = String::new();
    for l in stdout.split_terminator('\n') {
        if l == "EOS" {
            v.push(std::mem::take(&mut cur));
        } else {
            match l.split('\t').next() {
                Some(sf) if l.contains('\t') => cur.push_str(sf),
                _ => return Err(format!("output line {:?} is neither EOS nor a morpheme line", l)),
            }
        }
    }
    if !cur.is_empty() {
        return Err("output ends inside a sentence (no final EOS)".into());
    }
    Ok(v)
}

fn run_tool(cli: &str, d: &CliDict, flags: &[String], file: &Path) -> Result<String, String> {
    let o = Command::new(cli).arg("-r").arg(&d.cfg).arg("-p").arg(&d.res).args(flags).arg(file).output().map_err(|e| format!("cannot run {}: {}", cli, e))?;
    if !o.status.success() {
        return Err(format!("the tool exited with {:?}: {}", o.status.code(), String::from_utf8_lossy(&o.stderr).chars().take(300).collect::<String>()));
    }
    String::from_utf8(o.stdout).map_err(|_| "the tool's output is not UTF-8".to_string())
}

/// one run of the tool over a file; one case per input line
fn cli_run(sink: &mut Sink, cli: &str, d: &CliDict, flags: &[&str], lines: &[String], file: &Path, verbose: bool) {
    cli_run_opt(sink, cli, d, flags, lines, file, verbose, true)
}

/// with_model = false: lines of more than 4000 bytes are compared with the Rust reference only (no Coq term)
#[allow(clippy::too_many_arguments)]
fn cli_run_opt(sink: &mut Sink, cli: &str, d: &CliDict, flags: &[&str], lines: &[String], file: &Path, verbose: bool, with_model: bool) {
    let flags: Vec<String> = flags.iter().map(|s| s.to_string()).collect();
    let wakati = flags.iter().any(|f| f == "-w");
    let only = flags.windows(2).any(|w| w[0] == "--split-sentences" && w[1] == "only");
    let out = run_tool(cli, d, &flags, file);
    if verbose {
        println!("tool flags      : {:?}", flags);
        println!("tool stdout     : {:?}", out);
    }
    let base = |line: &str| json!({"kind": "c16-cli", "dict": d.name, "layers": d.layers.as_ref().map(|l| l.layers.clone()), "flags": flags, "line": line});
    if only {
        // `only` writes the sentences back to back: the boundaries are not visible, the text must be
        let id = sink.case_rust_only(json!({"kind": "c16-cli", "dict": d.name, "layers": d.layers.as_ref().map(|l| l.layers.clone()), "flags": flags, "lines": lines}), true);
        sink.tag("cli_only_mode_file");
        match out {
            Ok(o) if o == lines.concat() => {}
            Ok(o) => sink.fail(id, &format!("--split-sentences only printed {:?} for the lines {:?}", ab(&o), lines.iter().map(|l| ab(l)).collect::<Vec<_>>()), ""),
            Err(e) => sink.fail(id, &e, ""),
        }
        return;
    }
    let shown = match out.and_then(|o| shown_sentences(&o, wakati)) {
        Ok(v) => v,
        Err(e) => {
            let id = sink.case_rust_only(json!({"kind": "c16-cli", "dict": d.name, "layers": d.layers.as_ref().map(|l| l.layers.clone()), "flags": flags, "lines": lines}), true);
            sink.fail(id, &e, "");
            return;
        }
    };
    // attribute the shown sentences to the input lines: the sentences of a line concatenate to the line
    let mut k = 0;
    for line in lines {
        let mut ranges: Option<Vec<(usize, usize)>> = Some(vec![]);
        let mut pos = 0;
        while pos < line.len() {
            match shown.get(k) {
                Some(s) if !s.is_empty() && line[pos..].starts_with(s.as_str()) => {
                    ranges.as_mut().unwrap().push((pos, pos + s.len()));
                    pos += s.len();
                    k += 1;
                }
                _ => {
                    ranges = None;
                    break;
                }
            }
        }
        let chars: Vec<char> = line.chars().collect();
        let lex = words_in_text(&d.dict, line);
        let lexc: Vec<Vec<char>> = lex.iter().map(|w| w.chars().collect()).collect();
        let want = oracle_split(&chars, 4096, Some(&lexc));
        let lex_term = format!("(Some {})", clist(lexc.iter().map(|w| clist(w.iter().map(|c| cn(*c as u32))))));
        let out_term = match &ranges {
            Some(r) => format!("(Some {})", clist(r.iter().map(|&(b, e)| cpair(&cnu(b), &cnu(e))))),
            None => "None".to_string(),
        };
        let term = format!("check_split {} {} {} {}", ctext(line), cnu(4096), lex_term, out_term);
        let mut dsc = base(line);
        dsc["lexicon"] = json!(lex);
        let has_term = chars.iter().any(|&c| is_period(c) || is_dot(c));
        let id = if with_model || line.len() <= 4000 { sink.case(term, dsc, has_term) } else { sink.case_rust_only(dsc, has_term) };
        sink.tag(&format!("cli_{}_{}", d.name, if wakati { "wakati" } else { "default" }));
        if lex.iter().any(|w| w.chars().count() > 1 && w.chars().any(|c| is_period(c) || is_dot(c))) {
            sink.tag("cli_line_with_terminator_word");
        }
        if verbose {
            println!("line            : {:?}", line);
            println!("words in line   : {:?}", lex);
            println!("tool sentences  : {:?}", ranges.as_ref().map(|r| r.iter().map(|&(b, e)| &line[b..e]).collect::<Vec<_>>()));
            println!("model sentences : {:?}", want.iter().map(|&(b, e)| &line[b..e]).collect::<Vec<_>>());
        }
        match &ranges {
            None => {
                sink.fail(id, &format!("the sentences shown by the tool ({:?} ...) do not concatenate to the line {:?}", shown.get(k).map(|x| ab(x)), ab(line)), "");
                return; // attribution is lost for the rest of the file
            }
            Some(r) if *r != want && line.len() > 400 => {
                let k0 = (0..r.len().min(want.len())).find(|&k| r[k] != want[k]).unwrap_or(r.len().min(want.len()));
                let show = |v: &Vec<(usize, usize)>| v.get(k0).map(|&(b, e)| format!("{:?} (bytes {}..{})", ab(&line[b..e]), b, e)).unwrap_or("nothing".into());
                sink.fail(
                    id,
                    &format!(
                        "tool {:?} on a line of {} bytes ({}): {} sentences, the splitter with the dictionary as checker gives {}; sentence {} is {} but should be {}",
                        flags,
                        line.len(),
                        ab(line),
                        r.len(),
                        want.len(),
                        k0,
                        show(r),
                        show(&want)
                    ),
                    "",
                )
            }
            Some(r) if *r != want => sink.fail(
                id,
                &format!(
                    "tool {:?} on line {:?}: sentences {:?}, but the splitter with the dictionary as checker gives {:?}",
                    flags,
                    line,
                    r.iter().map(|&(b, e)| &line[b..e]).collect::<Vec<_>>(),
                    want.iter().map(|&(b, e)| &line[b..e]).collect::<Vec<_>>()
                ),
                "",
            ),
            _ => {}
        }
    }
    if k != shown.len() {
        let id = sink.case_rust_only(json!({"kind": "c16-cli", "dict": d.name, "layers": d.layers.as_ref().map(|l| l.layers.clone()), "flags": flags, "lines": lines}), true);
        sink.fail(id, &format!("the tool showed {} sentences more than the lines account for", shown.len() - k), "");
    }
}

fn cli_section(sink: &mut Sink, rng: &mut Rng, args: &Args) {
    let cli = std::env::var("VERIF_CLI_BIN").unwrap_or_default();
    if cli.is_empty() || !Path::new(&cli).exists() {
        let id = sink.case_rust_only(json!({"kind": "c16-cli", "note": "VERIF_CLI_BIN not set: the command-line tool was not built"}), false);
        sink.fail(id, "the command-line tool is not available (pre_build step py_cli did not run)", "");
        return;
    }
    let dir = args.work.join("cli");
    std::fs::create_dir_all(&dir).unwrap();
    let nlines = args.n(36, 400);
    // (a) the test configuration of the repository
    let a = test_cli_dict();
    let is_term_word = |w: &String| w.chars().count() > 1 && w.chars().any(|c| is_period(c) || is_dot(c));
    let a_terms: Vec<String> = a.pool.iter().filter(|w| is_term_word(w)).cloned().collect();
    // (b) a generated layered dictionary: words around the terminators of the generated lines
    let mut seed_lines: Vec<String> = (0..nlines).map(|_| cli_line(rng, &[], &[])).collect();
    let sample: Vec<char> = seed_lines.iter().take(12).flat_map(|l| l.chars()).collect();
    let mut ws = gen_lexicon(rng, &sample);
    ws.retain(|w| !w.contains(' ') && !w.contains('\t') && !w.contains('\r') && !w.contains('\0'));
    let layers = gen_layers(rng, &sample, ws);
    let b = generated_cli_dict(&dir.join("gen"), &layers);
    let b_terms: Vec<String> = b.pool.iter().filter(|w| is_term_word(w)).cloned().collect();
    let runs: [(&CliDict, &[String], &[&str]); 7] = [
        (&a, &a_terms, &[]),
        (&a, &a_terms, &["--split-sentences", "yes", "-w"]),
        (&a, &a_terms, &["--split-sentences", "default", "-m", "A"]),
        (&a, &a_terms, &["--split-sentences", "only"]),
        (&b, &b_terms, &["--split-sentences", "yes"]),
        (&b, &b_terms, &["--split-sentences", "default", "-w", "-m", "B"]),
        (&b, &b_terms, &["--split-sentences", "only"]),
    ];
    for (k, (d, terms, flags)) in runs.iter().enumerate() {
        let mut lines: Vec<String> = (0..nlines).map(|_| cli_line(rng, &d.pool, terms)).collect();
        if d.layers.is_some() {
            lines.extend(seed_lines.drain(..usize::min(12, seed_lines.len())));
        }
        lines.push(String::new());
        lines.extend(CLI_DIRECTED.iter().map(|l| l.to_string()));
        let file = dir.join(format!("input{}.txt", k));
        std::fs::write(&file, file_bytes(rng, &lines)).unwrap();
        cli_run(sink, &cli, d, flags, &lines, &file, false);
    }
    // one very long line (longer than the tokenizer's input limit of 49149 bytes, every sentence far shorter) in the
    // splitting modes: the sentences must be those of the splitter on the whole line
    let long = cli_long_line(&[49149, 49148, 49147, 49150, 49151]);
    for (k, flags) in [&[][..], &["--split-sentences", "yes", "-w"][..], &["--split-sentences", "only"][..]].iter().enumerate() {
        let lines = vec!["短い行。次".to_string(), long.clone(), "おわり。".to_string()];
        let file = dir.join(format!("long{}.txt", k));
        std::fs::write(&file, lines.join("\n") + "\n").unwrap();
        cli_run_opt(sink, &cli, &a, flags, &lines, &file, false, k == 0);
        sink.tag("cli_line_longer_than_tokenizer_limit");
    }
}

/// One input line of 60,000..70,000 bytes made of many ordinary sentences of varying length (1-3 byte characters, no
/// brackets, no dictionary word with a terminator); no sentence of the reference split ends at a byte offset in
/// `avoid` (the tool must hand the WHOLE line to the splitter: nothing may cut it before).  The same for every seed.
fn cli_long_line(avoid: &[usize]) -> String {
    let pieces = ["京都に行った", "東京", "abc", "é", "テスト", "1,5", "ｘ", "に", "xyzw", "都", "東京都に", "ß"];
    let ends = ["。", "！", "？", "…", "。", "!?", "。"];
    let mut line = String::new();
    let mut i = 0usize;
    while line.len() < 64_000 {
        let j = 6 + (i * 7) % 23;
        for t in 0..j {
            line.push_str(pieces[(i * 5 + t * 3) % pieces.len()]);
        }
        line.push_str(ends[i % ends.len()]);
        i += 1;
    }
    loop {
        let chars: Vec<char> = line.chars().collect();
        let r = oracle_split(&chars, 4096, None);
        if r.len() > 500 && !r.iter().any(|&(_, e)| avoid.contains(&e)) {
            return line;
        }
        line.insert(0, 'あ');
    }
}

fn cli_replay(sink: &mut Sink, c: &Value, args: &Args) {
    let cli = std::env::var("VERIF_CLI_BIN").unwrap_or_default();
    let dir = args.work.join("cli-replay");
    std::fs::create_dir_all(&dir).unwrap();
    let strs = |a: &Vec<Value>| -> Vec<String> { a.iter().map(|w| w.as_str().unwrap().to_string()).collect() };
    let d = match c["layers"].as_array() {
        Some(ls) => generated_cli_dict(&dir.join("gen"), &Lexicon { layers: ls.iter().map(|l| strs(l.as_array().unwrap())).collect() }),
        None => test_cli_dict(),
    };
    let flags = c["flags"].as_array().map(strs).unwrap_or_default();
    let flags: Vec<&str> = flags.iter().map(|s| s.as_str()).collect();
    let lines: Vec<String> = match c["line"].as_str() {
        Some(l) => vec![l.to_string()],
        None => c["lines"].as_array().map(strs).unwrap_or_default(),
    };
    let file = dir.join("input.txt");
    std::fs::write(&file, lines.join("\n") + "\n").unwrap();
    cli_run(sink, &cli, &d, &flags, &lines, &file, true);
}

pub fn run(args: &Args) {
    let mut sink = Sink::new("C16", &args.out, &["Model.Sentence"], args.seed, &args.tier);
    sink.shard_size = 120;
    sink.rule("texts over an alphabet of terminators, periods/full-width dots, middle dots, commas, regex-special characters (backslash ^ - * + | $, often right after a terminator / bracket / comma), <br>/<BR> tags and fragments, all bracket kinds, alphanumerics incl. kanji numerals, quoting particles, whitespace, 1-4 byte characters; directed shapes (itemisation headers, decimals, quotes, nesting) with one-piece perturbations; limits 1..8, 4096, |text|-1..|text|+1; two directed texts with more than 65,536 bytes before a dictionary word containing a terminator (windows 100,000 and |unpunctuated part|+5); without checker or with a checker over a system dictionary + 0..3 user dictionaries compiled in memory (one-character terminator entries, substrings of the text around terminators, long words; words containing a terminator and words with the same start are put into different lexicons, both directions, some words entered twice); command-line tool built from the working tree: one directed line of ~64,000 bytes made of many short sentences (longer than the tokenizer's input limit) in the default, -w and `only` modes; multi-line files (dictionary words incl. those containing terminators, plain pieces, brackets, blank lines, CRLF) x {default, -w} x --split-sentences {yes, default, only} x modes over the repository's test configuration and over a generated system + user dictionary; the sentences visible in the output (EOS lines / wakati lines) must be the model's with the dictionary words of the line as lexicon oracle; non-trivial = the text contains a terminator candidate; distinct by generated Coq term");
    if let Some(p) = &args.replay {
        let v: Value = serde_json::from_str(&std::fs::read_to_string(p).unwrap()).unwrap();
        let c = &v["case"];
        if c["kind"] == "c16-cli" {
            cli_replay(&mut sink, c, args);
            sink.finish();
            return;
        }
        if c["kind"] == "c16-big" {
            let nch = c["chars"].as_u64().unwrap() as usize;
            let limit = c["limit"].as_u64().unwrap() as usize;
            let text: String = std::iter::repeat('あ').take(nch).collect::<String>() + "。い";
            let out = run_impl(&text, limit, None);
            println!("{} x 'あ' + '。い', window {}: get_eos {:?}, ranges {:?} {}", nch, limit, out.eos, out.ranges, out.note);
            let id = sink.case_rust_only(c.clone(), true);
            if out.ranges.is_none() {
                sink.fail(id, &out.note, "");
            }
            sink.finish();
            return;
        }
        let text = c["text"].as_str().unwrap().to_string();
        let limit = c["limit"].as_u64().unwrap() as usize;
        let strs = |a: &Vec<Value>| -> Vec<String> { a.iter().map(|w| w.as_str().unwrap().to_string()).collect() };
        let lex: Option<Lexicon> = match c["layers"].as_array() {
            Some(ls) => Some(Lexicon { layers: ls.iter().map(|l| strs(l.as_array().unwrap())).collect() }),
            None => c["lexicon"].as_array().map(|a| Lexicon::single(strs(a))),
        };
        one_case(&mut sink, &text, limit, &lex, true);
        sink.finish();
        return;
    }
    if let Ok(n) = std::env::var("C16_EXPLORE") {
        explore(args, n.parse().unwrap());
        return;
    }
    let mut rng = Rng::new(args.seed);
    for (t, l, lex) in corpus() {
        one_case(&mut sink, &t, l, &lex, false);
        sink.tag("corpus");
    }
    // windows far beyond the default: implementation only (too large for the Coq evaluation); the regex engine's
    // backtrack limit must not turn them into an error / panic
    for (nch, limit) in [(350_000usize, usize::MAX), (350_000, 349_999), (400_000, 1_000_000)] {
        let text: String = std::iter::repeat('あ').take(nch).collect::<String>() + "。い";
        let out = run_impl(&text, limit, None);
        let want = if limit > nch { Some(vec![(0, 3 * nch + 3), (3 * nch + 3, 3 * nch + 6)]) } else { Some(vec![(0, 3 * nch + 6)]) };
        let id = sink.case_rust_only(json!({"kind": "c16-big", "chars": nch, "limit": limit}), true);
        sink.tag("huge_window_rust_only");
        if out.ranges != want {
            sink.fail(id, &format!("{} x 'あ' + '。い' with window {}: expected ranges {:?}, got {:?} {}", nch, limit, want, out.ranges, out.note), "");
        }
    }
    // the command-line tool: default / wakati output in the splitting modes, test and generated dictionaries
    cli_section(&mut sink, &mut rng, args);
    let n = args.n(1300, 30000);
    let nlong = args.n(4, 40);
    let mut longs = 0;
    let mut wides = wide_cases();
    for k in 0..n {
        // a window of more than 64 KiB, one per shard
        if k % sink.shard_size == 100 && !wides.is_empty() {
            let (t, l, lex) = wides.remove(0);
            one_case(&mut sink, &t, l, &lex, false);
            sink.tag("more_than_64KiB_before_the_word");
        }
        // texts longer than the default window, one per shard (their model evaluation is the slowest)
        if k % sink.shard_size == 60 && longs < nlong {
            longs += 1;
            let extra = rng.below(200) as usize;
            let text = long_text(&mut rng, 4100 + extra);
            let chars: Vec<char> = text.chars().collect();
            let lex = if rng.chance(1, 2) { let ws = gen_lexicon(&mut rng, &chars[..40]); Some(gen_layers(&mut rng, &chars[..40], ws)) } else { None };
            one_case(&mut sink, &text, 4096, &lex, false);
            sink.tag("long_text_default_window");
        }
        let text = match k % 4 {
            0 => gen_directed(&mut rng),
            1 => gen_text(&mut rng, 8),
            _ => gen_text(&mut rng, 24),
        };
        let chars: Vec<char> = text.chars().collect();
        let limit = gen_limit(&mut rng, chars.len());
        let lex = if rng.chance(1, 2) { let ws = gen_lexicon(&mut rng, &chars); Some(gen_layers(&mut rng, &chars, ws)) } else { None };
        one_case(&mut sink, &text, limit, &lex, false);
    }
    sink.finish();
}

/// development aid: reference matcher vs implementation on many inputs, no Coq side
fn explore(args: &Args, n: usize) {
    if std::env::var("C16_BIG").is_ok() {
        for (nch, limit) in [(300_000usize, usize::MAX), (1_100_000, usize::MAX), (1_100_000, 4096), (2_000_000, 1_500_000)] {
            let text: String = std::iter::repeat('あ').take(nch).collect::<String>() + "。い";
            let t0 = std::time::Instant::now();
            let out = run_impl(&text, limit, None);
            println!("big: {} chars limit {} -> eos {:?} ranges {:?} note {:?} ({:?})", nch, limit, out.eos, out.ranges.map(|r| r.len()), out.note, t0.elapsed());
        }
        return;
    }
    let mut rng = Rng::new(args.seed);
    let mut bad = 0;
    for k in 0..n {
        let text = match k % 4 {
            0 => gen_directed(&mut rng),
            1 => gen_text(&mut rng, 8),
            _ => gen_text(&mut rng, 24),
        };
        let chars: Vec<char> = text.chars().collect();
        let limit = gen_limit(&mut rng, chars.len());
        let lex = if rng.chance(1, 2) { let ws = gen_lexicon(&mut rng, &chars); Some(gen_layers(&mut rng, &chars, ws)) } else { None };
        let lexc: Option<Vec<Vec<char>>> = lex.as_ref().map(|l| l.flat().iter().map(|w| w.chars().collect()).collect());
        let dict = lex.as_ref().map(|l| l.compile());
        let out = run_impl(&text, limit, dict.as_deref());
        let we = oracle_get_eos(&chars, limit, lexc.as_deref());
        let wr = oracle_split(&chars, limit, lexc.as_deref());
        let prop = property_on_output(&text, &chars, lexc.as_deref(), limit, &out);
        if out.eos != Some(we) || out.ranges.as_ref() != Some(&wr) || prop.is_some() {
            bad += 1;
            if bad <= 15 {
                println!("MISMATCH text={:?} limit={} lex={:?}\n  impl eos={:?} ranges={:?} {}\n  want eos={} ranges={:?}\n  prop={:?}", text, limit, lex, out.eos, out.ranges, out.note, we, wr, prop);
            }
        }
    }
    println!("explore: {} cases, {} mismatches", n, bad);
}
