#!/usr/bin/env python3
"""Driver of one property check: facts -> proofs -> audit -> correspondence -> verdict -> evidence.

See DESIGN.md section 2.3 / 2.4.  Entry point: main(argv) used by /verif/check.
"""
import concurrent.futures
import fcntl
import glob
import json
import os
import re
import shutil
import subprocess
import sys
import time

ROOT = os.path.dirname(os.path.dirname(os.path.abspath(__file__)))
COQ = os.path.join(ROOT, "coq")
WORK = os.path.join(ROOT, ".work")
HARNESS = os.path.join(ROOT, "harness")
TARGET = os.path.join(WORK, "target")
sys.path.insert(0, os.path.join(ROOT, "gen"))
sys.path.insert(0, os.path.join(ROOT, "lib"))

import facts  # noqa: E402
sys.modules.setdefault("vcheck", sys.modules[__name__])
sys.modules.setdefault("facts", facts)
import props  # noqa: E402

FORBIDDEN = re.compile(
    r"\b(Admitted|admit|Axiom|Axioms|Parameter|Parameters|Conjecture|Admit Obligations|bypass_check)\b"
    r"|Unset\s+Guard\s+Checking|Unset\s+Positivity\s+Checking|Unset\s+Universe\s+Checking|type-in-type|impredicative-set|native_compute"
)

REPO = os.environ.get("VERIF_REPO", "/repo")
ENV = dict(os.environ)
ENV.update({"VERIF_REPO": REPO, "CARGO_NET_OFFLINE": "true", "CARGO_TARGET_DIR": TARGET, "RUST_BACKTRACE": "0"})


def sh(cmd, cwd=None, timeout=None, env=None):
    t0 = time.time()
    try:
        p = subprocess.run(cmd, cwd=cwd, env=env or ENV, stdout=subprocess.PIPE, stderr=subprocess.STDOUT,
                           timeout=timeout, text=True, errors="replace")
        return p.returncode, p.stdout, time.time() - t0
    except subprocess.TimeoutExpired as e:
        out = e.stdout if isinstance(e.stdout, str) else (e.stdout or b"").decode("utf-8", "replace")
        return 124, out + "\n[timeout after %ss]" % timeout, time.time() - t0


class Lock:
    """build phases (facts, make, cargo) are serialised between concurrently running checks"""

    def __init__(self, name):
        os.makedirs(WORK, exist_ok=True)
        self.path = os.path.join(WORK, name + ".lock")

    def __enter__(self):
        self.f = open(self.path, "w")
        fcntl.flock(self.f, fcntl.LOCK_EX)
        return self

    def __exit__(self, *a):
        fcntl.flock(self.f, fcntl.LOCK_UN)
        self.f.close()


def known_findings():
    """KNOWN_FINDINGS.txt -> (findings: list of dict(property, cls, text), fixed: list)"""
    fnd, fixed = [], []
    p = os.path.join(ROOT, "KNOWN_FINDINGS.txt")
    if os.path.exists(p):
        for line in open(p, encoding="utf-8"):
            line = line.strip()
            if not line or line.startswith("#"):
                continue
            if line.startswith("finding:"):
                m = re.match(r"finding:\s+property=(\S+)\s+site=(\S+)\s+class=(\S+)\s+(.*)", line)
                if m:
                    fnd.append({"property": m.group(1), "site": m.group(2), "cls": m.group(3), "text": m.group(4)})
            elif line.startswith("fixed:"):
                fixed.append(line)
    return fnd, fixed


class Check:
    def __init__(self, pid, tier, seed, replay=None):
        self.pid = pid
        self.cfg = props.PROPS[pid]
        self.tier = tier
        self.seed = seed
        self.replay = replay
        self.t0 = time.time()
        self.work = os.path.join(WORK, pid)
        os.makedirs(self.work, exist_ok=True)
        self.broken = []      # list of (kind, name, detail): obligations that no longer check
        self.failing = []     # concrete failing cases: dict(case=id, what=..., cls=..., by=...)
        self.log = []
        self.obligations = 0
        self.discharged = 0
        self.theorems = []
        self.fact_obligations = []
        self.meta = {}
        self.descs = []
        self.extra_cov = {}

    def say(self, *a):
        msg = " ".join(str(x) for x in a)
        self.log.append(msg)
        print(msg, flush=True)

    # ---------------------------------------------------------------- 1. facts
    def step_facts(self):
        # a failed extraction leaves the last good file in place (the models keep building, so the search for a failing input
        # keeps its Coq side); it is reported for every property whose theorems, witnesses or case models depend on that file
        facts.KEEP_LAST_GOOD = True
        res = facts.run()  # all fact files: cheap, and keeps the whole development buildable
        failed = sorted(n for n in res if res[n] is not None)
        deps = self.generated_deps() if failed else set()
        for n in failed:
            if n in self.cfg.get("facts", []) or n in deps:
                self.broken.append(("fact", "Generated/%s.v" % n, res[n]))
                self.say("[facts] FAILED %s: %s" % (n, res[n]))
        self.say("[facts] regenerated %d fact files from /repo (%s)" % (len(res), ", ".join(sorted(res))))

    def generated_deps(self):
        """names of the Generated modules in the Require closure of Properties/Cxx.v, Witness/Cxx.v and every model the case
        shards of this property import (read from the sources: `From SudachiVerif Require [Import|Export] A.B C.D.`)"""
        roots = ["Properties/%s.v" % self.pid, "Witness/%s.v" % self.pid]
        hs = os.path.join(ROOT, "harness", "src", self.pid.lower() + ".rs")
        if os.path.exists(hs):
            for m in re.findall(r'"((?:Model|Proofs)\.[A-Za-z0-9_]+)"', open(hs, encoding="utf-8").read()):
                roots.append(m.replace(".", "/") + ".v")
        seen, gen, todo = set(), set(), list(roots)
        while todo:
            f = todo.pop()
            if f in seen:
                continue
            seen.add(f)
            path = os.path.join(COQ, f)
            if not os.path.exists(path):
                continue
            txt = re.sub(r"\(\*.*?\*\)", " ", open(path, encoding="utf-8").read(), flags=re.S)
            for stmt in re.findall(r"(?:From\s+SudachiVerif\s+)?Require\s+(?:Import\s+|Export\s+)?([^.]*(?:\.[A-Za-z][^.]*)*)\.\s", txt):
                for mod in re.findall(r"(?:SudachiVerif\.)?((?:Model|Proofs|Generated|Properties|Witness)\.[A-Za-z0-9_]+)", stmt):
                    d, n = mod.split(".")
                    if d == "Generated":
                        gen.add(n)
                    else:
                        todo.append("%s/%s.v" % (d, n))
        return gen

    # ---------------------------------------------------------------- 2. proofs
    def step_proofs(self):
        sh(["sh", "mk_project.sh"], cwd=COQ)
        targets = ["Properties/%s.vo" % self.pid]
        if os.path.exists(os.path.join(COQ, "Witness", self.pid + ".v")):
            targets.append("Witness/%s.vo" % self.pid)
        # models used by the case shards (kept going: another property's broken model must not disturb this one)
        models = sorted("Model/" + os.path.basename(f) + "o" for f in glob.glob(os.path.join(COQ, "Model", "*.v")))
        sh(["make", "-k", "-j16"] + models, cwd=COQ, timeout=self.cfg.get("proof_timeout", 1500))
        rc, out, dt = sh(["make", "-j16"] + targets, cwd=COQ, timeout=self.cfg.get("proof_timeout", 1500))
        if rc != 0:
            m = re.search(r'File "\./([^"]+)", line (\d+)[^\n]*\n(.*?)(?:\nmake|\Z)', out, flags=re.S)
            where = ("%s:%s" % (m.group(1), m.group(2))) if m else "coq build"
            detail = (m.group(3).strip()[:600] if m else out[-600:])
            self.broken.append(("proof", where, detail))
            self.say("[proofs] BUILD FAILED at %s (%.1fs)\n%s" % (where, dt, detail))
        else:
            self.say("[proofs] make %s ok (%.1fs)" % (" ".join(targets), dt))
        # theorem inventory and Print Assumptions
        ptxt = open(os.path.join(COQ, "Properties", self.pid + ".v"), encoding="utf-8").read()
        self.theorems = re.findall(r"^\s*Theorem\s+([A-Za-z0-9_']+)", ptxt, flags=re.M)
        self.fact_obligations = re.findall(r"^\s*(?:Lemma|Fact|Example)\s+([A-Za-z0-9_']+)", ptxt, flags=re.M)
        self.obligations = len(self.theorems) + len(self.fact_obligations)
        if rc == 0:
            rc2, out2, dt2 = sh(["coqc", "-q", "-Q", ".", "SudachiVerif", "Properties/%s.v" % self.pid,
                                 "-o", os.path.join(self.work, self.pid + ".vo")], cwd=COQ, timeout=600)
            closed = out2.count("Closed under the global context")
            axioms = re.findall(r"^Axioms:\s*\n((?:.+\n?)*)", out2, flags=re.M)
            allowed = set(self.cfg.get("allowed_axioms", []))
            used = set()
            for blk in axioms:
                for ln in blk.splitlines():
                    mm = re.match(r"^([A-Za-z0-9_.']+)\s*:", ln)
                    if mm:
                        used.add(mm.group(1))
            bad = used - allowed
            nprints = len(re.findall(r"^\s*Print Assumptions", ptxt, flags=re.M))
            if rc2 != 0:
                self.broken.append(("proof", "Properties/%s.v" % self.pid, out2[-400:]))
            elif bad:
                self.broken.append(("audit", "Print Assumptions", "axioms outside the allowlist: %s" % ", ".join(sorted(bad))))
            elif nprints < len(self.theorems):
                self.broken.append(("audit", "Print Assumptions", "%d theorems but only %d Print Assumptions" % (len(self.theorems), nprints)))
            elif closed + len(axioms) < nprints:
                self.broken.append(("audit", "Print Assumptions", "unrecognised Print Assumptions output"))
            else:
                self.discharged = self.obligations
            self.axioms_used = sorted(used)
            self.say("[audit] %d theorems + %d fact obligations; Print Assumptions: %d closed, axioms used: %s" %
                     (len(self.theorems), len(self.fact_obligations), closed, sorted(used) or "none"))
        # thorough tier: the compiled theorems (and everything they depend on) are re-checked by the independent
        # checker, which also lists every axiom, assumed-positive inductive and unguarded fixpoint in their closure
        if rc == 0 and self.tier == "thorough" and not self.broken:
            mods = ["SudachiVerif.Properties.%s" % self.pid]
            if len(targets) > 1:
                mods.append("SudachiVerif.Witness.%s" % self.pid)
            rc3, out3, dt3 = sh(["coqchk", "-o", "-silent", "-Q", ".", "SudachiVerif"] + mods, cwd=COQ, timeout=3000)
            summ = {}
            for m in re.finditer(r"^\* ([^:\n]+):\s*(.*?)(?=^\* |\Z)", out3, flags=re.M | re.S):
                summ[m.group(1).strip()] = " ".join(m.group(2).split())
            ax = summ.get("Axioms", "?")
            ax_names = set(re.findall(r"([A-Za-z0-9_.']+)", ax)) - {"none"} if ax != "<none>" else set()
            others = {k: v for k, v in summ.items() if k not in ("Axioms", "Theory") and v != "<none>"}
            self.coqchk = {"modules": mods, "seconds": round(dt3, 1), "summary": summ}
            if rc3 != 0 or "Axioms" not in summ:
                self.broken.append(("audit", "coqchk", out3[-400:]))
                self.discharged = 0
            elif ax_names - allowed or others:
                self.broken.append(("audit", "coqchk", "axioms %s; %s" % (ax, others)))
                self.discharged = 0
            self.say("[audit] coqchk %s: axioms %s (%.0fs)" % (" ".join(mods), ax, dt3))
        # forbidden words anywhere in the development
        hits = []
        for f in glob.glob(os.path.join(COQ, "**", "*.v"), recursive=True):
            txt = open(f, encoding="utf-8").read()
            txt_nc = re.sub(r"\(\*.*?\*\)", " ", txt, flags=re.S)
            for m in FORBIDDEN.finditer(txt_nc):
                hits.append("%s: %s" % (os.path.relpath(f, COQ), m.group(0)))
        if hits:
            self.broken.append(("audit", "forbidden vernacular", "; ".join(hits[:10])))
            self.discharged = 0
            self.say("[audit] FORBIDDEN: %s" % hits[:10])

    # ---------------------------------------------------------------- 3. correspondence
    def build_harness(self):
        lock = os.path.join(HARNESS, "Cargo.lock")
        shutil.copyfile(os.path.join(REPO, "Cargo.lock"), lock)
        tmpl = open(os.path.join(HARNESS, "Cargo.toml.in")).read().replace("@REPO@", REPO)
        ct = os.path.join(HARNESS, "Cargo.toml")
        if not os.path.exists(ct) or open(ct).read() != tmpl:
            open(ct, "w").write(tmpl)
        self.bins = {}
        for prof in self.cfg.get("profiles", ["debug"]):
            cmd = ["cargo", "build", "--offline", "--features", "hooks"]
            if prof == "release":
                cmd.append("--release")
            elif prof != "debug":
                cmd += ["--profile", prof]   # custom profile of harness/Cargo.toml.in (e.g. "slow")
            rc, out, dt = sh(cmd, cwd=HARNESS, timeout=1800)
            if rc != 0:
                errs = "\n".join(l for l in out.splitlines() if l.startswith("error"))[:800]
                self.broken.append(("correspondence", "harness build (%s)" % prof, errs or out[-800:]))
                self.say("[harness] cargo build (%s) FAILED (%.1fs)\n%s" % (prof, dt, errs or out[-800:]))
            else:
                self.bins[prof] = os.path.join(TARGET, prof, "vharness")
                self.say("[harness] cargo build (%s) against /repo working tree ok (%.1fs)" % (prof, dt))

    def run_harness(self):
        cases_dir = os.path.join(self.work, "cases")
        for prof, binp in self.bins.items():
            d = cases_dir if prof == "debug" else cases_dir + "_" + prof
            cmd = [binp, self.pid, "--seed", str(self.seed), "--tier", self.tier, "--out", d, "--work", self.work]
            if self.replay:
                cmd += ["--replay", self.replay]
            rc, out, dt = sh(cmd, cwd=ROOT, timeout=self.cfg.get("harness_timeout", 3000))
            if self.replay and out.strip():
                print(out)
            if rc != 0:
                self.broken.append(("correspondence", "harness run (%s)" % prof, out[-800:]))
                self.say("[harness] run (%s) FAILED rc=%d (%.1fs)\n%s" % (prof, rc, dt, out[-800:]))
                # a harness that panicked outside `catch` still writes what it had collected, with a failure pointing at
                # the case it was evaluating (Sink's Drop): use it, so that the crash does not hide the input
                try:
                    meta = json.load(open(os.path.join(d, "meta.json")))
                    descs = [json.loads(l) for l in open(os.path.join(d, "cases.jsonl"), encoding="utf-8")]
                    if meta.get("extra", {}).get("harness_crashed") and meta.get("seed") == self.seed:
                        for f in meta["rust_failures"]:
                            self.failing.append({"case": f["case"], "what": f["what"], "cls": f.get("class", ""),
                                                 "by": "%s (%s)" % ("harness crash" if f.get("by") == "harness-crash" else "implementation oracle", prof),
                                                 "desc": descs[f["case"]], "profile": prof})
                        if not self.meta:
                            self.meta, self.descs = meta, descs
                except Exception:  # noqa
                    pass
                continue
            meta = json.load(open(os.path.join(d, "meta.json")))
            descs = [json.loads(l) for l in open(os.path.join(d, "cases.jsonl"), encoding="utf-8")]
            self.say("[harness] %s: %d cases (%d distinct non-trivial) in %.1fs" % (prof, meta["evaluations"], meta["distinct_nontrivial"], dt))
            for f in meta["rust_failures"]:
                self.failing.append({"case": f["case"], "what": f["what"], "cls": f.get("class", ""), "by": "implementation oracle (%s)" % prof,
                                     "desc": descs[f["case"]], "profile": prof})
            self.eval_shards(d, meta, descs, prof)
            if prof == "debug" or not self.meta:
                self.meta, self.descs = meta, descs
            else:
                self.meta["evaluations"] += meta["evaluations"]
                self.meta["histogram_" + prof] = meta["histogram"]

    def eval_shards(self, d, meta, descs, prof):
        shards = sorted(glob.glob(os.path.join(d, "cases_*.v")))
        if not shards:
            return
        if any(k == "proof" and w.startswith("Model/") for k, w, _ in self.broken):
            self.say("[model] model does not build; shards not evaluated")
            return
        t0 = time.time()

        def one(path):
            rc, out, dt = sh(["coqc", "-q", "-noglob", "-Q", COQ, "SudachiVerif", "-o", path[:-2] + ".vo", path], cwd=d, timeout=1200)
            return path, rc, out
        bad_ids = []
        with concurrent.futures.ThreadPoolExecutor(max_workers=14) as ex:
            for path, rc, out in ex.map(one, shards):
                if rc != 0:
                    self.broken.append(("correspondence", "model evaluation of %s" % os.path.basename(path), out[-500:]))
                    self.say("[model] coqc %s FAILED\n%s" % (os.path.basename(path), out[-500:]))
                    continue
                m = re.search(r"=\s*\[(.*?)\]\s*:\s*list N", out, flags=re.S)
                if not m:
                    self.broken.append(("correspondence", "model evaluation of %s" % os.path.basename(path), "unparsable output: " + out[-300:]))
                    continue
                bad_ids += [int(x) for x in re.findall(r"\d+", m.group(1))]
        for f in glob.glob(os.path.join(d, "*.vo")) + glob.glob(os.path.join(d, ".*.aux")) + glob.glob(os.path.join(d, "*.vos")) + glob.glob(os.path.join(d, "*.vok")):
            try:
                os.remove(f)
            except OSError:
                pass
        self.say("[model] %d shards evaluated by vm_compute in %.1fs; %d cases where model/predicate and implementation differ" % (len(shards), time.time() - t0, len(bad_ids)))
        already = {(f["case"], f["profile"]) for f in self.failing}
        for i in bad_ids:
            if (i, prof) in already:
                continue
            dsc = descs[i] if i < len(descs) else {}
            self.failing.append({"case": i, "what": "Coq model / property predicate disagrees with the implementation's output",
                                 "cls": dsc.get("known_class", "") if isinstance(dsc, dict) else "", "by": "model (%s)" % prof, "desc": dsc, "profile": prof})

    # ---------------------------------------------------------------- 4. verdict
    def verdict(self):
        fnd, fixed = known_findings()
        mine = [f for f in fnd if f["property"] == self.pid]
        known_cls = {f["cls"]: f for f in mine}
        rdir = os.path.join(WORK, "replays")
        os.makedirs(rdir, exist_ok=True)
        violations = []
        known_hit = {}
        for f in self.failing:
            if f["cls"] and f["cls"] in known_cls:
                known_hit.setdefault(f["cls"], []).append(f)
            else:
                violations.append(f)
        for cls, fs in sorted(known_hit.items()):
            print("KNOWN-FINDING: property=%s %s [class=%s site=%s; %d occurrence(s) this run, e.g. %s]" %
                  (self.pid, known_cls[cls]["text"], cls, known_cls[cls]["site"], len(fs), fs[0]["what"][:160]), flush=True)
        # a listed finding whose witness no longer fails is reported too (model/finding file is stale), but is not a violation
        for cls, f in known_cls.items():
            if cls not in known_hit and not self.replay:
                print("NOTE: known finding class=%s of %s did not occur in this run" % (cls, self.pid), flush=True)
        rc = 0
        nviol = 0
        if violations:
            # smallest description first: a cheap stand-in for shrinking when several inputs fail
            violations.sort(key=lambda f: len(json.dumps(f["desc"])))
            f = violations[0]
            path = os.path.join(rdir, "%s-seed%d-case%d.json" % (self.pid, self.seed, f["case"]))
            json.dump({"property": self.pid, "seed": self.seed, "tier": self.tier, "what": f["what"], "found_by": f["by"],
                       "profile": f["profile"], "case": f["desc"], "other_failing_cases": len(violations) - 1,
                       "broken_obligations": [list(b) for b in self.broken]}, open(path, "w"), indent=1, ensure_ascii=False)
            self.say("[verdict] %d failing input(s); smallest: %s" % (len(violations), f["what"][:300]))
            print("VIOLATION property=%s replay=%s" % (self.pid, path), flush=True)
            rc = 1
            nviol = len(violations)
        elif self.broken:
            path = os.path.join(rdir, "%s-seed%d-unproved.json" % (self.pid, self.seed))
            json.dump({"property": self.pid, "seed": self.seed, "tier": self.tier,
                       "what": "the property is no longer shown to hold: the obligations below no longer check; the search over %d generated cases found no failing input" % self.meta.get("evaluations", 0),
                       "broken_obligations": [{"kind": k, "name": n, "detail": d} for k, n, d in self.broken],
                       "rerun": "./check %s --tier %s" % (self.pid, self.tier)}, open(path, "w"), indent=1, ensure_ascii=False)
            for k, n, d in self.broken:
                self.say("[verdict] no longer checks: %s %s" % (k, n))
            print("VIOLATION property=%s replay=%s no-failing-input-found" % (self.pid, path), flush=True)
            rc = 1
            nviol = 1
        else:
            self.say("[verdict] %s holds on everything explored: %d/%d obligations discharged, %d cases agree" %
                     (self.pid, self.discharged, self.obligations, self.meta.get("evaluations", 0)))
        self.write_evidence(nviol, known_hit)
        return rc

    def write_evidence(self, nviol, known_hit):
        if self.replay:
            return
        meta = self.meta or {}
        tb = list(props.TRUSTED_BASE) + list(self.cfg.get("trusted", []))
        cov = {
            "obligations": max(self.obligations, 1),
            "discharged": self.discharged,
            "checker_cmd": "make -C coq Properties/%s.vo Witness/%s.vo && coqc Properties/%s.v (Print Assumptions under every theorem); correspondence: harness/target vharness %s + coqc vm_compute over generated case shards" % (self.pid, self.pid, self.pid, self.pid),
            "trusted_base": tb,
            "theorems": self.theorems,
            "fact_obligations": self.fact_obligations,
            "axioms_used": getattr(self, "axioms_used", []),
            "evaluations": meta.get("evaluations", 0),
            "distinct_nontrivial": meta.get("distinct_nontrivial", 0),
            "rule": meta.get("rule", ""),
            "samples": meta.get("samples", [])[:4] or [{"theorems": self.theorems}],
            "input_histogram": meta.get("histogram", {}),
            "disagreements_checked": len(self.failing),
            "known_findings_seen": {k: len(v) for k, v in known_hit.items()},
            "broken_obligations": [{"kind": k, "name": n} for k, n, _ in self.broken],
            "fact_files": self.cfg.get("facts", []),
        }
        for k, v in meta.items():
            if k.startswith("histogram_"):
                cov[k] = v
        if self.discharged < 1:
            # nothing discharged (broken proof/fact): keep the file schema-valid through the generic keys
            cov["obligations_total"] = cov.pop("obligations")
            cov["obligations_discharged"] = cov.pop("discharged")
        cov.update(meta.get("extra", {}))
        cov.update(self.extra_cov)
        if getattr(self, "coqchk", None):
            cov["coqchk"] = self.coqchk
        ev = {
            "property_id": self.pid,
            "tier": self.tier,
            "seed": self.seed,
            "level": "proof",
            "coverage": cov,
            "assumptions": self.cfg.get("assumptions", []),
            "wall_s": round(time.time() - self.t0, 2),
            "violations": nviol,
        }
        os.makedirs(os.path.join(ROOT, "evidence"), exist_ok=True)
        p = os.path.join(ROOT, "evidence", self.pid + ".json")
        json.dump(ev, open(p + ".tmp", "w"), indent=1, ensure_ascii=False)
        os.replace(p + ".tmp", p)

    def run(self):
        with Lock("build"):
            self.step_facts()
            self.step_proofs()
            for name in self.cfg.get("pre_build", []):
                import prebuild
                prebuild.STEPS[name](self)
            if self.cfg.get("harness", True):
                self.build_harness()
        if self.cfg.get("harness", True):
            self.run_harness()
        for hook in self.cfg.get("extra_steps", []):
            hook(self)
        return self.verdict()


def main(argv):
    if len(argv) < 2 or argv[1] not in props.PROPS:
        print("usage: check <%s> [--tier quick|thorough] [--replay FILE]" % "|".join(sorted(props.PROPS)))
        return 2
    pid = argv[1]
    tier = os.environ.get("VERIF_TIER") or "quick"
    replay = None
    i = 2
    cli_tier = None
    while i < len(argv):
        if argv[i] == "--tier":
            cli_tier = argv[i + 1]
            i += 1
        elif argv[i] == "--replay":
            replay = os.path.abspath(argv[i + 1])
            i += 1
        i += 1
    if cli_tier and not os.environ.get("VERIF_TIER"):
        tier = cli_tier
    if tier not in ("quick", "thorough"):
        tier = "quick"
    try:
        seed = int(os.environ.get("VERIF_SEED", "1"))
    except ValueError:
        seed = 1
    if replay:
        try:
            r = json.load(open(replay))
            seed = int(r.get("seed", seed))
            if "case" not in r:
                print("replay file names obligations that no longer check: re-running the whole check")
                for b in r.get("broken_obligations", []):
                    print("  -", b)
                replay = None
        except Exception as e:  # noqa
            print("cannot read replay file: %s" % e)
            return 2
    return Check(pid, tier, seed, replay).run()
