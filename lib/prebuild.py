"""Extra build steps some properties need (run inside the build lock of vcheck)."""
import os
import shutil

import vcheck


def py_cli(check):
    """build the python module (cdylib) and the command-line tool from the repository's working tree and stage them
    under .work; exports VERIF_PYPKG / VERIF_CLI_BIN / VERIF_ROOT for the harness"""
    tdir = os.path.join(vcheck.WORK, "target-repo")
    env = dict(vcheck.ENV)
    env["CARGO_TARGET_DIR"] = tdir
    rc, out, dt = vcheck.sh(["cargo", "build", "--offline", "-p", "sudachipy", "-p", "sudachi-cli"], cwd=vcheck.REPO, env=env, timeout=2400)
    if rc != 0:
        errs = "\n".join(l for l in out.splitlines() if l.startswith("error"))[:800]
        check.broken.append(("correspondence", "cargo build -p sudachipy -p sudachi-cli", errs or out[-800:]))
        check.say("[prebuild] python module / CLI build FAILED (%.1fs)\n%s" % (dt, errs or out[-600:]))
        return
    pkg = os.path.join(vcheck.WORK, "pypkg")
    dst = os.path.join(pkg, "sudachipy")
    shutil.rmtree(dst, ignore_errors=True)
    shutil.copytree(os.path.join(vcheck.REPO, "python", "py_src", "sudachipy"), dst)
    shutil.copyfile(os.path.join(tdir, "debug", "libsudachipy.so"), os.path.join(dst, "sudachipy.so"))
    vcheck.ENV["VERIF_PYPKG"] = pkg
    vcheck.ENV["VERIF_CLI_BIN"] = os.path.join(tdir, "debug", "sudachi")
    vcheck.ENV["VERIF_ROOT"] = vcheck.ROOT
    check.say("[prebuild] sudachipy cdylib + sudachi CLI built from the working tree and staged (%.1fs)" % dt)


STEPS = {"py_cli": py_cli}
