#!/usr/bin/env python3
"""Print the per-property status table of DESIGN.md section 10.2 from what is in the tree:
theorem / fact-obligation names of coq/Properties/Cxx.v, the files they import, the quick-tier case counts of
evidence/Cxx.json, and the fixed / finding lines of KNOWN_FINDINGS.txt."""
import json, os, re, glob

ROOT = os.path.dirname(os.path.dirname(os.path.abspath(__file__)))


def main():
    kf = open(os.path.join(ROOT, "KNOWN_FINDINGS.txt"), encoding="utf-8").read().splitlines()
    print("| id | models / proof files | theorems (T) and fact obligations (F) in `Properties/Cxx.v` | quick run | unchanged tree |")
    print("|---|---|---|---|---|")
    for n in range(1, 21):
        pid = "C%02d" % n
        txt = open(os.path.join(ROOT, "coq", "Properties", pid + ".v"), encoding="utf-8").read()
        txt_nc = re.sub(r"\(\*.*?\*\)", " ", txt, flags=re.S)
        ths = re.findall(r"^\s*Theorem\s+([A-Za-z0-9_']+)", txt_nc, flags=re.M)
        fcs = re.findall(r"^\s*(?:Lemma|Fact|Example)\s+([A-Za-z0-9_']+)", txt_nc, flags=re.M)
        req = " ".join(l for l in txt_nc.splitlines() if "Require" in l)
        models = sorted(set(re.findall(r"\bModel\.([A-Za-z0-9_]+)", req)))
        proofs = sorted(set(re.findall(r"\bProofs\.([A-Za-z0-9_]+)", req)))
        short = [t[len(pid) + 1:] if t.startswith(pid + "_") else t for t in ths]
        ev = {}
        p = os.path.join(ROOT, "evidence", pid + ".json")
        if os.path.exists(p):
            ev = json.load(open(p))
        cov = ev.get("coverage", {})
        quick = "%s cases (%s distinct non-trivial), %.0f s" % (cov.get("evaluations", "?"), cov.get("distinct_nontrivial", "?"), ev.get("wall_s", 0))
        fixed = [re.search(r"fixed: property=%s (\w+)" % pid, l).group(1) for l in kf if l.startswith("fixed: property=%s " % pid)]
        finds = [re.search(r"class=(\w+)", l).group(1) for l in kf if l.startswith("finding: property=%s " % pid)]
        st = "holds"
        if fixed:
            st += " after fix%s %s" % ("es" if len(fixed) > 1 else "", ", ".join(fixed))
        if finds:
            st += "; known finding%s %s" % ("s" if len(finds) > 1 else "", ", ".join(finds))
        print("| %s | %s / %s | %d T: %s; %d F | %s | %s |" % (pid, ", ".join(models) or "-", ", ".join(proofs) or "-", len(ths), ", ".join(short), len(fcs), quick, st))


if __name__ == "__main__":
    main()
