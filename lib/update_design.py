#!/usr/bin/env python3
"""Regenerate the generated parts of DESIGN.md in place: the per-property status table (lib/design_status.py) and the
seeded-change tables (lib/seed_table.py) between their BEGIN / END markers."""
import io, os, re, sys, contextlib

ROOT = os.path.dirname(os.path.dirname(os.path.abspath(__file__)))
sys.path.insert(0, os.path.join(ROOT, "lib"))
import design_status, seed_table  # noqa: E402


def capture(fn, argv):
    buf = io.StringIO()
    old = sys.argv
    sys.argv = ["x"] + argv
    try:
        with contextlib.redirect_stdout(buf):
            fn()
    finally:
        sys.argv = old
    return buf.getvalue().rstrip("\n")


def main():
    p = os.path.join(ROOT, "DESIGN.md")
    s = open(p, encoding="utf-8").read()
    st = capture(design_status.main, [])
    s = re.sub(r"(<!-- BEGIN STATUS[^\n]*-->\n).*?(<!-- END STATUS -->)", lambda m: m.group(1) + st + "\n" + m.group(2), s, flags=re.S)
    for m in re.finditer(r"<!-- BEGIN SEEDS ([^(]*?) \(generated", s):
        pass
    def repl(m):
        tags = m.group(2).split()
        return m.group(1) + capture(seed_table.main, tags) + "\n" + m.group(3)
    s = re.sub(r"(<!-- BEGIN SEEDS ([^(\n]*?) \(generated[^\n]*-->\n).*?(<!-- END SEEDS [^\n]*-->)", repl, s, flags=re.S)
    open(p, "w", encoding="utf-8").write(s)
    print("DESIGN.md regenerated")


if __name__ == "__main__":
    main()
