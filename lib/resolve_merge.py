#!/usr/bin/env python3
"""helper for merging builder branches: union KNOWN_FINDINGS.txt, keep our evidence files; usage: resolve_merge.py old_hash=new_hash ..."""
import subprocess, sys
root = '/verif'
s = open(root + '/KNOWN_FINDINGS.txt').read()
out = []
for l in s.splitlines():
    if l.startswith('<<<<<<<') or l.startswith('=======') or l.startswith('>>>>>>>'):
        continue
    if l not in out or not l.strip():
        out.append(l)
t = "\n".join(out) + "\n"
for a in sys.argv[1:]:
    o, n = a.split('=')
    t = t.replace(o, n)
open(root + '/KNOWN_FINDINGS.txt', 'w').write(t)
st = subprocess.run(['git', '-C', root, 'status', '--short'], capture_output=True, text=True).stdout
for line in st.splitlines():
    if line[:2] in ('UU', 'AA') and line[3:].startswith('evidence/'):
        subprocess.run(['git', '-C', root, 'checkout', '--ours', line[3:]])
        subprocess.run(['git', '-C', root, 'add', line[3:]])
subprocess.run(['git', '-C', root, 'add', 'KNOWN_FINDINGS.txt'])
