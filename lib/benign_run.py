#!/usr/bin/env python3
"""Run the machinery against a BEHAVIOUR-PRESERVING change (the opposite of lib/seed_confirm.py): no check may raise an alarm.

usage: benign_run.py <name> <patch.diff>       (env: SEED_REPO = worktree of /repo to apply the change to, default /repo)

  1. apply the change; regenerate the facts into a scratch directory and compare them, file by file, with the facts of the
     unchanged tree: a fact file that differs (or whose extraction fails) means a fact obligation / a model parameter may react;
  2. run `./check` for every property whose fact list names a differing file -- and for one canary property in any case, so that
     the correspondence harness (built with the verification hooks) is compiled against the changed tree;
  3. undo the change; write benign/<name>/meta.json (facts that differ, checks run, alarms).
An alarm on such a change is a false alarm of the machinery and is to be corrected in the extractor / harness."""
import json, os, subprocess, sys, tempfile, shutil, glob, importlib.util

ROOT = os.path.dirname(os.path.dirname(os.path.abspath(__file__)))
TREE = os.environ.get("SEED_REPO", "/repo")


def sh(cmd, cwd=None, env=None, timeout=3600):
    e = dict(os.environ)
    if env:
        e.update(env)
    p = subprocess.run(cmd, shell=True, cwd=cwd, env=e, stdout=subprocess.PIPE, stderr=subprocess.STDOUT, timeout=timeout)
    return p.returncode, p.stdout.decode("utf-8", "replace")


def facts_into(d):
    rc, out = sh("python3 gen/facts.py --repo %s --out %s" % (TREE, d), cwd=ROOT)
    return {l.split()[1].rstrip(":"): l for l in out.splitlines() if l.startswith(("ok ", "FAIL "))}


def prop_facts():
    r = {}
    for f in sorted(glob.glob(os.path.join(ROOT, "lib", "propcfg", "C*.py"))):
        spec = importlib.util.spec_from_file_location("cfg", f)
        m = importlib.util.module_from_spec(spec)
        spec.loader.exec_module(m)
        r[os.path.basename(f)[:-3]] = list(m.CFG.get("facts", []))
    return r


def main():
    name, patch = sys.argv[1], os.path.abspath(sys.argv[2])
    out = os.path.join(ROOT, "benign", name)
    os.makedirs(out, exist_ok=True)
    shutil.copy(patch, os.path.join(out, "patch.diff"))
    rd = os.path.join(os.path.dirname(patch), "README.md")
    if os.path.exists(rd):
        shutil.copy(rd, os.path.join(out, "README.md"))
    meta = {"name": name, "kind": "behaviour-preserving change written by an independent sub-agent (test suite passes with it)"}
    mp = os.path.join(out, "meta.json")
    if os.path.exists(mp):
        # what the machinery reported the first time this change was tried is kept
        prev = json.load(open(mp))
        meta["first_run"] = prev.get("first_run") or {"fact_files_differing": prev.get("fact_files_differing"), "alarms": prev.get("alarms")}
    base = tempfile.mkdtemp(prefix="facts-base-")
    new = tempfile.mkdtemp(prefix="facts-new-")
    try:
        sh("git checkout -- .", cwd=TREE)
        facts_into(base)
        rc, o = sh("git apply %s" % patch, cwd=TREE)
        if rc != 0:
            meta["error"] = "patch does not apply: " + o[-300:]
            return
        res = facts_into(new)
        differing = []
        for f in sorted(os.listdir(base)):
            a = open(os.path.join(base, f), encoding="utf-8").read()
            b = open(os.path.join(new, f), encoding="utf-8").read() if os.path.exists(os.path.join(new, f)) else ""
            if a != b:
                differing.append(f[:-2])
        meta["fact_files_differing"] = differing
        meta["fact_extraction_failed"] = [l for l in res.values() if l.startswith("FAIL")]
        pf = prop_facts()
        # properties whose fact list names a differing file; plus properties that import everything (none) ; plus the canary
        affected = sorted(p for p, fs in pf.items() if any(d in fs for d in differing))
        canary = os.environ.get("BENIGN_CANARY", "C14")
        todo = affected if affected else [canary]
        if os.environ.get("BENIGN_ALL"):
            todo = sorted(pf)
        runs = {}
        for p in todo:
            rc, o = sh("timeout 3000 ./check %s" % p, cwd=ROOT, env={"VERIF_REPO": TREE})
            lines = [l for l in o.splitlines() if l.startswith(("[verdict]", "VIOLATION", "KNOWN-FINDING"))]
            runs[p] = {"exit": rc, "lines": [l[:300] for l in lines if not l.startswith("KNOWN-FINDING")]}
        meta["checks_run"] = runs
        meta["alarms"] = sorted(p for p, r in runs.items() if r["exit"] != 0)
    finally:
        sh("git checkout -- .", cwd=TREE)
        shutil.rmtree(base, ignore_errors=True)
        shutil.rmtree(new, ignore_errors=True)
        json.dump(meta, open(os.path.join(out, "meta.json"), "w"), indent=1, ensure_ascii=False)
        print(name, "facts differing:", meta.get("fact_files_differing"), "failed:", [x[:80] for x in meta.get("fact_extraction_failed", [])],
              "checks:", {p: r["exit"] for p, r in meta.get("checks_run", {}).items()}, "ALARMS:", meta.get("alarms"), meta.get("error", ""), flush=True)


if __name__ == "__main__":
    main()
