#!/usr/bin/env python3
"""Confirm a seeded change in a scratch worktree, run the property's check against it in /repo, record it under seeded/.

usage: seed_confirm.py Cxx mN [--no-confirm]
  1. scratch worktree /tmp/seedconfirm (of /repo HEAD): demo passes WITHOUT the change, fails WITH it, and the existing
     suite passes WITH it (only .rs demonstrations are automated: copied to sudachi/tests/seed_demo.rs);
  2. git -C /repo apply patch; ./check Cxx ; git -C /repo checkout -- .
  3. seeded/Cxx-mN/{patch.diff, demo.*, README.md, meta.json}
"""
import glob, json, os, re, shutil, subprocess, sys

ROOT = os.path.dirname(os.path.dirname(os.path.abspath(__file__)))
SCR = os.environ.get("SEED_SCR", "/tmp/seedconfirm")
# the repository working tree the change is applied to for the check run (a lane of its own: SEED_REPO=<worktree of /repo>,
# with this script run from a worktree of /verif; the checks then read VERIF_REPO)
TREE = os.environ.get("SEED_REPO", "/repo")
ENV = dict(os.environ, CARGO_NET_OFFLINE="true")
if TREE != "/repo":
    ENV["VERIF_REPO"] = TREE


def sh(cmd, cwd=None, timeout=3000):
    p = subprocess.run(cmd, cwd=cwd, env=ENV, stdout=subprocess.PIPE, stderr=subprocess.STDOUT, text=True, errors="replace", timeout=timeout, shell=isinstance(cmd, str))
    return p.returncode, p.stdout


def suite(cwd):
    rc, out = sh("cargo test --workspace --no-fail-fast --offline -j8 2>&1", cwd=cwd)
    passed = sum(int(m) for m in re.findall(r"test result: \w+\. (\d+) passed", out))
    failed = sum(int(m) for m in re.findall(r"test result: \w+\. \d+ passed; (\d+) failed", out))
    return rc, passed, failed, out


def main():
    pid, mn = sys.argv[1], sys.argv[2]
    confirm = "--no-confirm" not in sys.argv
    # a change that is already kept under seeded/ is taken from there (its patch may have been rebased onto later fix: commits);
    # a new one from the directory its author wrote it to
    src = os.path.join(ROOT, "seeded", "%s-%s" % (pid, mn))
    if not os.path.isfile(os.path.join(src, "patch.diff")):
        for k in ("", "2", "3", "4", "5", "6", "7"):
            src = "/tmp/seed%s/%s-out/%s" % (k, pid, mn)
            if os.path.isdir(src):
                break
    patch = os.path.join(src, "patch.diff")
    meta = {"property": pid, "change": mn, "source": "independent sub-agent given only the property text and a scratch worktree"}
    demos = [f for f in glob.glob(os.path.join(src, "demo*")) ]
    if confirm:
        if not os.path.isdir(SCR):
            sh(["git", "-C", "/repo", "worktree", "add", "-q", "--detach", SCR, "HEAD"])
        sh("git checkout -q --detach $(git -C /repo rev-parse HEAD) && git checkout -- . && git clean -fdq -e target", cwd=SCR)
        rs = [d for d in demos if d.endswith(".rs")]
        if rs:
            shutil.copyfile(rs[0], os.path.join(SCR, "sudachi", "tests", "seed_demo.rs"))
            rc0, out0 = sh("cargo test -p sudachi --test seed_demo --offline -j8 2>&1 | tail -30", cwd=SCR)
            ok_without = "test result: ok" in out0
            rca, outa = sh(["git", "apply", "--3way", patch], cwd=SCR)
            if rca != 0:
                rca, outa = sh(["git", "apply", patch], cwd=SCR)
            meta["patch_applies"] = (rca == 0)
            rc1, out1 = sh("cargo test -p sudachi --test seed_demo --offline -j8 2>&1 | tail -40", cwd=SCR)
            fails_with = ("test result: FAILED" in out1) or ("panicked" in out1 and "test result: ok" not in out1)
            os.remove(os.path.join(SCR, "sudachi", "tests", "seed_demo.rs"))
            rc2, p2, f2, out2 = suite(SCR)
            meta.update({"demo_passes_without_change": ok_without, "demo_fails_with_change": fails_with,
                         "suite_with_change": {"passed": p2, "failed": f2}, "compiles_with_change": p2 > 0})
            sh("git checkout -- . && git clean -fdq -e target && git reset -q --hard", cwd=SCR)
        else:
            meta["note"] = "demonstration is not a Rust test; confirmed by hand (see confirm.txt)"
    # run the check against the change applied to /repo
    rca, outa = sh(["git", "-C", TREE, "apply", "--3way", patch])
    if rca != 0:
        rca, outa = sh(["git", "-C", TREE, "apply", patch])
    if rca != 0:
        print("PATCH DOES NOT APPLY to %s:" % TREE, outa)
        meta["check"] = "patch does not apply"
    else:
        rc, out = sh(["./check", pid], cwd=ROOT)
        viol = [l for l in out.splitlines() if l.startswith("VIOLATION")]
        verdict = [l for l in out.splitlines() if l.startswith("[verdict]")]
        meta["check"] = {"cmd": "./check %s" % pid, "exit": rc, "violation_line": viol[:1], "verdict": [v[:400] for v in verdict[:2]],
                         "detected": rc == 1 and bool(viol), "with_failing_input": bool(viol) and "no-failing-input-found" not in viol[0]}
        sh(["git", "-C", TREE, "reset", "-q", "--hard", "HEAD"])
    dst = os.path.join(ROOT, "seeded", "%s-%s" % (pid, mn))
    if os.path.abspath(src) != os.path.abspath(dst):
        os.makedirs(dst, exist_ok=True)
        for f in glob.glob(os.path.join(src, "*")):
            if os.path.isfile(f):
                shutil.copyfile(f, os.path.join(dst, os.path.basename(f)))
    old = {}
    mp = os.path.join(dst, "meta.json")
    if os.path.exists(mp):
        old = json.load(open(mp))
    old.update(meta)
    readme = os.path.join(dst, "README.md")
    if os.path.exists(readme):
        txt = open(readme, encoding="utf-8").read()
        m = re.search(r"(?is)(needs?|manifest)[^\n]*\n(.{0,600})", txt)
        old.setdefault("needs_to_manifest", "see README.md")
    json.dump(old, open(mp, "w"), indent=1, ensure_ascii=False)
    print(json.dumps(old, indent=1, ensure_ascii=False))


if __name__ == "__main__":
    main()
