CFG = {
    "level_text": "Unbounded theorems about the Gallina model of InputBuffer::build (can_bow chain, class continuity), CreatedWords, the three OOV providers and the provider sequencing of build_lattice; the model is run against the real InputBuffer, every provider through the OovProviderPlugin trait and the lattice (verif hook) on generated char.def/unk.def/provider lists/texts each check.",
    "level_note": "Proved about the model; model tied to the code by Generated/OovFacts.v, Generated/CategoryFacts.v and the differential run. The regex engine, the trie lookup and the text parsing of char.def/unk.def are oracles / tested, not proved.",
    "facts": ["OovFacts", "CategoryFacts"],
    "trusted": ["the regex crate (match of the user pattern) and the lexicon lookup are oracles of the model; the harness re-implements both independently for its generated pattern family / word list",
                "parsing of char.def headers and unk.def lines is exercised by the correspondence run only; the model starts from the parsed definitions"],
    "assumptions": ["bitflags 2.x Flags::iter yields the contained named flags in declaration order, then the remaining bits as one value",
                    "no input-text plugin rewrites the text in the generated configurations (classes are observed on the built buffer)"],
}
