CFG = {
    "level_text": "Unbounded theorems: for all definition lists in any order / overlap / adjacency / duplication and all code points, lookup(compile rs) c = union of the covering lines or DEFAULT, and compile cannot reach its panic (C17_lookup_compile_is_union, C17_compile_total); the range iterator agrees with lookup (C17_iter_agrees_with_lookup, C17_iter_none_iff_default); for every char.def TEXT the model reader (lines, comments, trimming, hex ranges, scalar checks, class names) accepts, the loaded table answers with the union of the covering lines of the text (C17_loaded_file_is_wf, C17_file_lookup_is_union). Each check the Gallina models of the reader, compile and get_category_types are run against CharacterCategory::from_reader on generated char.def files (parsed ranges and raw text incl. malformed lines), against CharCategoryIter, and against the classes read through one reused InputBuffer over changing grammars.",
    "level_note": "Proved about the model; model tied to the code by Generated/CategoryFacts.v and the differential run. std binary_search, hex parsing of std and the bitflags name parser are assumed / tested, not proved.",
    "facts": ["CategoryFacts"],
    "trusted": ["std u32::from_str_radix / char::from_u32 and str::split_whitespace are mirrored by the reader model and compared on every run"],
    "assumptions": ["std slice::binary_search returns the unique matching index / insertion point on a strictly sorted slice",
                    "bitflags text parser maps class names to the bits listed in Generated/CategoryFacts.v"],
}
