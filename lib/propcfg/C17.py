CFG = {
    "level_text": "Unbounded theorem (all definition lists in any order/overlap/adjacency/duplication, all code points): lookup(compile rs) c = union of covering lines or DEFAULT; compile cannot reach its panic. The Gallina model of compile/get_category_types is run against CharacterCategory::from_reader on generated char.def files each check.",
    "level_note": "Proved about the model; model tied to the code by Generated/CategoryFacts.v and the differential run. Text parsing of char.def and std binary_search are trusted/tested, not proved.",
    "facts": ["CategoryFacts"],
    "trusted": ["char.def text parsing (read_character_definition) is exercised by the correspondence run only; the model starts from the parsed ranges"],
    "assumptions": ["std slice::binary_search returns the unique matching index / insertion point on a strictly sorted slice",
                    "bitflags text parser maps class names to the bits listed in Generated/CategoryFacts.v"],
}
