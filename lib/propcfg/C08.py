CFG = {
    "level_text": "Unbounded theorems about the Gallina model of InputBuffer's offset map (start_build, resolve_edits/add_replace, commit, build, fill_orig_b2c, to_orig*): for all byte strings starting with a lead byte and all sequences of well-formed edit batches that leave the text non-empty the map is monotone, anchored at both ends, sends character boundaries to character boundaries; code-point offsets equal the number of code points before the byte offset; slicing by code points equals slicing by bytes. The model is run against InputBuffer on generated originals x edit batches on every check.",
    "level_note": "Proved about the model; the model is tied to the code by Generated/BufferFacts.v (guards, index choices of add_replace, sentinels, accessor wiring of Morpheme and the Python module) and by the differential run. The Python binding itself is not executed here (C19 does that); its begin()/end() wiring to begin_c()/end_c() is a checked fact.",
    "facts": ["BufferFacts", "Limits"],
    "trusted": ["a Rust String is valid UTF-8, so str::is_char_boundary / char_indices depend only on which bytes are continuation bytes (0x80..0xBF); the model works on bytes with exactly that classification"],
    "assumptions": ["std str slicing panics exactly when an end is out of range or off a char boundary; Vec slicing exactly when out of range",
                    "plugins only submit edits through InputEditor::replace_* (the model's `edit`)"],
}
