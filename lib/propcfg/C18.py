CFG = {
    "level_text": "Proved (unbounded, all interleavings): threads with private state over a shared value that no step writes obtain exactly their single-threaded outputs and final states (interleaving_noninterference, schedule_irrelevant); a protocol whose steps may write the shared value is, as soon as none changes it, a run of the read-only protocol with the shared value untouched (read_only_steps_leave_dictionary_and_do_not_interfere; the Witness shows a writing step interfering); and the evaluator of the correspondence shards is sound for that statement: an observed concurrent run it accepts gave every thread exactly the table (single-threaded) results of the texts it analysed, in order (accepted_run_is_sequential_per_thread). The premise is tied to the code by the regenerated inventory of shared / interior-mutable state (must equal the reviewed classification), DictionaryAccess handing out only shared references, and a compile-time Send + Sync assertion. Tested (labelled so): 2..8 Rust threads over one Arc<JapaneseDictionary> with every plugin kind and a user dictionary, and Python threads over tokenizers of one Dictionary, against the sequential results; the observed completion order is replayed through the model in Coq.",
    "level_note": "partial: real data races inside unsafe blocks, memory-mapped storage, third-party crates and the allocator cannot be exhibited by the model; they are only exercised by the threaded runs.",
    "facts": ["MutAudit"],
    "profiles": ["debug", "slow"],
    "pre_build": ["py_cli"],
    "trusted": ["std::thread / Arc / Barrier, CPython GIL release in py.allow_threads"],
    "assumptions": ["each tokenizer is a deterministic function of the dictionary and its own history (C10)"],
}
