CFG = {
    "level_text": "Proved (unbounded): the tool's line handling (every line is analysed without exactly its one terminator, blank line -> empty text; nothing else is removed) and the surface-only output format, about a Gallina model whose guards are regenerated from sudachi-cli/src/main.rs. Differential (tested, labelled so): the sudachipy module and the `sudachi` binary are built from the working tree on every check; Python sessions (create with mode / field subset / projection; tokenize with per-call mode and out= reuse; Morpheme.split; Dictionary.lookup) are compared field by field with the Rust library, text[begin:end] == raw_surface is checked in Python, and the tool's stdout on multi-line files is compared byte for byte with the library's morphemes in the documented format.",
    "level_note": "partial: PyO3 glue, GIL handling and interpreter crashes are observed on the generated sessions only (a crash = the interpreter process not completing). The code-point offset theorem behind begin()/end() is C08.",
    "facts": ["CliFacts"],
    "pre_build": ["py_cli"],
    "harness_timeout": 1500,
    "trusted": ["PyO3 0.20 and CPython 3.11 are exercised, not modelled", "BufRead::read_line delivers maximal chunks ending in LF (model split_lines)"],
    "assumptions": ["surface projections mean what python/docs say (mirrored in the harness)"],
}
