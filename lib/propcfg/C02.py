CFG = {
    "level_text": "Unbounded theorems about the Gallina model of analysis/lattice.rs: for every connection-cost function and every candidate set, the EOS cost is the minimum of (word costs + BOS/inner/EOS connection costs) over ALL covering chains and is attained (viterbi_optimal); the path read back through the back pointers has that cost and its stored totals are the prefix sums (total_cost_along_path); the i32 lattice equals the exact one under a stated cost bound (i32_exact_if_bounded). The machine-level model is run against the public Lattice API and against every lattice node of real tokenisations (verif hook) each check; the optimality predicate is evaluated on the implementation's own output.",
    "level_note": "Proved about the model; tie = Generated/ConnFacts.v (index formula, argument order, strict comparison, BOS/EOS parameters) + differential run in debug and release profiles. Candidate generation (which nodes enter the lattice) belongs to C04/C13. Known finding: i32 overflow at cost extremes x > 32768 tokens.",
    "facts": ["ConnFacts"],
    "profiles": ["debug", "release"],
    "trusted": ["unsafe get_unchecked in ConnectionMatrix::cost is not modelled (its index is proved in range: C02_fact_conn_index_in_range)",
                "the dictionary builder/loader used to produce pipeline-level lattices is exercised, not modelled, here (C05)"],
    "assumptions": ["candidates are inserted in non-decreasing begin order with begin < end (the order StatefulTokenizer::build_lattice uses)"],
}
