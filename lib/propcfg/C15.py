CFG = {
    "level_text": "Unbounded theorems about the Gallina model of StringNumber / NumericParser (string arithmetic refines exact decimals for every accumulator operation; closed forms for plain digit strings, comma groups, fractions of any length; exhaustive closed form for unit notation below 10^4). The model is run against the real parser (hook verif_parse_numeral) and the whole pipeline on numerals generated from values each check.",
    "level_note": "Proved about the model; model tied to the code by Generated/NumericFacts.v and the differential run. That the accepted language equals the numeral grammar for mixed unit notation in general is tested (generator derives numerals from a value), not proved.",
    "facts": ["NumericFacts"],
    "trusted": ["the Rust-side reference evaluator (exact fixed-point arithmetic) used for the 'never a wrong value' oracle is unverified glue"],
    "assumptions": ["the dictionary tags digits, kanji digits and units as 名詞,数詞 and char.def classifies them NUMERIC/KANJINUMERIC (as resources/char.def does)",
                    "String/usize operations of Rust std behave as modelled (push, insert, truncate, len)"],
}
