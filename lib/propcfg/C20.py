CFG = {
    "level_text": "Unbounded theorems about the Gallina model of the plugin phase of JapaneseDictionary::from_cfg_storage (CheckParams, unk.def checks, handle_user_pos, InhibitConnectionPlugin::set_up/edit, ConnectionMatrix::index/update), for every grammar with 0 <= dimensions <= 32767 (square or not), every configuration and both build profiles: an accepted configuration has every id inside the dimension it is looked up against, every cost in i16, every POS well-formed and existing-or-allowed; loading never panics; an accepted load inhibits exactly the named cells; the lattice's lookup for any two accepted node templates passes the debug assertions and indexes inside the matrix. Each theorem = generic lemma + decidable obligation on the guards / index formula / argument roles regenerated from the sources (facts_ok gen_facts).",
    "level_note": "Proved about the model; the model is tied to the code by Generated/Guards.v + Generated/ConnIndex.v (comparison operators, operands, casts, integer types, index formula, debug assertions, argument order, regenerated each run and consumed by the model) and by the differential run in the debug and release profiles. JSON / unk.def text parsing (serde_json, str::parse) and the providers' provide_oov are exercised by the run only.",
    "facts": ["Guards", "ConnIndex"],
    "profiles": ["debug", "release"],
    "trusted": ["serde_json typing of settings (i64 / (i16,i16)) and str::parse::<i16> of unk.def columns are modelled as range checks of the written decimal number",
                "which plugin applies which check to which setting is tied by regex facts (gen/factmods/Guards.py), not by a Rust front-end"],
    "assumptions": ["matrix dimensions stored in a dictionary are non-negative i16 values (wf_gram); a tampered binary dictionary is outside C20",
                    "values written in settings are within i64 or rejected by serde (modelled as in_ity)",
                    "input-text and path-rewrite plugins take no connection ids; JoinKatakanaOovPlugin's oovPOS goes through the same handle_user_pos rule and is not separately exercised"],
}
