CFG = {
    "level_text": "Unbounded theorem about the Gallina model of concat_nodes / concat_oov_nodes and of the two rewrite loops (any fuel, any path, any settings): the output path is the input path with consecutive non-empty groups replaced by one node each, whose range is the union, whose dictionary-side surface is the concatenation and whose part of speech is the prescribed one; every other node is the input node itself. The model is run on the plugin-free analysis of generated texts and compared with the analysis with plugins each check.",
    "level_note": "The model node carries the reported byte range as well as the code-point range; merged = union of both. Proved about the model; model tied to the code by Generated/RewriteFacts.v, Generated/NumericFacts.v and the differential run. Termination within the stated fuel is proved for the katakana loop and tested for the numeric loop.",
    "facts": ["RewriteFacts", "NumericFacts"],
    "trusted": ["character classes of node ranges are read from the implementation's own InputBuffer (C17 covers them)"],
    "assumptions": ["the path handed to the plugins is the best path of the lattice, which does not depend on the path-rewrite plugins (same dictionary bytes, same configuration otherwise)"],
}
