CFG = {
    "level_text": "Unbounded theorems about the Gallina model of DefaultInputTextPlugin (fast and general path), ProlongedSoundMarkPlugin, IgnoreYomiganaPlugin and edit resolution: for every rewrite table with distinct non-empty keys, every exempt set and every text, both code paths produce normalize_spec (left to right, longest key, else lower-case then NFKC unless exempt, per character); the result splits at every span boundary (context-free); mark runs / yomigana spans are rewritten exactly as defined; all three plugins emit sorted, non-overlapping, in-range edits. Model, specification and implementation are compared on generated tables/settings/texts every run, with the Unicode oracle values of each case shipped to Coq.",
    "level_note": "Proved about the model, for an arbitrary Unicode oracle satisfying three stated laws (Section hypotheses, no axioms); the laws are swept over all 1 112 064 scalar values by the harness on every run (a test). aho-corasick leftmost-longest semantics, regex semantics of the two fixed patterns, std case mapping and unicode-normalization are modelled/tested, not verified.",
    "facts": ["NormalizeFacts"],
    "trusted": ["Unicode oracle (char::to_lowercase, unicode-normalization nfkc / is_nfkc_quick): values shipped per case, laws law_qc / law_head / qc_text_sound tested exhaustively, not proved",
                "aho-corasick (anchored / unanchored leftmost-longest search) and regex ([marks]{2,}; K(L R{1,n} B) greedy with backtracking) are re-implemented as hand matchers and compared by the differential run"],
    "assumptions": ["law_qc: is_nfkc_quick(c) = Yes implies NFKC(to_lowercase(c)) = to_lowercase(c)",
                    "law_head: no case/NFKC expansion of a character is empty, or starts with the character itself and is longer",
                    "qc_text_sound: is_nfkc_quick(text) = Yes implies is_nfkc_quick(c) = Yes for every character of the text",
                    "read_rewrite_lists yields distinct, non-empty keys (checked as facts: duplicate rejection, split_whitespace)"],
}
