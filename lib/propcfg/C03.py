CFG = {
    "level_text": "Proved (unbounded) about the model: with a fallback OOV provider lattice construction succeeds for every text (fallback_total); the i32 Viterbi search neither overflows nor panics under a stated cost bound (no_overflow_if_bounded); every `as u16` of a position of an accepted text is lossless; the inventory of panic-capable constructs in the analysis-path files is regenerated and must equal the reviewed classification. Tested (labelled as a test): the real tokenizer in debug (overflow checks, debug assertions) and release profiles on hostile inputs x configurations x modes, every accessor of every morpheme called, limits 49,149 / 65,535 probed.",
    "level_note": "partial: absence of panics in the real code (rustc/std/third-party crates, unsafe blocks, allocator) is tested, not proved; the proofs cover the lattice-construction logic, the arithmetic and the cast ranges. Known finding shared with C02: i32 cost overflow at cost extremes x > 32768 tokens.",
    "facts": ["Limits", "PanicSites", "ConnFacts", "LatticeSites"],
    "profiles": ["debug", "release"],
    "harness_timeout": 1500,
    "trusted": ["panic freedom of regex, fancy-regex, aho-corasick, unicode-normalization, yada readers is only exercised"],
    "assumptions": ["candidate providers return words [p, e) with p < e <= n (proved for trie lookup in C04, for MeCab/simple OOV in C13; empty regex matches are ignored since fix d4b32a6)"],
}
