#!/usr/bin/env python3
"""Print the DESIGN.md table of seeded changes for the given change numbers (e.g. `seed_table.py m3 m4`).

The first-run column and the strengthening notes are a hand-kept record (ANNOT below: what the committed
machinery reported the first time the change was applied, and what was changed afterwards); the "now" column
is read from seeded/<id>-<m>/meta.json, which lib/seed_confirm.py rewrites whenever the change is re-run."""
import json, os, sys

ROOT = os.path.dirname(os.path.dirname(os.path.abspath(__file__)))

F = "found with input"
M = "missed"
O = "fact only"

ANNOT = {
    # round 2
    "C01-m3": (M, "shared C01/C08 pipeline stream: split declarations that spell only part of the word (last unit takes the rest), on-demand split_into of every mode-C morpheme"),
    "C01-m4": (M, "inputs around the 49149 / 65535 byte limits, alone and inside reuse sessions (must be rejected, or accepted and partitioned)"),
    "C02-m3": (F, ""),
    "C02-m4": (M, "C02 pipeline oracle enumerates the dictionary candidates itself (trie lookup per offset) instead of trusting the nodes found in the lattice"),
    "C03-m3": (M, "generated n x m (non-square) configurations with OOV / plugin ids around both dimensions"),
    "C03-m4": (M, "tokenizers with debug dump enabled, run in a child process over input sequences of decreasing length"),
    "C04-m3": (F, ""), "C04-m4": (F, ""),
    "C05-m3": (F, ""), "C05-m4": (F, ""),
    "C06-m3": (F, ""),
    "C06-m4": (M, "every case compiles twice on one builder, retry on the same builder after each injected sink failure; session model + C06_compile_idempotent / C06_retry_is_fresh_build; facts on write_to / compile state mutation"),
    "C07-m3": (M, "sessions on reused objects (one InputBuffer; one StatefulTokenizer + one MorphemeList) over 3..8 inputs, each step vs specification, model and a fresh buffer"),
    "C07-m4": (F, ""),
    "C08-m3": (M, "C08 now checks begin_c/end_c and slice equality for every morpheme the real tokenizer reports (stream shared with C01: display form != key, split declarations of other lengths)"),
    "C08-m4": (O, "same: code-point offsets of every reported morpheme against the count of code points of the original"),
    "C09-m3": (F, ""),
    "C09-m4": (M, "C/A/B analyses come from tokenizers with set_mode histories (fresh or switched, with analyses in between)"),
    "C10-m3": (O, "sudachipy history sessions (per-call mode override, out= reuse, rejected texts) against a fresh Tokenizer"),
    "C10-m4": (F, ""),
    "C11-m3": (M, "operation sequences on long-lived tokenizers sharing result lists (swap_result / collect_results), incl. split_into of collected morphemes; shape fact on swap_result"),
    "C11-m4": (O, "stacks with two user dictionaries and user->user references at word and tokenizer level; theorem C11_lexset_accessor_preserved (each reference field re-stamped under its own flag)"),
    "C12-m3": (F, ""),
    "C12-m4": (M, "MeCab / Simple / Regex providers x userPOS allow / forbid / absent x POS present / absent, load-outcome oracle and exact OOV-POS probe"),
    "C13-m3": (M, "segment stream: long class runs x Regex providers over contiguous ranges sharing ends; independent lattice oracle for Regex matches"),
    "C13-m4": (F, ""),
    "C14-m3": (F, ""), "C14-m4": (F, ""),
    "C15-m3": (F, ""),
    "C15-m4": (M, "pipeline stream repeated under 14 field subsets x modes; joined numerals must not depend on unrequested fields when NORMALIZED_FORM is requested (boundary equality only inside C11's carve-out)"),
    "C16-m3": (F, ""),
    "C16-m4": (O, "checker dictionaries with a system lexicon + 0..3 user lexicons, terminator words and same-start words in different lexicons"),
    "C17-m3": (F, ""),
    "C17-m4": (M, "classes read through one reused InputBuffer over changing grammars (glue above the table), compared with the union of the definition lines"),
    "C18-m3": (O, "fresh-dictionary first-call rounds (all threads start on a dictionary nobody has used), unoptimised profile"),
    "C18-m4": (O, "contention rounds on yomigana-dense texts; the harness itself survives poisoned locks (its crash had masked the finding)"),
    "C19-m3": (F, ""),
    "C19-m4": (O, "CLI files with CR inside the text and at line ends, compared byte for byte; strip_eol model case terms"),
    "C20-m3": (F, ""), "C20-m4": (F, ""),
    # round 3
    "C01-m5": (F, ""),
    "C01-m6": (M, "C01 now also runs sessions through the sudachipy module (one Tokenizer, reused out= list, per-call modes, empty and blank texts anywhere) and evaluates the partition predicate in the interpreter"),
    "C02-m5": (M, "MeCab provider with a generated unk.def whose left id != right id; every OOV candidate in the lattice must carry one of the configured (left, right, cost) templates"),
    "C02-m6": (F, ""),
    "C03-m5": (M, "sessions reusing one tokenizer and ONE result list with empty / blank / rejected inputs anywhere; every accessor (and Debug) of every morpheme after each step"),
    "C03-m6": (M, "additional user dictionaries that share user-defined parts of speech with each other and with userPOS:allow providers; their words in the hostile texts"),
    "C04-m5": (O, ""), "C04-m6": (O, ""),
    "C05-m5": (M, ""), "C05-m6": (M, ""),
    "C06-m5": (M, ""), "C06-m6": (O, ""),
    "C07-m5": (O, "reuse sessions contain generated texts that are accepted by start_build and rejected at commit (and texts over 49149 bytes), followed by ordinary texts, on one InputBuffer and on one tokenizer + list"),
    "C07-m6": (O, "rewrite.def generated and checked as TEXT (comment / blank lines, all separators, '#' inside and in front of keys and values, 1-4 columns, duplicate keys); reader model RewriteDefText.v with C07_rewrite_def_spec / _errors / _accepts / _normalises"),
    "C08-m5": (F, ""), "C08-m6": (F, ""),
    "C09-m5": (M, ""), "C09-m6": (F, ""),
    "C10-m5": (F, ""), "C10-m6": (O, ""),
    "C11-m5": (F, ""), "C11-m6": (O, ""),
    "C12-m5": (M, ""), "C12-m6": (M, ""),
    "C13-m5": (M, ""), "C13-m6": (F, ""),
    "C14-m5": (O, ""), "C14-m6": (O, ""),
    "C15-m5": (M, ""), "C15-m6": (M, ""),
    "C16-m5": (F, ""), "C16-m6": (O, ""),
    "C17-m5": (F, ""), "C17-m6": (F, ""),
    "C18-m5": (O, "threads carry different word-info field requests; references are per-request dictionary instances no thread touches"),
    "C18-m6": (O, "the Python pre-tokenizer adapter (Dictionary.pre_tokenizer with a handler) is called from 2..8 threads and compared with its single-threaded answers"),
    "C19-m5": (F, ""),
    "C19-m6": (M, "directed sessions whose FIRST call carries a per-call mode override, for every creation mode x small field requests"),
    "C20-m5": (F, ""), "C20-m6": (M, ""),
}


def title(d):
    with open(os.path.join(d, "README.md")) as f:
        t = f.readline().strip().lstrip("# ").strip()
    return t.replace("|", "/")


def main():
    ms = sys.argv[1:] or ["m3", "m4"]
    print("| change | what it does (author's words) | first run | now: failing input reported | strengthened after a miss |")
    print("|---|---|---|---|---|")
    sd = os.path.join(ROOT, "seeded")
    for x in sorted(os.listdir(sd)):
        if "-" not in x or x.split("-")[1] not in ms:
            continue
        d = os.path.join(sd, x)
        meta = json.load(open(os.path.join(d, "meta.json")))
        c = meta.get("check", {})
        v = (c.get("verdict") or [""])[0]
        v = v.replace("[verdict] ", "")
        if "smallest: " in v:
            v = v.split("smallest: ", 1)[1]
        v = v.replace("|", "/")[:120]
        if c.get("detected") and c.get("with_failing_input"):
            now = "yes: " + v
        elif c.get("detected"):
            now = "no-failing-input-found: " + v
        else:
            now = "NOT DETECTED"
        first, note = ANNOT.get(x, ("?", ""))
        print("| %s | %s | %s | %s | %s |" % (x, title(d), first, now, note))


if __name__ == "__main__":
    main()
