#!/usr/bin/env python3
"""Print the DESIGN.md table of seeded changes for the given change numbers (e.g. `seed_table.py m3 m4`).

The first-run column and the strengthening notes are a hand-kept record (ANNOT below: what the committed
machinery reported the first time the change was applied, and what was changed afterwards); the "now" column
is read from seeded/<id>-<m>/meta.json, which lib/seed_confirm.py rewrites whenever the change is re-run."""
import json, os, sys

ROOT = os.path.dirname(os.path.dirname(os.path.abspath(__file__)))

F = "found with input"
M = "missed"
O = "fact only"

# what the committed machinery reported the FIRST time each change was applied, and what was changed afterwards: a hand-kept
# record (seeded/first_runs.json), never rewritten by a check
ANNOT = {k: (v["first_run"], v["strengthened"]) for k, v in json.load(open(os.path.join(ROOT, "seeded", "first_runs.json"), encoding="utf-8")).items()}


def title(d):
    with open(os.path.join(d, "README.md")) as f:
        t = f.readline().strip().lstrip("# ").strip()
    return t.replace("|", "/")


def main():
    ms = sys.argv[1:] or ["m3", "m4"]
    print("| change | what it does (author's words) | first run | now: failing input reported | strengthened after a miss |")
    print("|---|---|---|---|---|")
    sd = os.path.join(ROOT, "seeded")
    for x in sorted(os.listdir(sd)):
        if "-" not in x or x.split("-")[1] not in ms:
            continue
        d = os.path.join(sd, x)
        meta = json.load(open(os.path.join(d, "meta.json")))
        c = meta.get("check", {})
        v = (c.get("verdict") or [""])[0]
        v = v.replace("[verdict] ", "")
        if "smallest: " in v:
            v = v.split("smallest: ", 1)[1]
        v = v.replace("|", "/")[:120]
        if c.get("detected") and c.get("with_failing_input"):
            now = "yes: " + v
        elif c.get("detected"):
            now = "no-failing-input-found: " + v
        else:
            now = "NOT DETECTED"
        first, note = ANNOT.get(x, ("?", ""))
        print("| %s | %s | %s | %s | %s |" % (x, title(d), first, now, note))


if __name__ == "__main__":
    main()
