"""Per-property configuration of the check driver."""

TRUSTED_BASE = [
    "Coq 8.16.1 kernel (coqc), vm_compute for witnesses / finite sweeps / case evaluation; native_compute not used",
    "no axioms declared; every property theorem must print 'Closed under the global context'",
    "gen/facts.py (fact translator), lib/vcheck.py (verdict logic), harness/ (Rust generators, canonicalisation, catch_unwind) are unverified glue",
    "the hand-written Gallina model is tied to /repo by regenerated facts and by the differential correspondence run, not by a verified translation",
    "rustc/std semantics (slice::binary_search on strictly sorted slices, Vec, integer casts), third-party crates and all unsafe blocks are modelled, not verified",
]

HOOK_COMMITS = ["6c85395"]

# properties whose check is not built yet (kept current; see DESIGN.md section 8)
NOT_BUILT = {}

PROPS = {
    "C17": {
        "level_text": "Unbounded theorem (all definition lists in any order/overlap/adjacency/duplication, all code points): lookup(compile rs) c = union of covering lines or DEFAULT; compile cannot reach its panic. The Gallina model of compile/get_category_types is run against CharacterCategory::from_reader on generated char.def files each check.",
        "level_note": "Proved about the model; model tied to the code by Generated/CategoryFacts.v and the differential run. Text parsing of char.def and std binary_search are trusted/tested, not proved.",
        "facts": ["CategoryFacts"],
        "trusted": ["char.def text parsing (read_character_definition) is exercised by the correspondence run only; the model starts from the parsed ranges"],
        "assumptions": ["std slice::binary_search returns the unique matching index / insertion point on a strictly sorted slice",
                        "bitflags text parser maps class names to the bits listed in Generated/CategoryFacts.v"],
    },
}
