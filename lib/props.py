"""Per-property configuration of the check driver: one module lib/propcfg/Cxx.py per property (CFG dict)."""
import importlib.util
import glob
import os

TRUSTED_BASE = [
    "Coq 8.16.1 kernel (coqc), vm_compute for witnesses / finite sweeps / case evaluation; native_compute not used",
    "no axioms declared; every property theorem must print 'Closed under the global context'",
    "gen/facts.py (fact translator), lib/vcheck.py (verdict logic), harness/ (Rust generators, canonicalisation, catch_unwind) are unverified glue",
    "the hand-written Gallina model is tied to /repo by regenerated facts and by the differential correspondence run, not by a verified translation",
    "rustc/std semantics (slice::binary_search on strictly sorted slices, Vec, integer casts), third-party crates and all unsafe blocks are modelled, not verified",
]

# commits in /repo that add the cfg-guarded hooks (cargo feature `verif` of crate sudachi)
HOOK_COMMITS = ["6c85395"]

# reasons for properties that are not claimed (kept current)
NOT_BUILT = {}

PROPS = {}
_here = os.path.join(os.path.dirname(os.path.abspath(__file__)), "propcfg")
for _f in sorted(glob.glob(os.path.join(_here, "C*.py"))):
    _name = os.path.basename(_f)[:-3]
    _spec = importlib.util.spec_from_file_location("propcfg_" + _name, _f)
    _m = importlib.util.module_from_spec(_spec)
    _spec.loader.exec_module(_m)
    PROPS[_name] = _m.CFG
