#!/usr/bin/env python3
"""Writes MANIFEST.json from lib/props.py (single source of truth for what is claimed)."""
import json, os, sys
ROOT = os.path.dirname(os.path.dirname(os.path.abspath(__file__)))
sys.path.insert(0, os.path.join(ROOT, "lib"))
import props

ALL = ["C%02d" % i for i in range(1, 21)]
checks = []
na = []
for pid in ALL:
    cfg = props.PROPS.get(pid)
    if cfg is None or not cfg.get("claimed", True):
        na.append({"property_id": pid, "reason": (cfg or {}).get("na_reason", props.NOT_BUILT.get(pid, "check not built yet; planned in DESIGN.md section 5"))})
        continue
    checks.append({
        "property_id": pid,
        "quick_cmd": "./check %s --tier quick" % pid,
        "thorough_cmd": "./check %s --tier thorough" % pid,
        "evidence_file": "/verif/evidence/%s.json" % pid,
        "replay_cmd_template": "./check %s --replay {path}" % pid,
        "engine": "coq-proof+correspondence",
        "level_claimed": {"category": "proof", "text": cfg["level_text"], "design_ref": "DESIGN.md section 5 (%s) and section 10.2 (as built)" % pid},
        "level_note": cfg["level_note"],
        "technique": cfg.get("technique", "machine-checked proof in Coq 8.16.1 of theorems about a hand-written executable Gallina model, tied to the source by regenerated facts and a differential correspondence run (vm_compute)"),
    })
man = {
    "version": 1,
    "setup_cmd": "./setup.sh",
    "hooks": {
        "guard": "cargo feature `verif` of crate `sudachi` (#[cfg(feature = \"verif\")])",
        "enable": "the harness crate /verif/harness depends on sudachi = { path = \"/repo/sudachi\" } and is built with `--features hooks` (= sudachi/verif); cargo rebuilds /repo's working tree on every check",
        "baseline_off_cmd": "cd /repo && CARGO_NET_OFFLINE=true cargo test --workspace --no-fail-fast --offline",
        "source_commits": props.HOOK_COMMITS,
        "add_only": True,
    },
    "engines": [{"name": "coq-proof+correspondence", "path": "/verif/check", "serves_properties": [c["property_id"] for c in checks],
                 "kind_free_text": "Coq 8.16.1 development under /verif/coq (Model/, Proofs/, Properties/, Witness/, Generated/ rewritten from /repo each run) + Rust harness crate /verif/harness run against /repo + coqc vm_compute evaluation of the model on the harness's cases"}],
    "checks": checks,
    "not_applicable": na,
    "notes": "All checks: ./check <id> [--tier quick|thorough] [--replay file]; VERIF_SEED / VERIF_TIER honoured. Known findings: /verif/KNOWN_FINDINGS.txt. See DESIGN.md.",
}
json.dump(man, open(os.path.join(ROOT, "MANIFEST.json"), "w"), indent=1)
print("MANIFEST.json: %d checks, %d not_applicable" % (len(checks), len(na)))
