"""Read a call of a PRIVATE helper function of the same file as if the helper's body stood in place of the call.

A maintainer who moves a few statements of a function into a private helper (`self.helper(args)` / `Self::helper(args)`) changes
nothing a fact is about.  `inline_calls(file_text, body)` rewrites, inside `body`, the statements

    let PAT = [self.|Self::]NAME(ARGS)[?];        LHS = ...NAME(ARGS)[?];        LHS += ...NAME(ARGS)[?];

where `fn NAME` is a function WITHOUT `pub` defined in the same file, into

    <statements of NAME with its parameters replaced by ARGS>   let PAT = <tail expression of NAME>;   (resp. LHS = / LHS += ...)

The rewriting is only done when it is evidently meaning-preserving as a TEXT for the extractors that read it:
  * every parameter is replaced by its argument when the argument is a plain path / `&x` / `&mut x` (then `*param` -> x) or a
    side-effect-free expression of identifiers and + - (the only kinds the helpers in question get);
  * the helper has a tail expression; with `?` at the call the tail must be `Ok(EXPR)` and the value is EXPR;
  * a `return` inside the helper is only tolerated in the form `return Err(..)` when the call carries `?` (same propagation);
  * the helper does not call itself.
Anything else is left as it is (the extractors then behave as before).  Local names of the helper are kept (they may
shadow the caller's: the extractors read statement shapes, not scopes)."""
import re


def _match_close(t, i, op="(", cl=")"):
    d = 0
    for k in range(i, len(t)):
        if t[k] == op:
            d += 1
        elif t[k] == cl:
            d -= 1
            if d == 0:
                return k
    return -1


def _split_top(s, sep=","):
    out, d, cur = [], 0, []
    for c in s:
        if c in "([{<" and not (c == "<" and False):
            d += 1
        elif c in ")]}>":
            d -= 1
        if c == sep and d == 0:
            out.append("".join(cur))
            cur = []
        else:
            cur.append(c)
    if "".join(cur).strip():
        out.append("".join(cur))
    return [x.strip() for x in out]


def private_fn(file_text, name):
    """(params, body) of the non-pub `fn name` of the file, or None"""
    for m in re.finditer(r"(\bpub(?:\([a-z]+\))?\s+)?(?:const\s+)?fn\s+%s\b(?:<[^>{}]*>)?\s*\(" % re.escape(name), file_text):
        if m.group(1):
            return None
        p0 = m.end() - 1
        p1 = _match_close(file_text, p0)
        if p1 < 0:
            return None
        b0 = file_text.find("{", p1)
        semi = file_text.find(";", p1)
        if b0 < 0 or (0 <= semi < b0):
            continue
        b1 = _match_close(file_text, b0, "{", "}")
        if b1 < 0:
            return None
        params = []
        for p in _split_top(file_text[p0 + 1:p1]):
            if re.fullmatch(r"&?\s*(?:mut\s+)?self", p) or not p:
                continue
            mm = re.fullmatch(r"(?:mut\s+)?([a-z_][a-z_0-9]*)\s*:\s*(.+)", p, flags=re.S)
            if not mm:
                return None
            params.append(mm.group(1))
        return params, file_text[b0 + 1:b1]
    return None


def _split_tail(body):
    """(statements text, tail expression) of a function body; tail None when the body ends in `;`"""
    t = body.strip()
    # position after the last depth-0 `;`
    d, last = 0, -1
    for k, c in enumerate(t):
        if c in "([{":
            d += 1
        elif c in ")]}":
            d -= 1
        elif c == ";" and d == 0:
            last = k
    stmts, rest = t[:last + 1], t[last + 1:].strip()
    # peel block statements (for / while / loop / if without value) that are followed by more text
    while True:
        m = re.match(r"(for|while|loop|if)\b", rest)
        if not m:
            break
        b0 = rest.find("{")
        if b0 < 0:
            break
        k = _match_close(rest, b0, "{", "}")
        # an if may continue with else blocks
        while k >= 0:
            m2 = re.match(r"\s*else\s*(?:if\b[^{]*)?\{", rest[k + 1:])
            if not m2:
                break
            k = _match_close(rest, k + 1 + m2.end() - 1, "{", "}")
        if k < 0 or not rest[k + 1:].strip():
            break
        stmts += " " + rest[:k + 1]
        rest = rest[k + 1:].strip()
    return stmts, (rest if rest else None)


_SIMPLE_ARG = re.compile(r"(?:&\s*(?:mut\s+)?)?[A-Za-z_][\w.]*(?:\s*[-+]\s*[A-Za-z_][\w.]*)*")


def _subst(body, params, args):
    for p, a in zip(params, args):
        a = a.strip()
        if not _SIMPLE_ARG.fullmatch(a):
            return None
        m = re.fullmatch(r"&\s*(?:mut\s+)?([A-Za-z_][\w.]*)", a)
        if m:
            tgt = m.group(1)
            body = re.sub(r"\*%s\b|(?<![\w.])%s\b(?!\s*:)" % (re.escape(p), re.escape(p)),
                          lambda mm: tgt if mm.group(0).startswith("*") else a, body)
        else:
            rep = a if re.fullmatch(r"[A-Za-z_][\w.]*", a) else a
            body = re.sub(r"(?<![\w.])%s\b(?!\s*:)" % re.escape(p), lambda _m: rep, body)
    return body


def inline_calls(file_text, body, rounds=2):
    for _ in range(rounds):
        changed = False
        for m in re.finditer(r"(?:(let\s+(?:mut\s+)?[^=;{}]+?)|([A-Za-z_][\w.\[\]]*))\s*(=|\+=)\s*(?:self\s*\.|Self::)([a-z_][a-z_0-9]*)\(", body):
            name = m.group(4)
            p0 = m.end() - 1
            p1 = _match_close(body, p0)
            if p1 < 0:
                continue
            after = body[p1 + 1:]
            m2 = re.match(r"\s*(\?)?\s*;", after)
            if not m2:
                continue
            q = bool(m2.group(1))
            fn = private_fn(file_text, name)
            if not fn:
                continue
            params, hbody = fn
            if re.search(r"\b%s\(" % re.escape(name), hbody):
                continue
            args = _split_top(body[p0 + 1:p1])
            if len(args) != len(params):
                continue
            for r in re.finditer(r"\breturn\b\s*([^;]*)", hbody):
                if not (q and r.group(1).lstrip().startswith("Err(")):
                    break
            else:
                stmts, tail = _split_tail(hbody)
                if tail is None:
                    continue
                if q:
                    mt = re.fullmatch(r"Ok\((.*)\)", tail, flags=re.S)
                    if not mt:
                        continue
                    tail = mt.group(1)
                sub = _subst(stmts + "\x02" + tail, params, args)
                if sub is None:
                    continue
                stmts, tail = sub.split("\x02")
                lhs = m.group(1) or m.group(2)
                body = body[:m.start()] + stmts + " " + lhs + " " + m.group(3) + " " + tail.strip() + ";" + after[m2.end():]
                changed = True
                break
            continue
        if not changed:
            break
    return body
