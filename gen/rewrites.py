"""Sound, purely syntactic equivalences used by the extractors of ResetFacts / SplitFacts / CliLoopFacts before they look
for a feature (builder I).  Every function maps comment-free Rust text to text with the same behaviour:

  guard_to_else(body)   `if C { return E; } REST`  (a statement of the function's top level, no else)  ->  `if C { E } else { REST }`
                        and a final `return E;` -> `E`
  map_to_if_let(text)   `X.map(|p| EFFECT);` as a statement (value discarded)  ->  `if let Some(p) = X { EFFECT; }`
  inline_calls(...)     a call `self.NAME(args)` of a function defined in the same file is followed by the helper's body, with the
                        parameters replaced by the argument expressions, between the markers HELPER_OPEN / HELPER_CLOSE
                        (the call itself stays in place).  A `return` inside the inlined text is spelled HELPER_RETURN: it leaves the
                        helper, not the caller.
"""
import re

HELPER_OPEN = "\x02{"
HELPER_CLOSE = "}\x03"
HELPER_RETURN = "\x04return"
IDENT = r"[A-Za-z_][A-Za-z_0-9]*"


def _match(t, i, op="{", cl="}"):
    """index just after the bracket matching t[i] == op; -1 if none"""
    d = 0
    for k in range(i, len(t)):
        if t[k] == op:
            d += 1
        elif t[k] == cl:
            d -= 1
            if d == 0:
                return k + 1
    return -1


def _top_level_statements(body):
    """(start, end) of the statements at brace depth 0 of `body` (a block statement ends with its closing brace unless an
    `else` follows; every other statement with `;`)"""
    res, i, start, n = [], 0, 0, len(body)
    depth = 0
    while i < n:
        c = body[i]
        if c in "([":
            depth += 1
        elif c in ")]":
            depth -= 1
        elif c == "{" and depth == 0:
            e = _match(body, i)
            if e < 0:
                return res
            head = body[start:i].strip()
            i = e
            # a block that ends the statement: the statement starts with a block keyword (or is a bare block) and neither an
            # `else` nor the rest of an expression follows
            if re.match(r"(?:if|for|while|loop|match|unsafe)\b|$", head) and not re.match(r"\s*(?:else\b|[.?;,)])", body[i:]):
                res.append((start, i))
                start = i
            continue
        elif c == ";" and depth == 0:
            res.append((start, i + 1))
            start = i + 1
        i += 1
    if body[start:].strip():
        res.append((start, n))
    return res


def guard_to_else(body):
    """see module doc; applied repeatedly from the first guard clause on.  Only an `if` without `else` whose block is exactly
    `return E;` and which is a top-level statement of the function body is rewritten."""
    stmts = _top_level_statements(body)
    for (s, e) in stmts:
        st = body[s:e].strip()
        m = re.match(r"if\b(.*?)\{\s*return\b\s*(.*?);\s*\}$", st, flags=re.S)
        if not m or "{" in m.group(1) or "{" in m.group(2) or "}" in m.group(2):
            continue
        rest = guard_to_else(body[e:])
        if not rest.strip():
            continue
        return body[:s] + " if" + m.group(1) + "{ " + m.group(2).strip() + " } else {" + rest + "}"
    # a final `return E;`
    if stmts:
        s, e = stmts[-1]
        m = re.match(r"\s*return\b\s*(.*);\s*$", body[s:e], flags=re.S)
        if m and not body[e:].strip():
            return body[:s] + " " + m.group(1) + " "
    return body


def map_to_if_let(text):
    """`X.map(|p| E);` with the value discarded -> `if let Some(p) = X { E; }` (X a path, E without braces or `;`)"""
    pat = re.compile(r"(?<=[;{}])(\s*)(" + IDENT + r"(?:\." + IDENT + r")*)\.map\(\|(" + IDENT + r")\|\s*([^;{}|]*?)\)\s*;")
    return pat.sub(lambda m: "%sif let Some(%s) = %s { %s; }" % (m.group(1), m.group(3), m.group(2), m.group(4).strip()), text)


def _split_args(s):
    args, cur, d = [], "", 0
    for c in s:
        if c in "([{":
            d += 1
        elif c in ")]}":
            d -= 1
        if c == "," and d == 0:
            args.append(cur.strip())
            cur = ""
        else:
            cur += c
    if cur.strip():
        args.append(cur.strip())
    return args


def _fn(text, name):
    """(parameter names without self, body) of `fn name` with a body in text, or None"""
    for m in re.finditer(r"\bfn\s+%s\s*(?:<[^>{}()]*>)?\s*\(" % re.escape(name), text):
        pe = _match(text, m.end() - 1, "(", ")")
        if pe < 0:
            continue
        k = pe
        d = 0
        while k < len(text) and not (text[k] in "{;" and d == 0):
            if text[k] in "([<":
                d += 1 if text[k] != "<" else 0
            elif text[k] in ")]":
                d -= 1
            k += 1
        if k >= len(text) or text[k] != "{":
            continue
        be = _match(text, k)
        if be < 0:
            continue
        params = []
        for p in _split_args(text[m.end():pe - 1]):
            if re.fullmatch(r"(?:&\s*(?:'\w+\s+)?)?(?:mut\s+)?self", p.strip()):
                continue
            pm = re.match(r"(?:mut\s+)?(" + IDENT + r")\s*:", p.strip())
            if not pm:
                return None
            params.append(pm.group(1))
        return params, text[k + 1:be - 1]
    return None


def inline_calls(body, scope, depth=2, skip=(), receivers=("self",)):
    """see module doc.  `scope` is the text in which helpers are looked up (normally the whole file).  Arguments that are not
    plain paths / references are bound with `let` at the head of the inlined text.  Functions named in `skip` are left alone."""
    if depth <= 0:
        return body
    out, pos = [], 0
    recv = "|".join(re.escape(r) for r in receivers)
    for m in re.finditer(r"\b(?:(?:%s)\.|Self::)(%s)\(" % (recv, IDENT), body):
        if m.start() < pos or m.group(1) in skip:
            continue
        f = _fn(scope, m.group(1))
        if f is None:
            continue
        ce = _match(body, m.end() - 1, "(", ")")
        if ce < 0:
            continue
        params, hb = f
        args = _split_args(body[m.end():ce - 1])
        if len(args) != len(params):
            continue
        lets = ""
        for p, a in zip(params, args):
            if re.fullmatch(r"(?:&\s*(?:mut\s+)?)?" + IDENT + r"(?:(?:\.|::)" + IDENT + r"(?:\(\))?)*", a) and p != a:
                if re.search(r"\blet\s+(?:mut\s+)?%s\b" % re.escape(p), hb):
                    lets += "let %s = %s; " % (p, a)  # re-bound in the helper: keep the binding explicit
                else:
                    hb = re.sub(r"(?<![\w.])%s\b" % re.escape(p), a.replace("\\", "\\\\"), hb)
            elif p != a:
                lets += "let %s = %s; " % (p, a)
        hb = re.sub(r"\breturn\b", HELPER_RETURN, hb)
        hb = inline_calls(hb, scope, depth - 1, tuple(skip) + (m.group(1),), receivers)
        out.append(body[pos:ce] + HELPER_OPEN + " " + lets + hb + " " + HELPER_CLOSE)
        pos = ce
    out.append(body[pos:])
    return "".join(out)


def continue_to_if(loop_body):
    """body of a loop: `if C { continue; } REST` (a top-level statement of the loop body, no else)  ->  `if !(C) { REST }`,
    applied from the first such guard on"""
    for (s, e) in _top_level_statements(loop_body):
        st = loop_body[s:e].strip()
        m = re.match(r"if\b(.*?)\{\s*continue\s*;\s*\}$", st, flags=re.S)
        if not m or "{" in m.group(1):
            continue
        rest = continue_to_if(loop_body[e:])
        return loop_body[:s] + " if !(" + m.group(1).strip() + ") {" + rest + "}"
    return loop_body
