#!/usr/bin/env python3
"""Robustness audit of the fact translators: behaviour-preserving edits of a source file must not change a generated fact
(unless the fact legitimately pins that shape).

usage: fact_audit.py <repo worktree> <file relative to the repo> [kind ...]
       fact_audit.py <repo worktree> --patch <patch.diff>          (which fact files react to a patch)

For every edit kind the edit is first applied at all its sites at once; if some fact file FAILS or its text changes, the sites
are tried one by one and the reacting sites are listed.  The worktree is restored after every experiment (git checkout).
Edits are made only in code segments (never inside string / char literals or comments)."""
import os
import re
import subprocess
import sys
import tempfile

HERE = os.path.dirname(os.path.abspath(__file__))
sys.path.insert(0, HERE)
import facts  # noqa: E402
sys.modules.setdefault("facts", facts)


# ------------------------------------------------------------------ a small Rust lexer: code / comment / string segments
def segments(t):
    out = []
    i, n = 0, len(t)
    cur = []

    def flush():
        if cur:
            out.append(("code", "".join(cur)))
            cur.clear()
    while i < n:
        c = t[i]
        if t.startswith("//", i):
            j = t.find("\n", i)
            j = n if j < 0 else j
            flush()
            out.append(("comment", t[i:j]))
            i = j
        elif t.startswith("/*", i):
            depth, j = 1, i + 2
            while j < n and depth:
                if t.startswith("/*", j):
                    depth += 1
                    j += 2
                elif t.startswith("*/", j):
                    depth -= 1
                    j += 2
                else:
                    j += 1
            flush()
            out.append(("comment", t[i:j]))
            i = j
        elif c == '"' or (c in "rb" and re.match(r'(?:b?r#*"|b")', t[i:i + 6]) and (i == 0 or not (t[i - 1].isalnum() or t[i - 1] == "_"))):
            m = re.match(r'b?r(#*)"', t[i:])
            if m:
                end = '"' + m.group(1)
                j = t.find(end, i + len(m.group(0)))
                j = n if j < 0 else j + len(end)
            else:
                j = i + (2 if c == "b" else 1)
                while j < n and t[j] != '"':
                    j += 2 if t[j] == "\\" else 1
                j += 1
            flush()
            out.append(("string", t[i:j]))
            i = j
        elif c == "'":
            m = re.match(r"'(?:\\(?:u\{[0-9a-fA-F]+\}|x[0-9a-fA-F]{2}|.)|[^\\'])'", t[i:])
            if m:
                flush()
                out.append(("string", m.group(0)))
                i += len(m.group(0))
            else:
                cur.append(c)   # lifetime
                i += 1
        else:
            cur.append(c)
            i += 1
    flush()
    return out


def code_sites(t, pattern, flags=0):
    """(start, end, match) of every match of `pattern` lying completely inside a code segment"""
    res = []
    pos = 0
    for kind, s in segments(t):
        if kind == "code":
            for m in re.finditer(pattern, s, flags):
                res.append((pos + m.start(), pos + m.end(), m))
        pos += len(s)
    return res


def paren_depth_at(t):
    """paren/bracket depth of code at every offset (strings and comments ignored)"""
    depth = [0] * (len(t) + 1)
    d, pos = 0, 0
    for kind, s in segments(t):
        for ch in s:
            if kind == "code":
                if ch in "([":
                    d += 1
                elif ch in ")]":
                    d -= 1
            pos += 1
            depth[pos] = d
    return depth


def production_end(t):
    m = re.search(r"#\[cfg\(test\)\]\s*mod\s+\w+\s*\{", t)
    return m.start() if m else len(t)


# ------------------------------------------------------------------ edit kinds: text -> list of (start, end, replacement)
def k_break_after_comma(t):
    depth = paren_depth_at(t)
    return [(a, b, ",\n        ") for a, b, m in code_sites(t, r", (?=\S)") if depth[a] > 0]


def k_break_before_method(t):
    return [(a, b, m.group(1) + "\n            .") for a, b, m in code_sites(t, r"([)?\]])\.(?=[a-z_]+\()")]


def k_blank_lines(t):
    return [(a, b, ";\n\n") for a, b, m in code_sites(t, r";\n(?=[ \t]*\S)")]


def k_break_at_logic(t):
    return [(a, b, "\n            " + m.group(1) + " ") for a, b, m in code_sites(t, r" (&&|\|\|) ")]


def k_break_after_eq(t):
    return [(a, b, m.group(1) + " =\n            ") for a, b, m in code_sites(t, r"(\blet (?:mut )?[a-z_][a-z_0-9]*(?:: [A-Za-z0-9_<>&' ]+)?) = (?=\S)")]


def k_trailing_comma(t):
    return [(a, b, m.group(1) + "," + m.group(2)) for a, b, m in code_sites(t, r"([\w)\]\"'}?])(\n[ \t]*\))")]


def k_line_comments(t):
    res = []
    for a, b, m in code_sites(t, r"([{;,])\n(?=([ \t]*)\S)"):
        res.append((a, b, m.group(1) + "\n" + (m.group(2) or "") + "// audit: an explanatory remark, with code-like words: if x > 0 { return Err(e) }\n"))
    return res


def k_doc_comments(t):
    return [(a, a, m.group(1) + "/// audit: documentation of this function `len() > MAX` and so on\n") for a, b, m in code_sites(t, r"(?m)^([ \t]*)(?=(?:pub(?:\([a-z]+\))? )?(?:const )?(?:unsafe )?fn [a-z_])")]


def k_block_comments(t):
    return [(a, b, "(/* audit */ ") for a, b, m in code_sites(t, r"\((?=[a-z&*!])")]


def k_is_empty_to_len(t):
    return [(a, b, ".len() == 0") for a, b, m in code_sites(t, r"(?<!!)(?<!!\w)\.is_empty\(\)") if not re.search(r"![\w.()\[\]]*$", t[max(0, a - 60):a].split("\n")[-1].split(" ")[-1])]


def k_len_to_is_empty(t):
    return [(a, b, ".is_empty()") for a, b, m in code_sites(t, r"\.len\(\) == 0")] + \
           [(a, b, "!" + m.group(1) + ".is_empty()") for a, b, m in code_sites(t, r"\b([a-z_][\w.]*)\.len\(\) (?:> 0|!= 0)")]


FLIP = {"<": ">", ">": "<", "<=": ">=", ">=": "<="}


def k_flip_comparison(t):
    res = []
    operand = r"[A-Za-z_0-9.:*]+(?:\([^()\n]*\))?(?:\.[a-z_]+\(\))*(?: as [a-z0-9]+)?"
    for a, b, m in code_sites(t, r"(?m)^([ \t]*(?:\} else )?(?:if|while) |[ \t]*(?:debug_)?assert!\()(" + operand + r") (<=|>=|<|>) (" + operand + r")(?= \{|\)|,| &&| \|\|)"):
        if "::<" in m.group(0) or "->" in m.group(0):
            continue
        res.append((a, b, "%s%s %s %s" % (m.group(1), m.group(4), FLIP[m.group(3)], m.group(2))))
    return res


def balanced(t, i, open_ch="(", close_ch=")"):
    """index just after the bracket matching the one at t[i] (code only)"""
    d = 0
    pos = 0
    for kind, s in segments(t):
        if pos + len(s) <= i:
            pos += len(s)
            continue
        for k, ch in enumerate(s):
            p = pos + k
            if p < i:
                continue
            if kind == "code":
                if ch == open_ch:
                    d += 1
                elif ch == close_ch:
                    d -= 1
                    if d == 0:
                        return p + 1
        pos += len(s)
    return -1


def k_return_err_to_question(t):
    res = []
    for a, b, m in code_sites(t, r"\breturn Err\("):
        e = balanced(t, b - 1)
        if e > 0 and t[e:e + 1] == ";":
            res.append((a, e + 1, t[a + len("return "):e] + "?;"))
    return res


def k_if_else_swap(t):
    res = []
    for a, b, m in code_sites(t, r"(?m)^([ \t]*)if ([^{}\n]+?) \{\n"):
        if re.match(r"\s*let\b", m.group(2)):
            continue
        e1 = balanced(t, b - 2, "{", "}")
        if e1 < 0 or not t.startswith(" else {\n", e1):
            continue
        s2 = e1 + len(" else ")
        e2 = balanced(t, s2, "{", "}")
        if e2 < 0:
            continue
        # the value of the whole if must not be chained (else if after the else block is impossible here)
        cond = m.group(2)
        neg = cond[1:] if re.fullmatch(r"![\w.]+(?:\([^()]*\))?", cond) else "!(%s)" % cond
        res.append((a, e2, "%sif %s %s else %s" % (m.group(1), neg, t[s2:e2], t[b - 2:e1])))
    return res


def k_add_unrelated(t):
    end = production_end(t)
    first_use = re.search(r"(?m)^use ", t)
    res = [(end, end, "\n#[allow(dead_code)]\n#[inline]\nfn audit_unrelated_helper(items: &[u8]) -> usize {\n    if items.len() > 3 {\n        return items.len() - 3;\n    }\n    0\n}\n\n")]
    if first_use:
        res.append((first_use.start(), first_use.start(), "#[allow(unused_imports)]\nuse std::collections::BTreeSet as AuditUnusedSet;\n"))
    m = re.search(r"(?m)^(    )(pub fn [a-z_]+)", t[:end])
    if m:
        res.append((m.start(), m.start(), "    #[inline]\n"))
    return res


def k_swap_lets(t):
    res = []
    for a, b, m in code_sites(t, r"(?m)^([ \t]+)let (?:mut )?([a-z_][a-z_0-9]*)\b[^;\n]*;\n\1let (?:mut )?([a-z_][a-z_0-9]*)\b[^;\n]*;\n"):
        l1, l2 = m.group(0).split("\n")[0], m.group(0).split("\n")[1]
        n1, n2 = m.group(2), m.group(3)
        if re.search(r"\b%s\b" % re.escape(n1), l2.split("=", 1)[-1]) or re.search(r"\b%s\b" % re.escape(n2), l1.split("=", 1)[-1]) or "?" in l1 + l2 or "mut" in l1 + l2:
            continue
        res.append((a, b, l2 + "\n" + l1 + "\n"))
    return res


def k_swap_field_calls(t):
    res = []
    for a, b, m in code_sites(t, r"(?m)^([ \t]+)self\.([a-z_]+)\.(clear|truncate|reset)\(([^()\n]*)\);\n\1self\.([a-z_]+)\.(clear|truncate|reset)\(([^()\n]*)\);\n"):
        if m.group(2) == m.group(5):
            continue
        l = m.group(0).split("\n")
        res.append((a, b, l[1] + "\n" + l[0] + "\n"))
    return res


def fn_bodies(t):
    out = []
    for a, b, m in code_sites(t, r"\bfn [a-z_0-9]+[^;{]*\{"):
        e = balanced(t, b - 1, "{", "}")
        if e > 0:
            out.append((b, e - 1))
    return out


def k_rename_locals(t, binder=r"let (?:mut )?"):
    """one edit per local `let` variable: every occurrence of the name inside the enclosing function body"""
    res = []
    end = production_end(t)
    for (s, e) in fn_bodies(t[:end]):
        body = t[s:e]
        names = []
        for m in re.finditer(r"\b" + binder + r"(?!mut\b)([a-z_][a-z_0-9]{1,})\b", body):
            if m.group(1) not in names:
                names.append(m.group(1))
        sig_start = t.rfind("fn ", 0, s)
        for n in names:
            if re.search(r"\b%s\b" % re.escape(n), t[sig_start:s]):
                continue   # shadows a parameter: renaming every occurrence in the body would not be the same program
            first = re.search(r"(?<!\w)(?<![^.]\.)%s\b" % re.escape(n), body)
            if first and not re.search(r"\b" + binder + r"(?:\([^()]*)?$", body[:first.start()]):
                continue   # used before this `let`: it shadows something else
            if re.search(r"(\{|,)\s*%s\s*(,|\})" % re.escape(n), body) or re.search(r"\b%s:" % re.escape(n), body) or re.search(r"\|[^|]*\b%s\b[^|]*\|" % re.escape(n), body):
                continue   # struct shorthand / field label / closure parameter of the same name: not a plain local
            edits = []
            pos = s
            for kind, seg in segments(body):
                if kind == "code":
                    for m in re.finditer(r"(?<!\w)(?<![^.]\.)%s\b(?!\s*:(?!:))" % re.escape(n), seg):
                        edits.append((pos + m.start(), pos + m.end(), n + "_renamed"))
                pos += len(seg)
            if edits:
                res.append(("multi", edits, n))
    return res


def k_rename_loop_vars(t):
    """one edit per `for x in` variable: every occurrence of the name inside the enclosing function body"""
    return [(a, b, "loop variable " + c) for a, b, c in k_rename_locals(t, binder=r"for ") + k_rename_locals(t, binder=r"for \((?:\w+, )?")]


def k_rename_closure_params(t):
    """one edit per closure with a single plain parameter: the parameter and its uses through the whole closure"""
    import localnames
    mk = localnames._mask(t, facts._segments)
    res = []
    end = production_end(t)
    for (a0, pe, ce, names) in localnames._closures(mk[:end]):
        if len(names) != 1 or names[0] == "_" or not re.fullmatch(r"\|[a-z_][a-z_0-9]*\|", mk[a0:pe]):
            continue
        n = names[0]
        body = mk[pe:ce]
        if not re.search(r"\b%s\b" % re.escape(n), body) or re.search(r"\b%s\s*:(?!:)" % re.escape(n), body) or re.search(r"[{,]\s*%s\s*[,}]" % re.escape(n), body):
            continue
        edits = [(a0 + m.start(), a0 + m.end(), n + "_p") for m in re.finditer(r"(?<!\w)(?<![^.]\.)%s\b" % re.escape(n), mk[a0:ce])]
        res.append(("multi", edits, "closure parameter " + n))
    return res


KINDS = {
    "a:break-after-comma": k_break_after_comma,
    "a:break-before-method": k_break_before_method,
    "a:blank-lines": k_blank_lines,
    "a:break-at-&&-||": k_break_at_logic,
    "a:break-after-let-=": k_break_after_eq,
    "a:trailing-comma": k_trailing_comma,
    "b:line-comments": k_line_comments,
    "b:doc-comments": k_doc_comments,
    "b:block-comments": k_block_comments,
    "c:rename-local": k_rename_locals,
    "c:rename-closure-param": k_rename_closure_params,
    "c:rename-loop-var": k_rename_loop_vars,
    "d:is_empty->len==0": k_is_empty_to_len,
    "d:len==0->is_empty": k_len_to_is_empty,
    "d:flip-comparison": k_flip_comparison,
    "d:return-Err->Err?": k_return_err_to_question,
    "d:if-else-swap": k_if_else_swap,
    "e:unrelated-additions": k_add_unrelated,
    "f:swap-independent-lets": k_swap_lets,
    "f:swap-field-calls": k_swap_field_calls,
}


def apply(t, edits):
    flat = []
    for e in edits:
        if e[0] == "multi":
            flat += e[1]
        else:
            flat.append(e)
    flat.sort(key=lambda x: (x[0], x[1]))
    out, last = [], 0
    for a, b, r in flat:
        if a < last:
            continue   # overlapping edit: skip
        out.append(t[last:a])
        out.append(r)
        last = b
    out.append(t[last:])
    return "".join(out)


# ------------------------------------------------------------------ running the fact step
def run_facts(repo, outdir):
    os.makedirs(outdir, exist_ok=True)
    for f in os.listdir(outdir):
        os.remove(os.path.join(outdir, f))
    res = facts.run(None, repo, outdir)
    texts = {}
    for n in res:
        with open(os.path.join(outdir, n + ".v"), encoding="utf-8") as f:
            texts[n] = f.read()
    return res, texts


def compare(base, now):
    """list of (fact, 'FAILED: reason' | 'changed: first differing line')"""
    out = []
    bres, btxt = base
    nres, ntxt = now
    for n in sorted(bres):
        if nres.get(n) is not None:
            out.append((n, "FAILED: " + str(nres[n])[:200]))
        elif ntxt.get(n) != btxt.get(n):
            bl, nl = btxt[n].splitlines(), ntxt[n].splitlines()
            d = next((i for i in range(min(len(bl), len(nl))) if bl[i] != nl[i]), min(len(bl), len(nl)))
            out.append((n, "changed: %r -> %r" % ((bl[d] if d < len(bl) else "")[:110], (nl[d] if d < len(nl) else "")[:110])))
    return out


def site_text(t, e):
    if e[0] == "multi":
        return "local `%s` (%d occurrences), first at line %d" % (e[2], len(e[1]), t[:e[1][0][0]].count("\n") + 1)
    ln = t[:e[0]].count("\n") + 1
    return "line %d: %s" % (ln, t.splitlines()[ln - 1].strip()[:100] if ln - 1 < len(t.splitlines()) else "")


def main(argv):
    repo = os.path.abspath(argv[1])
    tmp = tempfile.mkdtemp(prefix="factaudit_", dir=os.path.join(HERE, "..", ".work"))
    base = run_facts(repo, os.path.join(tmp, "base"))
    if any(v is not None for v in base[0].values()):
        print("baseline has failing facts:", {k: v for k, v in base[0].items() if v})
    if argv[2] == "--patch":
        subprocess.run(["git", "-C", repo, "apply", argv[3]], check=True)
        try:
            now = run_facts(repo, os.path.join(tmp, "now"))
        finally:
            subprocess.run(["git", "-C", repo, "checkout", "--", "."], check=True)
        for n, what in compare(base, now):
            print("%s\t%s" % (n, what))
        return 0
    rel = argv[2]
    kinds = argv[3:] or list(KINDS)
    path = os.path.join(repo, rel)
    orig = open(path, encoding="utf-8").read()
    lim = production_end(orig)
    try:
        for k in kinds:
            edits = [e for e in KINDS[k](orig) if (e[0] == "multi" and e[1][0][0] < lim) or (e[0] != "multi" and e[0] <= lim)]
            if not edits:
                print("%s\t%s\tno site" % (rel, k))
                continue
            open(path, "w", encoding="utf-8").write(apply(orig, edits))
            diff = compare(base, run_facts(repo, os.path.join(tmp, "now")))
            if not diff:
                print("%s\t%s\t%d sites\tfacts unchanged" % (rel, k, len(edits)))
                continue
            print("%s\t%s\t%d sites\tREACTION: %s" % (rel, k, len(edits), "; ".join("%s %s" % d for d in diff)))
            if len(edits) > 1:
                for e in edits:
                    open(path, "w", encoding="utf-8").write(apply(orig, [e]))
                    d1 = compare(base, run_facts(repo, os.path.join(tmp, "now")))
                    if d1:
                        print("    site %s\n        -> %s" % (site_text(orig, e), "; ".join("%s %s" % d for d in d1)))
    finally:
        open(path, "w", encoding="utf-8").write(orig)
    return 0


if __name__ == "__main__":
    sys.exit(main(sys.argv))
