"""Comparison of a function body with expected spellings UP TO the names of everything the body binds.

facts.same_shape renames `let` variables and closure parameters; a clean-up commit also renames loop variables and the
variables of match arms / if-let patterns, and it introduces or removes a `let` (so that gen/localnames.py, which needs equal
counts, leaves the function alone).  alpha_eq() brings both texts to a canonical form in which every BINDING OCCURRENCE
(let pattern, closure parameter, for pattern, match-arm / if-let / while-let pattern variable) gets the next number and every
later use of that name the number of its latest binding (a `let` becomes visible after its statement, so `let x = f(x);`
reads the old x), and compares the token sequences.  Everything that is not a bound name -- fields, methods, paths, types,
literals, operators, braces -- must be identical.  The expected texts are written by the extractor's author: each of them is a
spelling of the SAME fact; a body that is none of them is a changed shape, as before.

The numbering is linear (scope exits are not tracked).  That can only make two alpha-equivalent texts look different (a false
alarm, as before this module), never two different programs look alike: the uses a linear reading gets wrong are uses of an
outer variable after an inner scope shadowed it, and they are numbered by the same rule on both sides."""
import re
import facts as F

KEYWORDS = {"mut", "ref", "_", "self", "Self", "move", "if", "else", "match", "return", "let", "as", "in", "for", "while", "loop",
            "true", "false", "fn", "impl", "pub", "use", "mod", "struct", "enum", "trait", "where", "unsafe", "dyn", "box", "break",
            "continue", "crate", "super", "const", "static", "type"}
TOKEN = re.compile(r"\x00\d+\x00|[A-Za-z_][A-Za-z_0-9]*|::|=>|->|==|!=|<=|>=|&&|\|\||\.\.=|\.\.|\d[\w.]*|\S")


def tokens(text):
    """comments dropped, spellings canonicalised (facts.strip_comments), literals kept whole"""
    text = F.strip_comments(text)
    lits = []
    parts = []
    for kind, seg in F._segments(text):
        if kind == "string" or kind == "char":
            lits.append(seg)
            parts.append("\x00%d\x00" % (len(lits) - 1))
        elif kind == "comment":
            parts.append(" ")
        else:
            parts.append(seg)
    toks = TOKEN.findall("".join(parts))
    out = []
    for t in toks:
        m = re.fullmatch(r"\x00(\d+)\x00", t)
        out.append(("lit:" + lits[int(m.group(1))]) if m else t)
    # a trailing comma before a closing bracket is layout
    res = []
    for i, t in enumerate(out):
        if t == "," and i + 1 < len(out) and out[i + 1] in (")", "]", "}"):
            continue
        res.append(t)
    return res


def _is_name(t):
    return re.fullmatch(r"[a-z_][a-z_0-9]*", t) is not None and t not in KEYWORDS


def _pattern_names(toks, lo, hi):
    """indexes of the binding names of a pattern toks[lo:hi] (type annotations after `:` skipped up to `,` / end)"""
    out = []
    i = lo
    depth = 0
    skipping = False
    while i < hi:
        t = toks[i]
        if t in "([{":
            depth += 1
        elif t in ")]}":
            depth -= 1
        if skipping:
            if t == "," and depth <= 0:
                skipping = False
            i += 1
            continue
        if t == ":" and depth == 0:
            skipping = True
        elif _is_name(t):
            prev = toks[i - 1] if i > lo else ""
            nxt = toks[i + 1] if i + 1 < len(toks) else ""
            if prev not in (".", "::") and nxt not in ("(", "::", "!", "{"):
                out.append(i)
        i += 1
    return out


def canonical(text):
    toks = tokens(text)
    n = len(toks)
    immediate = {}   # token index of a binding occurrence -> True (visible at once)
    deferred = {}    # token index of a `let` binding occurrence -> index of the token after which it becomes visible
    i = 0
    while i < n:
        t = toks[i]
        if t == "let":
            # pattern up to `=` / `;` at depth 0 (a type annotation is skipped by _pattern_names)
            j, depth = i + 1, 0
            while j < n and not (depth == 0 and toks[j] in ("=", ";")):
                if toks[j] in "([{<":
                    depth += 1
                elif toks[j] in ")]}>":
                    depth -= 1
                j += 1
            names = _pattern_names(toks, i + 1, j)
            # visible after the statement: `;` at the depth of the let; for `if let` / `while let`: at the block's `{`
            cond = i > 0 and toks[i - 1] in ("if", "while")
            k, depth = j, 0
            while k < n:
                if cond and toks[k] == "{" and depth == 0:
                    break
                if toks[k] in "([{":
                    depth += 1
                elif toks[k] in ")]}":
                    depth -= 1
                    if depth < 0:
                        break
                elif toks[k] == ";" and depth == 0:
                    break
                k += 1
            for x in names:
                deferred[x] = k
        elif t == "for":
            j = i + 1
            while j < n and toks[j] != "in":
                j += 1
            for x in _pattern_names(toks, i + 1, j):
                immediate[x] = True
        elif t in ("|", "||") and (i == 0 or toks[i - 1] in ("(", ",", "=", "move", "{", ";", "=>", "return")):
            if t == "|":
                j = i + 1
                while j < n and toks[j] != "|":
                    j += 1
                for x in _pattern_names(toks, i + 1, j):
                    immediate[x] = True
                i = j
        elif t == "=>":
            # the pattern of a match arm: back to `{` / `,` / `=>`-body end at depth 0; a guard `if ...` is not part of it
            j, depth = i - 1, 0
            while j >= 0:
                if toks[j] in ")]":
                    depth += 1
                elif toks[j] in "([":
                    depth -= 1
                    if depth < 0:
                        break
                elif depth == 0 and toks[j] in ("{", ",", "}"):
                    break
                j -= 1
            lo, hi = j + 1, i
            for g in range(lo, hi):
                if toks[g] == "if":
                    hi = g
                    break
            for x in _pattern_names(toks, lo, hi):
                immediate[x] = True
        i += 1
    cur = {}
    pending = []  # (activate_after_index, name, id)
    count = 0
    out = []
    for i, t in enumerate(toks):
        if i in immediate:
            cur[t] = "$%d" % count
            count += 1
            out.append(cur[t])
        elif i in deferred:
            vid = "$%d" % count
            count += 1
            pending.append((deferred[i], t, vid))
            out.append(vid)
        elif _is_name(t) and t in cur and (i == 0 or toks[i - 1] not in (".", "::")):
            out.append(cur[t])
        else:
            out.append(t)
        if pending:
            still = []
            for (k, name, vid) in pending:
                if i >= k:
                    cur[name] = vid
                else:
                    still.append((k, name, vid))
            pending = still
    return out


def alpha_eq(body, expected):
    return canonical(body) == canonical(expected)


def alpha_any(body, expected_list):
    """index of the first expected spelling the body equals up to bound names, or -1"""
    cb = canonical(body)
    for k, e in enumerate(expected_list):
        if cb == canonical(e):
            return k
    return -1


def substitute(body, mapping):
    """rename free identifiers (e.g. the parameters of a helper) textually: not after `.` / `::`"""
    def rep(m):
        return mapping.get(m.group(0), m.group(0))
    return re.sub(r"(?<![.\w:])[A-Za-z_][A-Za-z_0-9]*", rep, body)
