"""Names of locals are not part of what a fact pins.

The extractors of gen/factmods are (mostly) regular expressions written against the text of the pinned tree, and so they
spell the names of `let` variables and closure parameters.  A maintainer who renames such a local changes nothing the
models depend on.  Instead of loosening a hundred patterns, the source text is normalised before any extractor sees it:

  * gen/local_names.json records, for every function of the pinned tree, the names its `let`s bind (in order of first
    binding) and the parameter names of its closures (per closure, in order);   `facts.py --record-locals` rewrites it
    (to be re-run whenever the pinned tree itself changes the locals of a function an extractor reads);
  * facts.src() passes every file through restore(): where a function binds the same NUMBER of names as recorded but
    spells some of them differently, those names are renamed back, consistently through the function body (closure
    parameters: through the closure).

The renaming is a consistent renaming of a bound variable to a name that does not occur in the function at all, so the
text the extractors see is alpha-equivalent to the text of the file: nothing a change does to the BEHAVIOUR of the code
can be hidden by it.  Whenever that is not evident -- the new spelling is itself one of the recorded names (statements
moved around), the old name still occurs in the function, the name is used as a struct field short-hand or a label, it
shadows a parameter, it is captured by a format string, the counts differ -- the function is left exactly as it is, and the
extractors behave as they did before this module existed.
"""
import json
import os
import re
import sys

_HERE = os.path.dirname(os.path.abspath(__file__))
RECORD = os.path.join(_HERE, "local_names.json")
IDENT = r"[A-Za-z_][A-Za-z_0-9]*"
KEYWORDS = {"mut", "ref", "_", "self", "move", "if", "else", "match", "return", "let", "as", "in", "for", "while", "loop",
            "true", "false", "fn", "impl", "pub", "use", "mod", "struct", "enum", "trait", "where", "unsafe", "dyn", "box"}


class _Skip(Exception):
    pass


def _mask(text, segments):
    """same length as text; comments become blanks, string / char literals become \\x01 runs"""
    out = []
    for kind, seg in segments(text):
        if kind == "code":
            out.append(seg)
        elif kind == "comment":
            out.append(re.sub(r"[^\n]", " ", seg))
        else:
            out.append(re.sub(r"[^\n]", "\x01", seg))
    return "".join(out)


def _functions(mk):
    """[(key, sig_start, body_start, body_end)] of the outermost functions of masked text mk; key = enclosing
    impl / trait / mod headers + name + ordinal among the functions of the same (headers, name)"""
    # innermost-brace bookkeeping for the headers
    opens = []          # stack of (position of `{`, header text)
    header_at = {}      # position of a `{` -> tuple of enclosing item headers (incl. its own, when it is an item)
    last = 0
    for m in re.finditer(r"[{};]", mk):
        c, p = m.group(0), m.start()
        if c == "{":
            head = re.sub(r"\s+", " ", re.sub(r"#\[[^\]]*\]", "", mk[last:p])).strip()
            item = head if re.match(r"(?:pub(?:\([a-z]+\))? )?(?:unsafe )?(?:impl|trait|mod)\b", head) else None
            opens.append((p, item))
            header_at[p] = tuple(h for _, h in opens if h)
        elif c == "}":
            if opens:
                opens.pop()
        last = p + 1
    res, seen, end_prev = [], {}, -1
    for m in re.finditer(r"\bfn\s+(%s)" % IDENT, mk):
        if m.start() < end_prev:
            continue                      # a nested fn is part of the function around it
        i, depth, start = m.end(), 0, None
        while i < len(mk):
            c = mk[i]
            if c in "([":
                depth += 1
            elif c in ")]":
                depth -= 1
            elif c == "{" and depth == 0:
                start = i + 1
                break
            elif c == ";" and depth == 0:
                break
            i += 1
        if start is None:
            continue
        i, depth = start, 1
        while i < len(mk) and depth:
            if mk[i] == "{":
                depth += 1
            elif mk[i] == "}":
                depth -= 1
            i += 1
        if depth:
            continue
        ctx = header_at.get(start - 1, ())
        base = " / ".join(ctx + (m.group(1),))
        k = seen.get(base, 0)
        seen[base] = k + 1
        res.append(("%s#%d" % (base, k), m.start(), start, i - 1))
        end_prev = i
    return res


def _lets(body):
    """names bound by `let` (incl. flat tuple patterns) and by `for <pattern> in`, in order of first binding"""
    names = []
    for m in re.finditer(r"\b(?:let\s+(?:mut\s+)?|for\s+)(\(((?:[^()]|\([^()]*\))*)\)|[a-z_][a-z_0-9]*)(?=\s*[:=;]|\s+in\b)", body):
        for n in re.findall(r"(?<![A-Za-z_0-9])[a-z_][a-z_0-9]*", m.group(2) if m.group(2) is not None else m.group(1)):
            if n not in KEYWORDS and n not in names:
                names.append(n)
    return names


def _closures(body):
    """[(position of the opening `|`, end of the parameter list, end of the closure, [parameter names])]"""
    res = []
    for m in re.finditer(r"\|((?:\s*&?(?:mut\s+)?\(?[a-z_][a-z_0-9]*\)?\s*,?)+)\|", body):
        before = body[:m.start()].rstrip()
        if not (before[-1:] in "(,={;:" or re.search(r"\b(?:move|return)$", before)):
            continue                      # `a | b | c`
        names = [n for n in re.findall(r"[a-z_][a-z_0-9]*", m.group(1)) if n not in KEYWORDS]
        i = m.end()
        while i < len(body) and body[i] in " \t\n":
            i += 1
        depth, j = 0, i
        if body[i:i + 1] == "{":
            while j < len(body):
                if body[j] == "{":
                    depth += 1
                elif body[j] == "}":
                    depth -= 1
                    if depth == 0:
                        j += 1
                        break
                j += 1
        else:
            while j < len(body):
                c = body[j]
                if c in "([{":
                    depth += 1
                elif c in ")]}":
                    if depth == 0:
                        break
                    depth -= 1
                elif c in ",;" and depth == 0:
                    break
                j += 1
        res.append((m.start(), m.end(), j, names))
    return res


# a comparison between two plain operands (identifiers, paths, fields, methods without arguments, a leading `*`) in a position
# where it is a condition: after `if` / `while` / `&&` / `||` / `(` / `!`, before ` {` / `&&` / `||` / `)` / `,` / `;`
_OPND = r"\(?\*?[A-Za-z_]\w*(?:(?:\.|::)[A-Za-z_]\w*(?:\(\))?)*(?:\s+as\s+[a-z][a-z0-9]*)?\)?"
_CMP = re.compile(r"((?:\bif\s|\bwhile\s|&&\s|\|\|\s|[(!]))\s*(" + _OPND + r")\s*(<=|>=|<|>)\s*(" + _OPND + r")(?=\s*(?:\{|&&|\|\||\)|,|;))")
_FLIP = {"<": ">", ">": "<", "<=": ">=", ">=": "<="}


def _opnd(x):
    """an operand without the brackets a cast needs on the left of `<`"""
    x = re.sub(r"\s+", " ", x.strip())
    return x[1:-1] if x.startswith("(") and x.endswith(")") and not x.endswith("()") else x


def _comparisons(body):
    """[(start of lhs, end of rhs, lhs, op, rhs)] of the variable-versus-variable comparisons of a (masked) function body"""
    res = []
    for m in _CMP.finditer(body):
        if re.fullmatch(r"[0-9_]+|[A-Z][A-Z0-9_]*", m.group(2)) or re.fullmatch(r"[0-9_]+|[A-Z][A-Z0-9_]*", m.group(4)):
            continue      # against a constant: facts.canon turns those round
        a0, b0, x, y = m.start(2), m.end(4), m.group(2), m.group(4)
        if x.count("(") > x.count(")"):          # the bracket belongs to the expression around the comparison
            a0, x = a0 + 1, x[1:]
        if y.count(")") > y.count("("):
            b0, y = b0 - 1, y[:-1]
        if x.count("(") != x.count(")") or y.count("(") != y.count(")"):
            continue
        res.append((a0, b0, x, m.group(3), y))
    return res


def analyse(text, segments):
    """{function key: {"l": [let names], "c": [[closure parameter names] ...], "m": [[lhs, op, rhs] ...]}} (functions that
    bind nothing and compare nothing are left out)"""
    mk = _mask(text, segments)
    out = {}
    for key, _s, b, e in _functions(mk):
        body = mk[b:e]
        l, c = _lets(body), [names for _a, _b, _c, names in _closures(body)]
        cm = [[_opnd(x), o, _opnd(y)] for _a, _b, x, o, y in _comparisons(body)]
        if l or c or cm:
            out[key] = {"l": l, "c": c}
            if cm:
                out[key]["m"] = cm
    return out


def _innermost(mk, a, b):
    """for every position of mk[a:b]: the innermost open bracket character (or '')"""
    res, stack = [], []
    for ch in mk[a:b]:
        if ch in ")]}" and stack:
            stack.pop()
        res.append(stack[-1] if stack else "")
        if ch in "([{":
            stack.append(ch)
    return res


def _edits(mk, text, a, b, mapping, params_end=None):
    """edits (start, end, new) renaming the identifier tokens of mk[a:b] per mapping; _Skip when a token is in a position
    where renaming is not evidently a renaming of the local (struct short-hand, label, format capture)"""
    inner = _innermost(mk, a, b)
    res = []
    for m in re.finditer(IDENT, mk[a:b]):
        tok = m.group(0)
        if tok not in mapping:
            continue
        s, e = a + m.start(), a + m.end()
        if mk[s - 1:s] == "'":
            continue                                            # a lifetime
        p = s - 1
        while p >= 0 and mk[p] in " \t\n":
            p -= 1
        n = e
        while n < len(mk) and mk[n] in " \t\n":
            n += 1
        if mk[p:p + 1] == "." and mk[p - 1:p] != ".":
            continue                                            # field / method of that spelling
        if mk[p - 1:p + 1] == "::" or mk[n:n + 2] == "::":
            continue                                            # path segment
        if mk[n:n + 1] == "!" and mk[n + 1:n + 2] != "=":
            continue                                            # macro
        if mk[n:n + 1] == ":":
            if not re.search(r"\blet\s+(?:mut\s+)?$", mk[max(0, s - 12):s]):
                raise _Skip("label")
        if mk[p:p + 1] in "{," and mk[n:n + 1] in ",}" and inner[s - a] == "{":
            raise _Skip("short-hand")
        res.append((s, e, mapping[tok]))
    # a format string that captures one of the names
    for m in re.finditer(r"\x01+", mk[a:b]):
        lit = text[a + m.start():a + m.end()]
        for name in list(mapping) + list(mapping.values()):
            if re.search(r"\{%s[}:]" % re.escape(name), lit):
                raise _Skip("format capture")
    return res


def _apply(text, edits):
    for s, e, new in sorted(edits, reverse=True):
        text = text[:s] + new + text[e:]
    return text


_RECORDED = None


def recorded():
    global _RECORDED
    if _RECORDED is None:
        try:
            with open(RECORD, encoding="utf-8") as f:
                _RECORDED = json.load(f)
        except OSError:
            _RECORDED = {}
    return _RECORDED


_CACHE = {}
NOTES = []


def restore(rel, text, segments):
    rec = recorded().get(rel)
    if not rec or not rel.endswith(".rs"):
        return text
    key = (rel, text)
    if key in _CACHE:
        return _CACHE[key]
    out = text
    try:
        out = _restore(rel, text, rec, segments)
    except Exception as ex:        # never let the normalisation stand between a file and its extractors
        NOTES.append("%s: local names not normalised (%s)" % (rel, ex))
    _CACHE[key] = out
    return out


def _tokens(mk, a, b):
    """identifiers of mk[a:b] in a position where they can name a variable (not `.field`, not a path segment, not a macro,
    not the name of the function itself)"""
    res = set()
    for m in re.finditer(IDENT, mk[a:b]):
        s, e = a + m.start(), a + m.end()
        p = s - 1
        while p >= 0 and mk[p] in " \t\n":
            p -= 1
        n = e
        while n < len(mk) and mk[n] in " \t\n":
            n += 1
        if mk[p:p + 1] == "." and mk[p - 1:p] != ".":
            continue
        if mk[p - 1:p + 1] == "::" or mk[n:n + 2] == "::":
            continue
        if mk[n:n + 1] == "!" and mk[n + 1:n + 2] != "=":
            continue
        if re.search(r"\bfn\s+$", mk[max(0, s - 8):s]):
            continue
        res.add(m.group(0))
    return res


def _restore(rel, text, rec, segments):
    # ---- phase 1: let-bound names, per function
    mk = _mask(text, segments)
    edits = []
    for key, sig, b, e in _functions(mk):
        want = rec.get(key)
        if not want:
            continue
        have = _lets(mk[b:e])
        if have == want["l"] or len(have) != len(want["l"]):
            continue
        mapping = dict((h, w) for h, w in zip(have, want["l"]) if h != w)
        toks = _tokens(mk, sig, e)
        sigtoks = _tokens(mk, sig, b)
        ok = True
        for h, w in mapping.items():
            if h in want["l"] or w in toks or h in sigtoks:
                ok = False            # statements moved around / the old name is still in use / shadows a parameter
                break
            first = re.search(r"\b%s\b" % re.escape(h), mk[b:e])
            if not first or not re.search(r"\b(?:let|for)\s+[\w\s,(&]*$", mk[b:b + first.start()]):
                ok = False            # used before it is bound here: it shadows something
                break
        if not ok:
            continue
        try:
            edits += _edits(mk, text, b, e, mapping)
            NOTES.append("%s: fn %s: locals %s read under their recorded names" % (rel, key, ", ".join("%s->%s" % kv for kv in sorted(mapping.items()))))
        except _Skip:
            continue
    if edits:
        text = _apply(text, edits)
        mk = _mask(text, segments)
    # ---- phase 2: closure parameters, per closure
    edits = []
    for key, sig, b, e in _functions(mk):
        want = rec.get(key)
        if not want:
            continue
        body = mk[b:e]
        have = _closures(body)
        if [n for _a, _b, _c, n in have] == want["c"] or len(have) != len(want["c"]):
            continue
        known = set(n for c in want["c"] for n in c)
        for (a0, _pe, c0, names), wnames in zip(have, want["c"]):
            if names == wnames or len(names) != len(wnames) or len(set(names)) != len(names):
                continue
            mapping = dict((h, w) for h, w in zip(names, wnames) if h != w)
            toks = _tokens(mk, b + a0, b + c0)
            if any(h in known or w in toks for h, w in mapping.items()):
                continue
            try:
                edits += _edits(mk, text, b + a0, b + c0, mapping)
                NOTES.append("%s: fn %s: closure parameters %s read under their recorded names" % (rel, key, ", ".join("%s->%s" % kv for kv in sorted(mapping.items()))))
            except _Skip:
                continue
    # overlapping closures (one inside another): keep the outer edit set only where they collide
    seen, uniq = set(), []
    for ed in edits:
        if (ed[0], ed[1]) not in seen:
            seen.add((ed[0], ed[1]))
            uniq.append(ed)
    if uniq:
        text = _apply(text, uniq)
        mk = _mask(text, segments)
    # ---- phase 3: a comparison between two variables written from the other side (`b > a` for the recorded `a < b`) is read
    # in the recorded orientation.  Only the exact mirror image of a recorded comparison that is itself missing is turned
    # round: `a > b` or `b < a` for a recorded `a < b` are different tests and stay as they are
    edits = []
    for key, sig, b, e in _functions(mk):
        want = rec.get(key)
        if not want or not want.get("m"):
            continue
        have = [(a0, b0, _opnd(x), o, _opnd(y)) for a0, b0, x, o, y in _comparisons(mk[b:e])]
        missing = [tuple(x) for x in want["m"]]
        for _a, _b, x, o, y in have:
            if (x, o, y) in missing:
                missing.remove((x, o, y))
        for a0, b0, x, o, y in have:
            mirror = (y, _FLIP[o], x)
            if mirror in missing and (x, o, y) not in [tuple(t) for t in want["m"]]:
                missing.remove(mirror)
                edits.append((b + a0, b + b0, "%s %s %s" % mirror))
                NOTES.append("%s: fn %s: comparison %s %s %s read as recorded (%s %s %s)" % ((rel, key, x, o, y) + mirror))
    return _apply(text, edits) if edits else text


def record(repo, segments, tops=("sudachi/src", "sudachi-cli/src", "python/src", "plugin")):
    out = {}
    for top in tops:
        for d, dirs, files in os.walk(os.path.join(repo, top)):
            dirs[:] = sorted(x for x in dirs if x not in ("target", ".git"))
            for f in sorted(files):
                if not f.endswith(".rs"):
                    continue
                p = os.path.join(d, f)
                rel = os.path.relpath(p, repo)
                with open(p, encoding="utf-8") as fh:
                    a = analyse(fh.read(), segments)
                if a:
                    out[rel] = a
    lines = []
    for rel in sorted(out):
        lines.append("%s: {\n%s\n}" % (json.dumps(rel), ",\n".join(" %s: %s" % (json.dumps(k), json.dumps(out[rel][k], sort_keys=True)) for k in sorted(out[rel]))))
    with open(RECORD, "w", encoding="utf-8") as fh:
        fh.write("{\n" + ",\n".join(lines) + "\n}\n")
    return sum(len(v) for v in out.values())
