"""Keys of panic-capable constructs for the ONE-DIRECTIONAL site obligations of C03 (Proofs/SiteCover.v).

A classification of panic sites has to alarm when a NEW construct appears; it must not alarm when a construct disappears
(`unwrap()` replaced by a `match`, a repeated `path[begin]` bound to a `let`), when the index expression is spelled with
another local (`self.mod_bow[bidx]` / `[byte_idx]`, `edit.what.start` / `what.start`) or when the operand of a cast is.
So every construct is reduced to a key that names WHAT is indexed / cast to, not with which expression:
  idx:<container>[i]   idx:<container>[r]   (point / range index; chained brackets are chained: [i][i])
  unwrap   get_unchecked   cast:<type>   sub (a usize `.. - 1`)
and the obligation is multiset inclusion per function: generated keys within the classified keys."""
import re


def index_key(expr):
    """`self.ends_full[id.end()asusize][id.index()asusize]` -> `idx:self.ends_full[i][i]`"""
    m = re.match(r"([A-Za-z0-9_\.]*)", expr)
    base = m.group(1)
    rest = expr[len(base):]
    kinds = []
    depth = 0
    cur = []
    for c in rest:
        if c == "[":
            depth += 1
            if depth == 1:
                cur = []
                continue
        elif c == "]":
            depth -= 1
            if depth == 0:
                kinds.append("r" if ".." in "".join(cur) else "i")
                continue
        cur.append(c)
    return "idx:%s%s" % (base, "".join("[%s]" % k for k in kinds))


def keys(index_exprs, unwraps, get_unchecked, casts, subs=()):
    out = [index_key(x) for x in index_exprs]
    out += ["unwrap"] * int(unwraps) + ["get_unchecked"] * int(get_unchecked)
    out += ["cast:%s" % c.rsplit(" as ", 1)[-1] for c in casts]
    out += ["sub"] * len(subs)
    return sorted(out)


def coq_rows(rows):
    """rows: [(name, [key, ...])] -> Coq list text"""
    return ";\n    ".join('("%s", [%s])' % (n, "; ".join('"%s"' % k for k in ks)) for n, ks in rows)
