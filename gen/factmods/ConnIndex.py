"""Generated/ConnIndex.v: index formula and assertions of ConnectionMatrix::index, the formula of ConnBuffer::write_elem,
and which of a node's ids the lattice passes at which argument position of ConnectionMatrix::cost."""
import re
import facts as F


def parse_iexp(expr, names, where):
    """tiny parser for sums of products over the given names ({source name: Coq constructor})"""
    e = re.sub(r"\bas\s+usize\b", "", expr)
    e = e.replace("self.", "").strip()
    if re.search(r"[^A-Za-z0-9_+* ()]", e) or "(" in e or ")" in e:
        raise F.FactError("unsupported index expression %r in %s" % (expr, where))

    def atom(a):
        a = a.strip()
        if a in names:
            return names[a]
        if re.fullmatch(r"[0-9]+", a):
            return "(IConst %s)" % a
        raise F.FactError("unknown name %r in index expression %r of %s" % (a, expr, where))

    def prod(p):
        fs = [atom(x) for x in p.split("*")]
        r = fs[0]
        for f in fs[1:]:
            r = "(IMul %s %s)" % (r, f)
        return r
    ts = [prod(x) for x in e.split("+")]
    r = ts[0]
    for x in ts[1:]:
        r = "(IAdd %s %s)" % (r, x)
    return r


def gen():
    out = [F.HEADER, "From SudachiVerif Require Import Model.GuardLang.\nOpen Scope Z_scope.\n\n"]
    # ---- dic/connect.rs
    rel = "sudachi/src/dic/connect.rs"
    t = F.strip_comments(F.src(rel))
    m = re.search(r"fn\s+index\(&self,\s*left:\s*u16,\s*right:\s*u16\)\s*->\s*usize", t)
    if not m:
        raise F.FactError("ConnectionMatrix::index(&self, left: u16, right: u16) not found")
    b = F.fn_body(t, "index", rel)
    # local names are free: `let <ul> = left as usize; let <ur> = right as usize; let <ix> = <formula>; <ix>`
    ml = re.search(r"let\s+(\w+)\s*=\s*left\s+as\s+usize\s*;", b)
    mr = re.search(r"let\s+(\w+)\s*=\s*right\s+as\s+usize\s*;", b)
    if not (ml and mr):
        raise F.FactError("ConnectionMatrix::index: uleft/uright are no longer `left/right as usize`")
    ul, ur = ml.group(1), mr.group(1)
    mret = re.search(r"\n\s*(\w+)\s*\n?\s*$", b)
    if not mret:
        raise F.FactError("ConnectionMatrix::index no longer returns `index`")
    ix = mret.group(1)
    mi = re.search(r"let\s+%s\s*=\s*([^;]+);" % re.escape(ix), b)
    if not mi:
        raise F.FactError("ConnectionMatrix::index: `let index = ...` not found")
    names = {ul: "ILeft", ur: "IRight", "left": "ILeft", "right": "IRight", "num_left": "INumLeft", "num_right": "INumRight"}
    out.append("Definition matrix_index : iexp := %s.\n" % parse_iexp(mi.group(1), names, rel + ":index"))
    asserts = re.findall(r"debug_assert!\(([^;]+)\);", b)
    known = {"%s < self.num_left" % ul: "left_lt_num_left", "%s < self.num_right" % ur: "right_lt_num_right", "%s < self.data.len()" % ix: "index_lt_len"}
    # the same assertions written the other way round
    for k in list(known):
        x, y = k.split(" < ")
        known["%s > %s" % (y, x)] = known[k]
    got = []
    for a in asserts:
        a = " ".join(a.split())
        if a not in known:
            raise F.FactError("unrecognised debug_assert!(%s) in ConnectionMatrix::index" % a)
        got.append(known[a])
    for k in ("left_lt_num_left", "right_lt_num_right", "index_lt_len"):
        out.append("Definition debug_asserts_%s : bool := %s.\n" % (k, "true" if k in got else "false"))
    for fn in ("cost", "update"):
        fb = F.fn_body(t, fn, rel)
        mc = re.search(r"let\s+(\w+)\s*=\s*self\.index\(left,\s*right\)\s*;", fb)
        if not mc:
            raise F.FactError("ConnectionMatrix::%s no longer calls self.index(left, right)" % fn)
        if fn == "update" and not re.search(r"self\.data\.set\(%s,\s*value\)" % re.escape(mc.group(1)), fb):
            raise F.FactError("ConnectionMatrix::update no longer is data.set(index, value)")
    # CowArray::set is a bounds-checked slice store
    ct = F.strip_comments(F.src("sudachi/src/util/cow_array.rs"))
    sb = F.fn_body(ct, "set", "sudachi/src/util/cow_array.rs")
    if not re.search(r"\|(\w+)\|\s*\1\[offset\]\s*=\s*value", sb):
        raise F.FactError("CowArray::set is no longer the checked store s[offset] = value")
    # ---- dic/grammar.rs: argument order is passed through
    rel = "sudachi/src/dic/grammar.rs"
    t = F.strip_comments(F.src(rel))
    if not re.search(r"self\.connection\.cost\(left_id\s+as\s+u16,\s*right_id\s+as\s+u16\)", F.fn_body(t, "connect_cost", rel)):
        raise F.FactError("Grammar::connect_cost no longer passes (left_id as u16, right_id as u16)")
    if not re.search(r"\.update\(left_id\s+as\s+u16,\s*right_id\s+as\s+u16,\s*cost\)", F.fn_body(t, "set_connect_cost", rel)):
        raise F.FactError("Grammar::set_connect_cost no longer passes (left_id as u16, right_id as u16, cost)")
    pb = F.fn_body(t, "parse", rel)
    if not re.search(r"left_id_size\s+as\s+usize,\s*right_id_size\s+as\s+usize,?\s*\)", pb):
        raise F.FactError("Grammar::parse no longer passes (left_id_size, right_id_size) to the matrix")
    # ---- analysis/lattice.rs: which node id goes where
    rel = "sudachi/src/analysis/lattice.rs"
    t = F.strip_comments(F.src(rel))
    calls = re.findall(r"conn\.cost\(\s*(\w+)\.(left_id|right_id)\(\)\s*,\s*(\w+)\.(left_id|right_id)\(\)\s*\)", t)
    if not calls:
        raise F.FactError("no conn.cost(<node>.<id>(), <node>.<id>()) call found in lattice.rs")
    kinds = set((c[1], c[3]) for c in calls)
    if len(kinds) != 1:
        raise F.FactError("lattice.rs calls conn.cost with differing id roles: %s" % sorted(kinds))
    a0, a1 = kinds.pop()
    K = {"left_id": "KLeftId", "right_id": "KRightId"}
    out.append("(* conn.cost(<left node>.%s(), <right node>.%s()) *)\n" % (a0, a1))
    out.append("Definition cost_arg_left : idkind := %s.\nDefinition cost_arg_right : idkind := %s.\n" % (K[a0], K[a1]))
    # ---- dic/build/conn.rs: write_elem
    rel = "sudachi/src/dic/build/conn.rs"
    t = F.strip_comments(F.src(rel))
    b = F.fn_body(t, "write_elem", rel)
    mi = re.search(r"let\s+(\w+)\s*=\s*([^;]*\bself\.num_(?:left|right)\b[^;]*);", b)
    if not mi:
        raise F.FactError("write_elem: `let index = ...` not found")
    names = {"left": "ILeft", "right": "IRight", "num_left": "INumLeft", "num_right": "INumRight"}
    out.append("Definition write_elem_index : iexp := %s.\n" % parse_iexp(mi.group(2), names, rel + ":write_elem"))
    m2 = re.search(r"let\s+(\w+)\s*=\s*%s\s*\*\s*2\s*;" % re.escape(mi.group(1)), b)
    if not m2 or not re.search(r"self\.matrix\[%s\]\s*=" % re.escape(m2.group(1)), b):
        raise F.FactError("write_elem: byte index is no longer index * 2")
    return "".join(out)
