"""Facts the C07 proofs are sensitive to, re-read from the three input-text plugins on every run."""
import re
import facts as F

DEF = "sudachi/src/plugin/input_text/default_input_text/mod.rs"
PSM = "sudachi/src/plugin/input_text/prolonged_sound_mark/mod.rs"
YOMI = "sudachi/src/plugin/input_text/ignore_yomigana/mod.rs"
TRAIT = "sudachi/src/plugin/input_text/mod.rs"


def b(x):
    return "true" if x else "false"


def coq_str(s):
    return '"%s"' % s.replace('"', '""')


def guard_kind(expr, rel, what):
    """classify the expression deciding whether a character is sent through to_lowercase"""
    e = re.sub(r"\s+", "", expr)
    if re.fullmatch(r"(ch|c|\*c)\.is_uppercase\(\)", e):
        return True
    if re.fullmatch(r"(Self::)?needs_lowercase\(\*?(ch|c)\)", e):
        return False
    raise F.FactError("%s: %s is `%s`, neither `is_uppercase()` nor `needs_lowercase(..)`" % (rel, what, expr.strip()))


def gen():
    out = [F.HEADER]
    t = F.strip_comments(F.src(DEF))

    # --- automaton construction
    m = re.search(r"\.match_kind\(\s*MatchKind::(\w+)\s*\)", t)
    if not m:
        raise F.FactError("match_kind(..) of the rewrite automaton not found in %s" % DEF)
    out.append("Definition ac_match_kind : string := %s.\n" % coq_str(m.group(1)))
    m = re.search(r"\.start_kind\(\s*StartKind::(\w+)\s*\)", t)
    if not m:
        raise F.FactError("start_kind(..) not found in %s" % DEF)
    out.append("Definition ac_start_kind : string := %s.\n" % coq_str(m.group(1)))
    if not re.search(r"if\s+replace_char_map\.contains_key\(cols\[0\]\)\s*\{\s*return\s+Err", t):
        raise F.FactError("duplicate-key rejection not found in read_rewrite_lists")
    # the columns of a line are ALL its white-space separated pieces (nothing filtered or cut off in between)
    if not re.search(r"let\s+\w+\s*:\s*Vec<_>\s*=\s*\w+\.split_whitespace\(\)\.collect\(\)\s*;", t):
        raise F.FactError("read_rewrite_lists no longer splits on white space (keys could be empty)")

    # --- fast path
    fast = F.fn_body(t, "replace_fast", DEF)
    m = re.search(r"\.anchored\(\s*Anchored::(\w+)\s*\)", fast)
    if not m:
        raise F.FactError("anchored(..) of replace_fast not found")
    out.append("Definition fast_anchored : string := %s.\n" % coq_str(m.group(1)))
    out.append("Definition fast_search_earliest : bool := %s.\n" % b(re.search(r"\.earliest\(\s*true\s*\)", fast)))
    if not re.search(r"for\s+m\s+in\s+checker\.find_iter\(", fast):
        raise F.FactError("replace_fast no longer iterates checker.find_iter(..)")

    # --- slow path
    slow = F.fn_body(t, "replace_slow", DEF)
    m = re.search(r"\.anchored\(\s*Anchored::(\w+)\s*\)", slow)
    if not m:
        raise F.FactError("anchored(..) of replace_slow not found")
    out.append("Definition slow_anchored : string := %s.\n" % coq_str(m.group(1)))
    out.append("Definition slow_search_earliest : bool := %s.\n" % b(re.search(r"\.earliest\(\s*true\s*\)", slow)))
    if not re.search(r"if\s+offset\s*<\s*min_offset\s*\{\s*continue;?\s*\}", slow):
        raise F.FactError("replace_slow: `if offset < min_offset { continue }` not found")
    if not re.search(r"min_offset\s*=\s*range\.end\s*;", slow):
        raise F.FactError("replace_slow: `min_offset = range.end` not found")
    m = re.search(r"let\s+need_lowercase\s*=\s*([^;]+);", slow)
    if not m:
        raise F.FactError("replace_slow: `let need_lowercase = ..` not found")
    out.append("Definition lowercase_guard_is_uppercase : bool := %s.\n" % b(guard_kind(m.group(1), DEF, "need_lowercase of replace_slow")))
    # `quick-check != Yes` spelled as a two-arm match, as !matches!(..) or as a comparison
    qc = r"is_nfkc_quick\(std::iter::once\(ch\)\)"
    not_yes = (r"(?:match\s+%s\s*\{\s*IsNormalized::Yes\s*=>\s*false\s*,\s*_\s*=>\s*true\s*,?\s*\}"
               r"|!\s*matches!\(\s*%s\s*,\s*IsNormalized::Yes\s*\)"
               r"|%s\s*!=\s*IsNormalized::Yes|IsNormalized::Yes\s*!=\s*%s)" % (qc, qc, qc, qc))
    m = re.search(r"let\s+need_nkfc\s*=\s*!self\.should_ignore\(ch\)\s*&&\s*%s\s*;" % not_yes, slow)
    if not m:
        raise F.FactError("replace_slow: need_nkfc is no longer `!should_ignore(ch) && quick-check != Yes`")
    # the four arms of the (need_lowercase, need_nkfc) match
    arms = re.findall(r"\((true|false)\s*,\s*(true|false)\)\s*=>\s*(continue|\{[^}]*\})", slow)
    want = {("false", "false"): "continue", ("true", "false"): "ch.to_lowercase()",
            ("false", "true"): "std::iter::once(ch).nfkc()", ("true", "true"): "ch.to_lowercase().nfkc()"}
    seen = {}
    for a, c, body in arms:
        seen[(a, c)] = body
    for k, w in want.items():
        if k not in seen:
            raise F.FactError("replace_slow: arm %s of the (need_lowercase, need_nkfc) match not found" % (k,))
        bb = re.sub(r"\s+", "", seen[k])
        if w == "continue":
            if bb != "continue":
                raise F.FactError("replace_slow: arm (false,false) is no longer `continue`")
        elif ("letchars=%s;" % w.replace(" ", "")) not in bb:
            raise F.FactError("replace_slow: arm %s no longer computes `%s`" % (k, w))
    hs = F.fn_body(t, "handle_normalization_slow", DEF)
    # nothing when the iterator is empty or starts with `ch`, else replace_char_iter(start..start + len, first, data):
    # either `match data.next() { Some(x) => { if x == ch { return; } R } None => return }` (read as before) or the whole
    # body is `if let Some(x) = data.next() { if x != ch { R } }`
    hw = re.sub(r"\s+", "", hs)
    form_a = re.search(r"if\s+ch2\s*==\s*ch\s*\{\s*return;?\s*\}", hs) and re.search(r"replace_char_iter\(\s*start\.\.start\s*\+\s*len\s*,\s*ch2\s*,\s*data\s*\)", hs)
    form_b = re.fullmatch(r"ifletSome\((\w+)\)=data\.next\(\)\{if(?:\1!=ch|ch!=\1)\{replacer\.replace_char_iter\(start\.\.start\+len,\1,data\);?\}\}", hw)
    if not form_a and not form_b:
        raise F.FactError("handle_normalization_slow: shape not recognised")

    # --- path choice
    ri = F.fn_body(t, "rewrite_impl", DEF)
    m = re.search(r"let\s+need_lowercase\s*=\s*chars\.iter\(\)\.any\(\s*\|c\|\s*(.*?)\)\s*;", ri)
    if not m:
        raise F.FactError("rewrite_impl: `let need_lowercase = chars.iter().any(|c| ..)` not found")
    out.append("Definition path_guard_is_uppercase : bool := %s.\n" % b(guard_kind(m.group(1), DEF, "need_lowercase of rewrite_impl")))
    if not re.search(r"if\s+need_nkfc\s*\|\|\s*need_lowercase\s*\{\s*self\.replace_slow\(buffer,\s*edit\)\s*\}\s*else\s*\{\s*self\.replace_fast\(buffer,\s*edit\)\s*\}", ri):
        raise F.FactError("rewrite_impl: `if need_nkfc || need_lowercase { slow } else { fast }` not found")
    if not re.search(r"match\s+is_nfkc_quick\(chars\.iter\(\)\.cloned\(\)\)\s*\{\s*IsNormalized::Yes\s*=>\s*false\s*,\s*_\s*=>\s*true", ri):
        raise F.FactError("rewrite_impl: need_nkfc is no longer `is_nfkc_quick(all chars) != Yes`")
    # helper, when present: its definition is part of the fact
    if re.search(r"fn\s+needs_lowercase\b", t):
        body = re.sub(r"\s+", "", F.fn_body(t, "needs_lowercase", DEF))
        if body not in ("letmutlower=ch.to_lowercase();lower.next()!=Some(ch)||lower.next().is_some()",):
            raise F.FactError("needs_lowercase: body `%s` not recognised" % body)
        out.append("Definition needs_lowercase_is_lower_differs : bool := true.\n")
    else:
        out.append("Definition needs_lowercase_is_lower_differs : bool := false.\n")

    # --- trait: rewrite = (refresh chars) + with_editor(rewrite_impl)
    tt = F.strip_comments(F.src(TRAIT))
    rw = F.fn_body(tt, "rewrite", TRAIT)
    if not re.search(r"input\.with_editor\(", rw) or not re.search(r"self\.rewrite_impl\(b,\s*r\)", rw):
        raise F.FactError("InputTextPlugin::rewrite no longer is with_editor(rewrite_impl)")

    # --- prolonged sound marks: literal pieces of the pattern
    p = F.strip_comments(F.src(PSM))
    pr = F.fn_body(p, "prolongs_as_regex", PSM)
    m1 = re.search(r"pattern\.push\('(\[)'\)", pr)
    m2 = re.search(r'pattern\.push_str\("([^"]*)"\)', pr)
    if not m1 or not m2:
        raise F.FactError("prolongs_as_regex: pattern pieces not found")
    out.append("Definition psm_pattern_open : string := %s.\n" % coq_str(m1.group(1)))
    out.append("Definition psm_pattern_close : string := %s.\n" % coq_str(m2.group(1)))
    pri = F.fn_body(p, "rewrite_impl", PSM)
    if not re.search(r"for\s+m\s+in\s+re\.find_iter\(data\)\s*\{\s*edit\.replace_ref\(m\.range\(\),\s*&self\.replace_symbol\)", pri):
        raise F.FactError("ProlongedSoundMarkPlugin::rewrite_impl: loop shape not recognised")

    # --- yomigana: the format string of the pattern and the class masks
    y = F.strip_comments(F.src(YOMI))
    mk = F.fn_body(y, "make_regex", YOMI)
    m = re.search(r'format!\(\s*"([^"]*)"', mk)
    if not m:
        raise F.FactError("make_regex: format string not found")
    out.append("Definition yomi_pattern_format : string := %s.\n" % coq_str(m.group(1)))
    kp = re.sub(r"\s+", "", F.fn_body(y, "kanji_pattern", YOMI))
    rp = re.sub(r"\s+", "", F.fn_body(y, "reading_pattern", YOMI))
    mk1 = re.search(r"append_class\(&muts,([A-Za-z:|]+)\)", kp)
    mr1 = re.search(r"append_class\(&muts,([A-Za-z:|]+)\)", rp)
    if not mk1 or not mr1:
        raise F.FactError("kanji_pattern / reading_pattern: append_class call not found")
    out.append("Definition yomi_kanji_classes : string := %s.\n" % coq_str(mk1.group(1)))
    out.append("Definition yomi_reading_classes : string := %s.\n" % coq_str(mr1.group(1)))
    yri = F.fn_body(y, "rewrite_impl", YOMI)
    if not re.search(r"for\s+m\s+in\s+regex\.captures_iter\(data\)\s*\{\s*let\s+grp\s*=\s*m\.get\(1\)\.unwrap\(\);\s*edit\.replace_ref\(grp\.range\(\),\s*\"\"\)", yri):
        raise F.FactError("IgnoreYomiganaPlugin::rewrite_impl: loop shape not recognised")
    return "".join(out)
