"""Facts for C13 (unknown-word candidates): Generated/OovFacts.v.

Extracted on every run from
  sudachi/src/input_text/buffer/mod.rs      build(): the if/else-if chain that decides can_bow; fill_cat_continuity(): direction
  sudachi/src/plugin/oov/mecab_oov/mod.rs   provide_oov_gen(): invoke guard, group decrement, length loop range and break test
  sudachi/src/plugin/oov/simple_oov/mod.rs  provide_oov(): guard
  sudachi/src/plugin/oov/regex_oov/mod.rs   strict boundary test, default max length
  sudachi/src/analysis/created.rs           MAX_VALUE, Maybe threshold comparison, debug assertion of single()
  sudachi/src/analysis/stateful_tokenizer.rs build_lattice(): class gate of the provider loop, fallback provider;
                                            resolve_best_path(): the word info made for an OOV node
  sudachi/src/dic/word_id.rs                packing of (dictionary, word) into a WordId, the OOV dictionary id
  sudachi/src/dic/lexicon/word_infos.rs     fallbacks of normalized_form / dictionary_form / reading_form
  sudachi/src/analysis/morpheme.rs          dictionary_id, is_oov, part_of_speech_id
"""
import re
import facts as F
import inline_helpers as IH

BUF = "sudachi/src/input_text/buffer/mod.rs"
MECAB = "sudachi/src/plugin/oov/mecab_oov/mod.rs"
SIMPLE = "sudachi/src/plugin/oov/simple_oov/mod.rs"
REGEX = "sudachi/src/plugin/oov/regex_oov/mod.rs"
CREATED = "sudachi/src/analysis/created.rs"
TOK = "sudachi/src/analysis/stateful_tokenizer.rs"
CAT = "sudachi/src/dic/category_type.rs"
WID = "sudachi/src/dic/word_id.rs"
WINFO = "sudachi/src/dic/lexicon/word_infos.rs"
MORPH = "sudachi/src/analysis/morpheme.rs"


def cat_env():
    t = F.strip_comments(F.src(CAT))
    m = re.search(r"pub\s+struct\s+CategoryType\s*:\s*u32\s*\{(.*?)\n\s*\}\s*\n\}", t, flags=re.S)
    if not m:
        raise F.FactError("bitflags CategoryType block not found in category_type.rs")
    env = {}
    for name, expr in re.findall(r"const\s+([A-Z0-9_]+)\s*=\s*([^;]+);", m.group(1)):
        env[name] = F.const_eval(expr, env)
    return env


def cat_expr(expr, env, where):
    """`CategoryType::A | CategoryType::B` -> bits"""
    names = [x.strip() for x in expr.split("|")]
    v = 0
    for n in names:
        mm = re.fullmatch(r"CategoryType::([A-Z0-9_]+)", n)
        if not mm or mm.group(1) not in env:
            raise F.FactError("unrecognised category expression %r in %s" % (expr, where))
        v |= env[mm.group(1)]
    return v


def norm(s):
    return re.sub(r"\s+", " ", s).strip()


def bow_chain(env):
    buf_text = F.strip_comments(F.src(BUF))
    # a private helper holding the decision chain (`let can_bow = Self::helper(cat, prev_cat, &mut next_bow);`) is read in place
    body = IH.inline_calls(buf_text, F.fn_body(buf_text, "build", BUF))
    m = re.search(r"let\s+non_starting\s*=\s*([^;]+);", body)
    if not m:
        raise F.FactError("`let non_starting = ...` not found in %s:build" % BUF)
    non_starting = cat_expr(norm(m.group(1)), env, BUF + ":build")
    m = re.search(r"let\s+can_bow\s*=\s*(if\b.*?\})\s*;", body, flags=re.S)
    if not m:
        raise F.FactError("`let can_bow = if ...;` not found in %s:build" % BUF)
    chain = m.group(1)
    # `if next_bow { <inner chain> } else { <E> }` is `if !next_bow { <E> } else <inner chain>`  (if c {X} else {Y} = if !c {Y} else {X};
    # `else { if .. }` = `else if ..`): read in the negated form the patterns below are written for
    mu = re.match(r"if\s+next_bow\s*\{", chain)
    if mu:
        e1 = IH._match_close(chain, mu.end() - 1, "{", "}")
        me = re.fullmatch(r"\s*else\s*\{([^{}]*)\}\s*", chain[e1 + 1:]) if e1 > 0 else None
        inner = chain[mu.end():e1].strip() if e1 > 0 else ""
        if me and inner.startswith("if ") and IH._split_tail(inner)[0].strip() == "":
            chain = "if !next_bow {%s} else %s" % (me.group(1), inner)
    parts = re.findall(r"(?:^|else\s+)if\s+(.*?)\s*\{(.*?)\}\s*(?=else)", chain, flags=re.S)
    m_else = re.search(r"else\s*\{([^{}]*)\}\s*$", chain, flags=re.S)
    if not parts or not m_else:
        raise F.FactError("shape of the can_bow chain not recognised in %s:build" % BUF)
    if norm(m_else.group(1)) != "true":
        raise F.FactError("final else of the can_bow chain is no longer `true`")
    rules = []
    for cond, br in parts:
        cond, br = norm(cond), norm(br)
        if cond == "!next_bow":
            if br != "next_bow = true; false":
                raise F.FactError("branch of `!next_bow` changed: %r" % br)
            rules.append(("prev_forbids", 0))
            continue
        mm = re.fullmatch(r"cat\.intersects\((.*)\)", cond)
        if not mm:
            raise F.FactError("unrecognised can_bow condition %r" % cond)
        arg = mm.group(1)
        mask = non_starting if arg == "non_starting" else cat_expr(arg, env, BUF + ":build")
        if br == "next_bow = false; false":
            rules.append(("forbid_this_and_next", mask))
        elif br == "false":
            rules.append(("forbid_this", mask))
        elif br == "!cat.intersects(prev_cat)":
            rules.append(("needs_class_change", mask))
        else:
            raise F.FactError("unrecognised can_bow branch %r for condition %r" % (br, cond))
    if not re.search(r"let\s+mut\s+prev_cat\s*=\s*CategoryType::empty\(\)\s*;", body) or not re.search(r"prev_cat\s*=\s*cat\s*;", body):
        raise F.FactError("prev_cat handling of build() changed")
    if not re.search(r"let\s+mut\s+next_bow\s*=\s*true\s*;", body):
        raise F.FactError("initial next_bow of build() changed")
    return rules


def continuity_direction():
    body = norm(F.strip_comments(F.fn_body(F.src(BUF), "fill_cat_continuity", BUF)))
    backward = (".rev()" in body and "self.mod_cat_continuity[i] = self.mod_cat_continuity[i + 1] + 1" in body)
    forward = ("while start < len" in body and "let mut common = self.mod_cat[start];" in body
               and "let next = common & self.mod_cat[end];" in body and "if next.is_empty() { break; }" in body
               and "self.mod_cat_continuity[i] = end - i;" in body and "start = end;" in body and ".rev()" not in body)
    if backward == forward:
        raise F.FactError("shape of fill_cat_continuity not recognised (neither the backward pass nor the forward segmentation)")
    return forward


def cmp_of(text, pat, where):
    m = re.search(pat, text)
    if not m:
        raise F.FactError("comparison not found in %s (pattern %s)" % (where, pat))
    return m.group(1)


def gen():
    """Every fact is extracted on its own.  A fact whose source shape is no longer recognised is replaced by the value the
    property statement assumes and named in `unrecognised`; Properties/C13.v holds the obligation `unrecognised = []`, so the
    check reports the broken tie, while the model still builds and the correspondence run can look for a concrete failing
    input."""
    env = cat_env()
    out = [F.HEADER]
    bad = []

    def fact(name, ty, default, fn):
        try:
            v = fn()
        except F.FactError as e:
            bad.append("%s: %s" % (name, str(e).replace('"', "'")))
            v = default
        out.append("Definition %s : %s := %s.\n" % (name, ty, v))

    def coq_chain(rules):
        return "[ %s ]" % "; ".join('("%s", %s)' % (n, F.coq_int(v)) for n, v in rules)

    nb2, nb1 = env.get("NOOOVBOW2", 1 << 31), env.get("NOOOVBOW", 1 << 30)
    ns = env.get("ALPHA", 32) | env.get("GREEK", 512) | env.get("CYRILLIC", 1024)
    out.append("(* can_bow chain of InputBuffer::build, in source order; the final else yields true *)\n")
    fact("bow_chain", "list (string * N)",
         coq_chain([("prev_forbids", 0), ("forbid_this_and_next", nb2), ("forbid_this", nb1), ("needs_class_change", ns)]),
         lambda: coq_chain(bow_chain(env)))
    out.append("(* fill_cat_continuity: true = left-to-right segmentation, false = single backward pass *)\n")
    fact("continuity_forward", "bool", "true", lambda: "true" if continuity_direction() else "false")

    def mec():
        """provide_oov_gen in one canonical spelling: a private helper that pushes one node per unk.def template and returns
        their number is read as the loop it contains; the locals the patterns below mention are found by their ROLE (bound by
        cat_continuous_len / initialised with it / loop counter of 1..=length / bound by char_distance) and given their
        recorded names"""
        text = F.strip_comments(F.src(MECAB))
        m = norm(F.fn_body(text, "provide_oov_gen", MECAB))
        # counting helper: fn h(&self, A, B, C, D) -> usize { let mut n = 0; for o in A { D.push(self.get_oov_node(o, B, C)); n += 1; } n }
        for mc in list(re.finditer(r"num_created \+= self\.([a-z_][a-z_0-9]*)\(oovs, offset, (offset \+ \w+), nodes\);", m)):
            fn = IH.private_fn(text, mc.group(1))
            if not fn or len(fn[0]) != 4:
                continue
            a, b, c, d = fn[0]
            hb = norm(fn[1])
            if re.fullmatch(r"let mut (\w+) = 0; for (\w+) in %s \{ %s\.push\(self\.get_oov_node\(\2, %s, %s\)\); \1 \+= 1; \} \1" % (a, d, b, c), hb):
                m = m.replace(mc.group(0), "for oov in oovs { nodes.push(self.get_oov_node(oov, offset, %s)); num_created += 1; }" % mc.group(2))
        roles = []
        r = re.search(r"let (\w+) = input\.cat_continuous_len\(offset\);", m)
        if r:
            roles.append((r.group(1), "char_len"))
            r2 = re.search(r"let mut (\w+) = %s;" % re.escape(r.group(1)), m)
            if r2:
                roles.append((r2.group(1), "llength"))
        r = re.search(r"for (\w+) in 1\.\.=?cinfo\.length \{ let (\w+) = input\.char_distance\(offset, \1 as usize\);", m)
        if r:
            roles.append((r.group(1), "i"))
            roles.append((r.group(2), "sublength"))
        for have, want in roles:
            if have != want and not re.search(r"(?<![\w.])%s\b" % want, m):
                m = re.sub(r"(?<![\w.])%s\b" % re.escape(have), want, m)
        return m

    def mecab_shape():
        m = mec()
        for needle, what in (("if !cinfo.is_invoke && other_words.not_empty() { continue; }", "invoke guard"),
                             ("if char_len == 0 { return Ok(0); }", "prologue"), ("let mut llength = char_len;", "prologue"),
                             ("let sublength = input.char_distance(offset, i as usize);", "sublength"),
                             ("for ctype in input.cat_at_char(offset).iter() {", "class iteration")):
            if needle not in m:
                raise F.FactError("%s of provide_oov_gen changed" % what)
        return "true"
    fact("mecab_shape_recognised", "bool", "true", mecab_shape)

    def len_incl():
        m = re.search(r"for i in 1\.\.(=?)cinfo\.length \{", mec())
        if not m:
            raise F.FactError("length loop of provide_oov_gen not recognised")
        return "true" if m.group(1) else "false"
    fact("mecab_len_inclusive", "bool", "true", len_incl)
    fact("mecab_break_cmp", "string", '">"',
         lambda: '"%s"' % cmp_of(mec(), r"if sublength (>=|>|<=|<|==|!=) llength(?: \|\| sublength < i as usize)? \{ break; \}", MECAB))

    # since the fix of the clamped-distance loop: leave as soon as char_distance stops growing (i passed the end of the text)
    def clamp_break():
        if re.search(r"if sublength (?:>=|>|<=|<|==|!=) llength \|\| sublength < i as usize \{ break; \}", mec()):
            return "true"
        if re.search(r"if sublength (?:>=|>|<=|<|==|!=) llength \{ break; \}", mec()):
            return "false"
        raise F.FactError("break test of the length loop of provide_oov_gen not recognised")
    fact("mecab_break_on_clamp", "bool", "true", clamp_break)

    def group_dec():
        m = re.search(r"if cinfo\.is_group \{ for oov in oovs \{ nodes\.push\(self\.get_oov_node\(oov, offset, offset \+ char_len\)\); num_created \+= 1; \} llength -= (\d+); \}", mec())
        if not m:
            raise F.FactError("group branch of provide_oov_gen not recognised")
        return m.group(1)
    fact("mecab_group_dec", "nat", "1", group_dec)

    def simple_shape():
        sim = norm(F.strip_comments(F.fn_body(F.src(SIMPLE), "provide_oov", SIMPLE)))
        if "if other_words.not_empty() { return Ok(0); }" not in sim or "input_text.get_word_candidate_length(offset)" not in sim:
            raise F.FactError("SimpleOovPlugin::provide_oov changed")
        wl = norm(F.strip_comments(F.fn_body(F.src(BUF), "get_word_candidate_length", BUF)))
        # the first i in char_idx+1 .. char_len whose byte can start a word, as a `for` with early return or as Range::find
        if "for i in (char_idx + 1)..char_len { let byte_idx = self.mod_c2b[i]; if self.can_bow(byte_idx) { return i - char_idx; } } char_len - char_idx" not in wl \
           and not re.search(r"let (\w+) = \(\(char_idx \+ 1\)\.\.char_len\)\.find\(\|&(\w+)\| self\.can_bow\(self\.mod_c2b\[\2\]\)\); match \1 \{ Some\((\w+)\) => \3 - char_idx, None => char_len - char_idx,? \}$", wl):
            raise F.FactError("InputBuffer::get_word_candidate_length changed")
        return "true"
    fact("simple_shape_recognised", "bool", "true", simple_shape)

    def rx():
        return norm(F.strip_comments(F.src(REGEX)))

    def strict():
        m = re.search(r"if this_cat \+ (\d+) (==|!=|<=|>=|<|>) prev_cat \{", rx())
        if not m:
            raise F.FactError("strict boundary test of RegexOovProvider not recognised")
        return m
    fact("regex_strict_delta", "nat", "1", lambda: strict().group(1))
    fact("regex_strict_cmp", "string", '"=="', lambda: '"%s"' % strict().group(2))

    def maxlen():
        m = re.search(r"fn default_max_length\(\) -> usize \{ (\d+) \}", rx())
        if not m:
            raise F.FactError("default_max_length of RegexOovProvider not found")
        return m.group(1)
    fact("regex_default_max_length", "nat", "32", maxlen)
    # since fix d4b32a6 an empty match is not a word: `if <match>.end() == 0 { return Ok(0); }` in front of the use of <match>.end()
    # for the candidate's end, <match> being whatever the result of regex.find is called
    def ignores_empty():
        b = norm(F.strip_comments(F.fn_body(F.src(REGEX), "provide_oov", REGEX)))
        mv = re.search(r"input_text\.ch_idx\(byte_offset \+ (\w+)\.end\(\)\)", b)
        if not mv:
            raise F.FactError("RegexOovProvider::provide_oov: end of the candidate not recognised")
        v = mv.group(1)
        if not re.search(r"match regex\.find\(text_data\) \{.*?Some\((\w+)\) => (?:\1,? \}; |\{ )", b) or \
           not (re.search(r"Some\(%s\) => \{" % v, b) or re.search(r"let %s = match regex\.find\(text_data\) \{ None => return Ok\(0\), Some\((\w+)\) => \1,? \};" % v, b)):
            raise F.FactError("RegexOovProvider::provide_oov: the match whose end is used is not the result of regex.find(text_data)")
        mg = re.search(r"if %s\.end\(\) == 0 \{ return Ok\(0\); \}" % v, b)
        return bool(mg) and mg.start() < mv.start()
    fact("regex_ignores_empty_match", "bool", "true",
         lambda: "true" if ignores_empty() else "false")

    def cr():
        return norm(F.strip_comments(F.src(CREATED)))

    def single_shape():
        """CreatedWords::single by the ROLE of its locals: the i64 length (optionally asserted positive), its cast to the carrier,
        the shift min(len - 1 saturating, MAX_SHIFT), one carrier bit shifted by it: `(1 as Carrier) << s` or `let b: Carrier = 1 << s`"""
        b = norm(F.fn_body(F.strip_comments(F.src(CREATED)), "single", CREATED))
        m = re.fullmatch(r"let (\w+)(?:: i64)? = length\.into\(\); (debug_assert!\(\1 > 0\); )?let (\w+) = \1 as Carrier; "
                         r"let (\w+) = min\(\3\.saturating_sub\(1\), CreatedWords::MAX_SHIFT\); "
                         r"(?:let (\w+) = \(1 as Carrier\) << \4;|let (\w+): Carrier = 1 << \4;) CreatedWords\((\w+)\)", b)
        if not m or m.group(7) != (m.group(5) or m.group(6)):
            raise F.FactError("shift computation of CreatedWords::single changed")
        return m

    def maxv():
        m = re.search(r"const\s+MAX_VALUE\s*:\s*\w+\s*=\s*([^;]+);", cr())
        if not m:
            raise F.FactError("CreatedWords::MAX_VALUE not found")
        if "const MAX_SHIFT: Carrier = CreatedWords::MAX_VALUE - 1;" not in cr():
            raise F.FactError("shift computation of CreatedWords::single changed")
        single_shape()
        return F.coq_int(F.const_eval(m.group(1)))
    fact("created_max_value", "N", "64%N", maxv)

    def maybe_cmp():
        """the comparison `length <op> MAX_VALUE` under which has_word answers Maybe (the bit being set): read from
        `if C { Maybe } else { Yes }` or `if !C' { Yes } else { Maybe }`, nested in the else block or as `else if`, either side"""
        b = norm(F.fn_body(F.strip_comments(F.src(CREATED)), "has_word", CREATED))
        m = re.fullmatch(r"let (\w+) = CreatedWords::single\(length\); if \(self\.0 & \1\.0\) == 0 \{ HasWord::No \} else (?:\{ )?"
                         r"if (.+?) \{ HasWord::(Maybe|Yes) \} else \{ HasWord::(Maybe|Yes) \}(?: \})?", b)
        if not m or m.group(3) == m.group(4):
            raise F.FactError("comparison not found in %s (has_word: if <length ? MAX_VALUE> { Maybe | Yes } else { Yes | Maybe })" % CREATED)
        cond = m.group(2)
        flip = {"<": ">", ">": "<", "<=": ">=", ">=": "<=", "==": "==", "!=": "!="}
        neg = {"<": ">=", ">=": "<", ">": "<=", "<=": ">", "==": "!=", "!=": "=="}
        c1 = re.fullmatch(r"length\.into\(\) (>=|>|<=|<|==|!=) CreatedWords::MAX_VALUE as (?:_|i64)", cond)
        c2 = re.fullmatch(r"CreatedWords::MAX_VALUE as (?:_|i64) (>=|>|<=|<|==|!=) length\.into\(\)", cond)
        if c1:
            op = c1.group(1)
        elif c2:
            op = flip[c2.group(1)]
        else:
            raise F.FactError("comparison not found in %s (has_word compares %r)" % (CREATED, cond))
        return op if m.group(3) == "Maybe" else neg[op]
    fact("has_word_maybe_cmp", "string", '">="', lambda: '"%s"' % maybe_cmp())
    fact("single_asserts_positive", "bool", "true", lambda: "true" if single_shape().group(2) else "false")

    def tk():
        allsrc = F.strip_comments(F.src(TOK))
        i = allsrc.find("impl<'a> LatticeBuilder<'a>")
        if i < 0:
            raise F.FactError("LatticeBuilder impl not found")
        return norm(IH.inline_calls(allsrc, F.fn_body(allsrc[i:], "build_lattice", TOK)))

    def gate():
        m = re.search(r"if !self ?\.input ?\.cat_at_char\(ch_off\) ?\.intersects\(([^)]*)\) \{ for provider in self\.oov_providers \{", tk())
        if not m:
            raise F.FactError("class gate of the provider loop in build_lattice not recognised")
        return F.coq_int(cat_expr(m.group(1), env, TOK))
    fact("oov_gate_mask", "N", F.coq_int(nb1 | nb2), gate)

    def fallback():
        m = re.search(r"if created\.is_empty\(\) \{ let provider = self\.oov_providers\.(last|first)\(\)\.unwrap\(\);", tk())
        if not m:
            raise F.FactError("fallback provider of build_lattice not recognised")
        return '"%s"' % m.group(1)
    fact("fallback_provider", "string", '"last"', fallback)

    def loop_shape():
        t = tk()
        if "if created.is_empty() { return Err(SudachiError::EosBosDisconnect); }" not in t:
            raise F.FactError("EosBosDisconnect test of build_lattice changed")
        if "if !self.lattice.has_previous_node(ch_off) { continue; }" not in t:
            raise F.FactError("reachability test of build_lattice changed")
        return "true"
    fact("lattice_loop_recognised", "bool", "true", loop_shape)
    fact("lexicon_end_needs_bow", "bool", "true",
         lambda: "true" if re.search(r"if \(e\.end < input_bytes\.len\(\)\) && !self\.input\.can_bow\(e\.end\) \{ continue; \}", tk()) else "false")

    # ---- OOV morphemes: word id packing, the word info of an OOV node, accessor fallbacks
    def wid():
        return norm(F.strip_comments(F.src(WID)))

    fact("word_mask", "N", F.coq_int(0x0fffffff), lambda: F.coq_int(F.find_const(WID, "WORD_MASK")))

    def dic_shift():
        m1 = re.search(r"let dic_part = \(\(dic & 0xf\) as u32\) << (\d+);", wid())
        m2 = re.search(r"pub fn dic\(&self\) -> u8 \{ (?:return )?\(self\.raw >> (\d+)\) as u8;? \}", wid())
        if not m1 or not m2 or m1.group(1) != m2.group(1):
            raise F.FactError("dictionary part of WordId::new / WordId::dic not recognised or inconsistent")
        if not re.search(r"let word_part = word & WORD_MASK; (?:let (\w+) = dic_part \| word_part; (?:return )?Self::from_raw\(\1\);?|(?:return )?Self::from_raw\(dic_part \| word_part\);?) \}", wid()):
            raise F.FactError("word part of WordId::new changed")
        if not re.search(r"pub fn word\(&self\) -> u32 \{ (?:return )?self\.raw & WORD_MASK;? \}", wid()):
            raise F.FactError("WordId::word changed")
        return m1.group(1) + "%N"
    fact("word_id_dic_shift", "N", "28%N", dic_shift)

    def oov_dic():
        m1 = re.search(r"pub fn oov\(pos_id: u32\) -> WordId \{ Self::new\((0x[0-9a-fA-F]+|\d+), pos_id\) \}", wid())
        m2 = re.search(r"pub fn is_oov\(&self\) -> bool \{ self\.dic\(\) == (0x[0-9a-fA-F]+|\d+) \}", wid())
        if not m1 or not m2 or int(m1.group(1), 0) != int(m2.group(1), 0):
            raise F.FactError("WordId::oov / WordId::is_oov not recognised or inconsistent")
        return F.coq_int(int(m1.group(1), 0))
    fact("oov_dic_id", "N", "15%N", oov_dic)

    def coq_pairs(ps):
        return "[%s]" % "; ".join('("%s", "%s")' % p for p in ps)

    def oov_info():
        body = norm(F.strip_comments(F.fn_body(F.src(TOK), "resolve_best_path", TOK)))
        m = re.search(r"let wi = if inner\.word_id\(\)\.is_oov\(\) \{ (.*?)WordInfoData \{ (.*?) \.\.Default::default\(\) \} ?\.into\(\) \} else \{", body)
        if not m:
            raise F.FactError("OOV branch of resolve_best_path not recognised")
        lets = dict(re.findall(r"let (\w+) = ([^;]+);", m.group(1)))
        fields = []
        for name, expr in re.findall(r"(\w+): ([^,]+),", m.group(2)):
            expr = lets.get(expr.strip(), expr.strip())
            if expr == "inner.word_id().word() as u16":
                fields.append((name, "word_id.word:u16"))
            elif expr == "self.input.curr_slice_c(inner.char_range()).to_owned()":
                fields.append((name, "curr_slice_c"))
            elif expr == "self.input.orig_slice_c(inner.char_range()).to_owned()":
                fields.append((name, "orig_slice_c"))
            else:
                raise F.FactError("field %s of the OOV word info is built from an unrecognised expression %r" % (name, expr))
        return coq_pairs(fields)
    out.append("(* fields of the WordInfoData made for an OOV node of the best path (everything else is Default) *)\n")
    fact("oov_info_fields", "list (string * string)", coq_pairs([("pos_id", "word_id.word:u16"), ("surface", "curr_slice_c")]), oov_info)

    def fallbacks():
        t = norm(F.strip_comments(F.src(WINFO)))
        res = []
        for f in ("normalized_form", "dictionary_form", "reading_form"):
            m = re.search(r"pub fn %s\(&self\) -> &str \{ if self\.data\.%s\.is_empty\(\) \{ self\.(\w+)\(\) \} else \{ &self\.data\.%s \} \}" % (f, f, f), t)
            if not m:
                raise F.FactError("WordInfo::%s not recognised" % f)
            res.append((f, m.group(1)))
        if "pub fn surface(&self) -> &str { &self.data.surface }" not in t or "pub fn pos_id(&self) -> u16 { self.data.pos_id }" not in t:
            raise F.FactError("WordInfo::surface / pos_id changed")
        return coq_pairs(res)
    out.append("(* what the form accessors of WordInfo return when the stored form is empty *)\n")
    fact("form_fallbacks", "list (string * string)",
         coq_pairs([("normalized_form", "surface"), ("dictionary_form", "surface"), ("reading_form", "surface")]), fallbacks)

    def dict_id():
        t = norm(F.strip_comments(F.src(MORPH)))
        m = re.search(r"pub fn dictionary_id\(&self\) -> i32 \{ let wid = self\.word_id\(\); if wid\.is_oov\(\) \{ (-?\d+) \} else \{ wid\.dic\(\) as i32 \} \}", t)
        if not m:
            raise F.FactError("Morpheme::dictionary_id not recognised")
        for needle in ("pub fn is_oov(&self) -> bool { self.word_id().is_oov() }",
                       "pub fn part_of_speech_id(&self) -> u16 { self.node().word_info().pos_id() }",
                       "pub fn dictionary_form(&self) -> &str { &self.get_word_info().dictionary_form() }",
                       "pub fn normalized_form(&self) -> &str { &self.get_word_info().normalized_form() }",
                       "pub fn reading_form(&self) -> &str { &self.get_word_info().reading_form() }"):
            if needle not in t:
                raise F.FactError("Morpheme accessor changed: %s" % needle[:40])
        return "(%s)%%Z" % m.group(1)
    fact("oov_dictionary_id", "Z", "(-1)%Z", dict_id)

    # ---- which files the definitions are read from: both files of the MeCab provider and the dictionary's
    # characterDefinitionFile go through Config::complete_path (Model/PathResolve.v, Generated/PathResolveFacts.v); the plugin has
    # no search order of its own and opens exactly the two resolved paths
    def mecab_files():
        su = norm(F.strip_comments(F.fn_body(F.src(MECAB), "set_up", MECAB)))
        consts = dict(re.findall(r'const (DEFAULT_\w+_FILE): &str = "([^"]+)";', norm(F.strip_comments(F.src(MECAB)))))
        res = []
        for key in ("charDef", "unkDef"):
            m = re.search(r"let (\w+) = config\.complete_path\( ?settings ?\.%s ?\.unwrap_or_else\(\|\| PathBuf::from\((\w+)\)\), \)\?; let reader = BufReader::new\(fs::File::open\(&\1\)\?\);" % key, su)
            if not m or m.group(2) not in consts:
                raise F.FactError("MeCabOovPlugin::set_up: %s is no longer `config.complete_path(settings.%s or the default name)` opened as it is" % (key, key))
            res.append((key, "complete_path:" + consts[m.group(2)]))
        if len(re.findall(r"File::open\(", su)) != 2 or re.search(r"\.join\(|read_dir|current_dir|env::", su):
            raise F.FactError("MeCabOovPlugin::set_up opens other files / builds paths of its own")
        return coq_pairs(res)
    out.append("(* MeCabOovPlugin::set_up: how the two definition files are located (setting, resolution:default name) *)\n")
    fact("mecab_definition_files", "list (string * string)", coq_pairs([("charDef", "complete_path:char.def"), ("unkDef", "complete_path:unk.def")]), mecab_files)

    def chardef_file():
        d = norm(F.strip_comments(F.fn_body(F.src("sudachi/src/dic/dictionary.rs"), "from_cfg_storage", "dictionary.rs")))
        if "LoadedDictionary::from_system_dictionary( unsafe { storage.system_static_slice() }, cfg.complete_path(&cfg.character_definition_file)?.as_path(), )?" not in d:
            raise F.FactError("from_cfg_storage: characterDefinitionFile is no longer resolved by cfg.complete_path")
        return '"complete_path"'
    fact("character_definition_file_resolution", "string", '"complete_path"', chardef_file)
    out.append("(* facts whose source shape was not recognised (replaced above by the value the property statement assumes) *)\n")
    out.append("Definition unrecognised : list string := [%s].\n" % "; ".join('"%s"' % b for b in bad))
    return "".join(out)
