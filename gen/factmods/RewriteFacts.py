"""Facts of the path-rewrite stage (C14): category bits the plugins test, the OOV reading of WordId::INVALID,
the merge thresholds and the index the loops resume at after a merge."""
import re
import facts as F

KAT = "sudachi/src/plugin/path_rewrite/join_katakana_oov/mod.rs"
NUM = "sudachi/src/plugin/path_rewrite/join_numeric/mod.rs"
NODE = "sudachi/src/analysis/node.rs"
WID = "sudachi/src/dic/word_id.rs"
CAT = "sudachi/src/dic/category_type.rs"


def gen():
    out = [F.HEADER]
    # category bits
    t = F.strip_comments(F.src(CAT))
    env = {}
    for name, expr in re.findall(r"const\s+([A-Z0-9_]+)\s*=\s*([^;]+);", t):
        try:
            env[name] = F.const_eval(expr, env)
        except F.FactError:
            pass
    for n in ("KATAKANA", "NOOOVBOW", "NUMERIC", "KANJINUMERIC"):
        if n not in env:
            raise F.FactError("category %s not found in %s" % (n, CAT))
        out.append("Definition %s : N := %s.\n" % (n, F.coq_int(env[n])))
    # WordId::INVALID.is_oov()
    w = F.strip_comments(F.src(WID))
    m = re.search(r"pub\s+const\s+INVALID\s*:\s*WordId\s*=\s*WordId::from_raw\(([^)]+)\)", w)
    if not m:
        raise F.FactError("WordId::INVALID not found")
    invalid = F.const_eval(m.group(1))
    b = F.fn_body(w, "is_oov", WID)
    m = re.search(r"self\.dic\(\)\s*==\s*(0x[0-9a-fA-F]+|\d+)", b)
    if not m:
        raise F.FactError("WordId::is_oov shape not recognised")
    oov_dic = int(m.group(1), 0)
    b = F.fn_body(w, "dic", WID)
    m = re.search(r"\(\s*self\.raw\s*>>\s*([A-Z_0-9]+|\d+)\s*\)\s*as\s+u8", b)
    if not m:
        raise F.FactError("WordId::dic shape not recognised")
    sh = m.group(1)
    shift = int(sh) if sh.isdigit() else F.find_const(WID, sh)
    out.append("Definition invalid_word_id_is_oov : bool := %s.\n" % ("true" if ((invalid >> shift) & 0xff) == oov_dic else "false"))
    # concat_nodes / concat_oov_nodes: guard, id of the new node
    nd = F.strip_comments(F.src(NODE))
    for fn in ("concat_nodes", "concat_oov_nodes"):
        # (names given to sub-expressions -- `let last = &path[end - 1];` -- are read as the expression)
        b = F.inline_lets(F.fn_body(nd, fn, NODE))
        if not re.search(r"if\s+" + F.cmp_alt("begin", "end", "g", (">=",)) + r"\s*\{\s*return\s+Err\(SudachiError::InvalidRange\(begin,\s*end\)\)", b):
            raise F.FactError("%s: guard `begin >= end` not recognised" % fn)
        # (the merged node under any name: what is stored is the ResultNode built here)
        if not re.search(r"let\s+(\w+)\s*=\s*ResultNode::new\((?:[^;]*)\);\s*path\[begin\]\s*=\s*\1;\s*path\.drain\(begin\s*\+\s*1\s*\.\.\s*end\);", b):
            raise F.FactError("%s: replacement of path[begin..end] not recognised" % fn)
        if not re.search(r"path\[begin\]\.begin\(\)\s*as\s+u16,\s*path\[end\s*-\s*1\]\.end\(\)\s*as\s+u16", b):
            raise F.FactError("%s: range of the new node not recognised" % fn)
        if not re.search(r"path\[end\s*-\s*1\]\.total_cost,\s*path\[begin\]\.begin_bytes,\s*path\[end\s*-\s*1\]\.end_bytes,", b):
            raise F.FactError("%s: byte range of the new node is no longer begin_bytes of the first .. end_bytes of the last" % fn)
    # error returns: the model answers ErrRange (= SudachiError::InvalidRange) only for begin >= end; every `return Err(..)`
    # and every `?` of the two functions is counted, so that a new way to fail re-opens C14_fact_concat_error_returns
    for fn in ("concat_nodes", "concat_oov_nodes"):
        b = F.fn_body(nd, fn, NODE)
        n_err = len(re.findall(r"\bErr\s*\(", b))
        n_q = len(re.findall(r"\)\s*\?\s*[;.)]", b)) + len(re.findall(r"\w\?\s*[;.)]", b))
        out.append("Definition %s_error_returns : N := %s.\nDefinition %s_question_marks : N := %s.\n" % (fn, F.coq_int(n_err), fn, F.coq_int(n_q)))
    if not re.search(r"WordId::INVALID,\s*\)", F.fn_body(nd, "concat_nodes", NODE)):
        raise F.FactError("concat_nodes: new node is no longer given WordId::INVALID")
    # (bound to a name and used by field short-hand, or written into the field directly)
    cb = F.inline_lets(F.fn_body(nd, "concat_nodes", NODE))
    first_pos = r"path\[begin\]\.word_info\(\)\.pos_id\(\)"
    if not ((re.search(r"let\s+pos_id\s*=\s*" + first_pos + r";", cb) and re.search(r"WordInfoData\s*\{[^{}]*\bpos_id\s*,", cb))
            or re.search(r"WordInfoData\s*\{[^{}]*\bpos_id\s*:\s*" + first_pos + r"\s*,", cb)):
        raise F.FactError("concat_nodes: part of speech is no longer taken from path[begin]")
    # katakana loop
    k = F.strip_comments(F.src(KAT))
    b = F.inline_lets(F.fn_body(k, "rewrite_gen", KAT))
    m = re.search(r"if\s+\(end\s*-\s*begin\)\s*>\s*(\d+)\s*\{\s*path\s*=\s*concat_oov_nodes\(path,\s*begin,\s*end,\s*self\.oov_pos_id\)\?;\s*i\s*=\s*begin\s*\+\s*(\d+);\s*\}\s*i\s*\+=\s*(\d+);", b)
    if not m:
        raise F.FactError("join_katakana_oov::rewrite_gen: merge step not recognised")
    out.append("Definition kat_merge_above : N := %s.\nDefinition kat_resume : N := %s.\n" % (F.coq_int(int(m.group(1))), F.coq_int(int(m.group(2)) + int(m.group(3)))))
    # (the signed counter of the leftward scan under any name; `begin` is that counter clamped at 0)
    left = re.search(r"let\s+mut\s+(\w+)\s*=\s*i\s+as\s+i32\s*-\s*1;", b)
    clamp = left and re.search(r"let\s+mut\s+begin\s*=\s*(?:if\s+%s\s*<\s*0\s*\{\s*0\s*\}\s*else\s*\{\s*%s\s+as\s+usize\s*\}|%s\.max\(0\)\s+as\s+usize)\s*;" % ((left.group(1),) * 3), b)
    if not re.search(r"let\s+mut\s+end\s*=\s*i\s*\+\s*1;", b) or not clamp:
        raise F.FactError("join_katakana_oov::rewrite_gen: scan start not recognised")
    if not re.search(r"if\s+!\(node\.is_oov\(\)\s*\|\|\s*self\.is_shorter\(node\)\)\s*\|\|\s*!self\.is_katakana_node\(text,\s*node\)", b):
        raise F.FactError("join_katakana_oov::rewrite_gen: trigger condition not recognised")
    b2 = F.fn_body(k, "is_shorter", KAT)
    if not re.search(F.cmp_alt(r"node\.num_codepts\(\)", r"self\.min_length", "sh", ("<",)), b2):
        raise F.FactError("is_shorter shape not recognised")
    # numeric loop
    n = F.strip_comments(F.src(NUM))
    b = F.fn_body(n, "rewrite_gen", NUM)
    m1 = re.search(r"path\s*=\s*self\.concat\(path,\s*begin_idx\s+as\s+usize,\s*i\s+as\s+usize,\s*&mut\s+parser\)\?;\s*i\s*=\s*begin_idx\s*\+\s*(\d+);", b)
    m2 = re.search(r"self\.concat\(path,\s*begin_idx\s+as\s+usize,\s*i\s+as\s+usize\s*-\s*1,\s*&mut\s+parser\)\?;\s*i\s*=\s*begin_idx\s*\+\s*(\d+);", b)
    if not m1 or not m2:
        raise F.FactError("join_numeric::rewrite_gen: resume indices not recognised")
    out.append("Definition num_resume : Z := %s.\nDefinition num_resume_sep : Z := %s.\n" % (F.coq_int(int(m1.group(1)), "Z"), F.coq_int(int(m2.group(1)), "Z")))
    # restart after a separator error: guarded by the flag (repaired) or not (the loop can then restart the same run for ever)
    g1 = re.search(r"if\s+parser\.error_state\s*==\s*numeric_parser::Error::COMMA\s*&&\s*comma_as_digit\s*\{\s*comma_as_digit\s*=\s*false;\s*i\s*=\s*begin_idx\s*-\s*1;\s*\}\s*else\s+if\s+parser\.error_state\s*==\s*numeric_parser::Error::POINT\s*&&\s*period_as_digit\s*\{\s*period_as_digit\s*=\s*false;\s*i\s*=\s*begin_idx\s*-\s*1;\s*\}", b)
    g0 = re.search(r"if\s+parser\.error_state\s*==\s*numeric_parser::Error::COMMA\s*\{\s*comma_as_digit\s*=\s*false;\s*i\s*=\s*begin_idx\s*-\s*1;\s*\}\s*else\s+if\s+parser\.error_state\s*==\s*numeric_parser::Error::POINT\s*\{\s*period_as_digit\s*=\s*false;\s*i\s*=\s*begin_idx\s*-\s*1;\s*\}", b)
    if not g1 and not g0:
        # the same decision as a `match parser.error_state { COMMA [if flag] => { .. } POINT [if flag] => { .. } _ => {} }`
        arm = r"numeric_parser::Error::%s\s*%s=>\s*\{\s*%s\s*=\s*false;\s*i\s*=\s*begin_idx\s*-\s*1;\s*\}\s*,?\s*"
        head = r"match\s+parser\.error_state\s*\{\s*"
        tail = r"_\s*=>\s*(?:\{\s*\}|\(\))\s*,?\s*\}"
        g1 = re.search(head + arm % ("COMMA", r"if\s+comma_as_digit\s*", "comma_as_digit") + arm % ("POINT", r"if\s+period_as_digit\s*", "period_as_digit") + tail, b)
        g0 = re.search(head + arm % ("COMMA", "", "comma_as_digit") + arm % ("POINT", "", "period_as_digit") + tail, b)
    if not g1 and not g0:
        raise F.FactError("join_numeric::rewrite_gen: restart after a separator error not recognised")
    out.append("Definition restart_requires_flag : bool := %s.\n" % ("true" if g1 else "false"))
    c = F.inline_lets(F.fn_body(n, "concat", NUM))
    ms = re.findall(r"\(?end\s*-\s*begin\)?\s*>\s*(\d+)", c)
    if len(ms) != 2 or ms[0] != ms[1]:
        raise F.FactError("JoinNumericPlugin::concat: merge thresholds not recognised")
    out.append("Definition num_merge_above : N := %s.\n" % F.coq_int(int(ms[0])))
    guard = r"if\s+" + F.cmp_alt(r"word_info\.pos_id\(\)", r"self\.numeric_pos_id", "pos", ("!=",)) + r"\s*\{\s*return\s+Ok\(path\);\s*\}"
    if not re.search(guard, c):
        raise F.FactError("JoinNumericPlugin::concat: part-of-speech guard not recognised")
    # the guard protects BOTH branches: it has to come before the enable_normalize test
    if not re.search(r"^\s*let\s+word_info\s*=\s*path\[begin\]\.word_info\(\);\s*" + guard.replace("(?P<pos>", "(?P<pos2>").replace("(?P<pos_r>", "(?P<pos2_r>") + r"\s*if\s+self\.enable_normalize\s*\{", c):
        raise F.FactError("JoinNumericPlugin::concat: the part-of-speech guard no longer precedes the enable_normalize branch")
    # JoinNumericPlugin settings: what enable_normalize is when the key `enableNormalize` is ABSENT from the settings
    # (documented default: normalisation on).  Both spellings are read: Option<bool> + unwrap_or(X), or a plain bool with a
    # serde default (bool::default() = false, or a named default function).
    ms = re.search(r"struct\s+PluginSettings\s*\{(.*?)\}", n, flags=re.S)
    if not ms:
        raise F.FactError("JoinNumericPlugin: struct PluginSettings not found")
    body = ms.group(1)
    if re.search(r"enableNormalize\s*:\s*Option<bool>", body):
        mu = re.search(r"self\.enable_normalize\s*=\s*(?:enable_normalize|settings\.enableNormalize)\.unwrap_or\((true|false)\)", n)
        if not mu:
            raise F.FactError("JoinNumericPlugin::set_up: default of the optional enableNormalize not recognised")
        absent = mu.group(1)
    elif re.search(r"#\[serde\(default\)\]\s*enableNormalize\s*:\s*bool", body):
        absent = "false"   # bool::default()
    else:
        md = re.search(r"#\[serde\(default\s*=\s*\"(\w+)\"\)\]\s*enableNormalize\s*:\s*bool", body)
        mf = md and re.search(r"fn\s+%s\s*\(\s*\)\s*->\s*bool\s*\{\s*(true|false)\s*\}" % md.group(1), n)
        if not mf:
            raise F.FactError("JoinNumericPlugin: enableNormalize is neither Option<bool> nor a bool with a recognised serde default")
        absent = mf.group(1)
    out.append("(* JoinNumericPlugin: enable_normalize when the settings do not mention enableNormalize *)\n")
    out.append("Definition enable_normalize_when_absent : bool := %s.\n" % absent)
    return "".join(out)
