"""Generated/SentenceRegexFacts.v: every Regex::new literal of sudachi/src/sentence_detector.rs parsed into the regex AST
of coq/Model/SentenceRegex.v (character classes by reference to the class constants of Generated/SentenceFacts.v).

The format string is expanded the way format! does it (textually, left to right): a `{}` inside [...] stands for a class
constant and stays symbolic, a `{}` outside brackets is replaced by the text of the constant (CDOTS, BR_TAG) before
parsing, so that `{}+` with CDOTS = "・{3,}" is the possessive `・{3,}+` the engine sees.
Supported syntax = what the detector uses: literals, \\-escaped punctuation, [classes of constants], ( ) capture groups,
|, * + {n,} with an optional possessive +, (?<![..]) (?![..]), \\A \\z ^ $, \\s and `.`.  Anything else is a FactError.
"""
import importlib.util
import os
import re

import facts as F

_spec = importlib.util.spec_from_file_location("factmod_SentenceFacts_for_regex",
                                               os.path.join(os.path.dirname(os.path.abspath(__file__)), "SentenceFacts.py"))
SF = importlib.util.module_from_spec(_spec)
_spec.loader.exec_module(SF)

CLASS_CONSTS = ("PERIODS", "DOT", "COMMA", "ALPHABET_OR_NUMBER", "OPEN_PARENTHESIS", "CLOSE_PARENTHESIS")
OPEN, CLOSE = "", ""   # private-use markers around the name of a class constant


def expand(fmt, args, consts, what):
    out = []
    i = 0
    k = 0
    depth = 0
    while i < len(fmt):
        c = fmt[i]
        if c == "\\":
            out.append(fmt[i:i + 2])
            i += 2
            continue
        if c == "[":
            depth += 1
        elif c == "]":
            depth -= 1
        if fmt.startswith("{}", i):
            if k >= len(args):
                raise F.FactError("more {} than arguments in %s" % what)
            name = args[k]
            k += 1
            if depth > 0:
                if name not in CLASS_CONSTS:
                    raise F.FactError("%s: constant %s used inside [...] is not a known class constant" % (what, name))
                out.append(OPEN + name + CLOSE)
            else:
                if name in CLASS_CONSTS:
                    raise F.FactError("%s: class constant %s used outside [...]" % (what, name))
                out.append(consts[name])
            i += 2
            continue
        if c in "{}":
            raise F.FactError("%s: literal brace in the format string" % what)
        out.append(c)
        i += 1
    if k != len(args):
        raise F.FactError("%s: %d arguments for %d placeholders" % (what, len(args), k))
    return "".join(out)


class Parser:
    def __init__(self, s, what):
        self.s = s
        self.i = 0
        self.what = what
        self.groups = 0

    def err(self, msg):
        raise F.FactError("%s: %s at offset %d of %r" % (self.what, msg, self.i, self.s))

    def peek(self, n=1):
        return self.s[self.i:self.i + n]

    def alt(self):
        items = [self.cat()]
        while self.peek() == "|":
            self.i += 1
            items.append(self.cat())
        return ("alt", items) if len(items) > 1 else items[0]

    def cat(self):
        items = []
        while self.i < len(self.s) and self.peek() not in ("|", ")"):
            items.append(self.piece())
        # merge neighbouring literals
        merged = []
        for it in items:
            if it[0] == "lit" and merged and merged[-1][0] == "lit":
                merged[-1] = ("lit", merged[-1][1] + it[1])
            else:
                merged.append(it)
        if not merged:
            self.err("empty alternative")
        return ("cat", merged) if len(merged) > 1 else merged[0]

    def piece(self):
        a = self.atom()
        c = self.peek()
        lo = None
        if c == "*":
            lo = 0
            self.i += 1
        elif c == "+":
            lo = 1
            self.i += 1
        elif c == "?":
            self.err("optional / lazy quantifier not supported")
        elif c == "{":
            m = re.match(r"\{(\d+),\}", self.s[self.i:])
            if not m:
                self.err("only {n,} repetitions are supported")
            lo = int(m.group(1))
            self.i += len(m.group(0))
        if lo is None:
            return a
        if a[0] in ("bot", "eot", "notbehind", "notahead"):
            self.err("quantifier on an assertion")
        node = ("rep", a, lo)
        if self.peek() == "+":
            self.i += 1
            node = ("atomic", node)
        elif self.peek() == "?":
            self.err("lazy quantifier not supported")
        return node

    def klass(self):
        # after '[': only class-constant markers
        names = []
        while self.peek() != "]":
            if self.peek() != OPEN:
                self.err("character class with literal members (only class constants are supported)")
            j = self.s.index(CLOSE, self.i)
            names.append(self.s[self.i + 1:j])
            self.i = j + 1
        self.i += 1
        if not names:
            self.err("empty class")
        return names

    def atom(self):
        c = self.peek()
        if c == "(":
            if self.peek(4) == "(?<!" or self.peek(3) == "(?!":
                behind = self.peek(4) == "(?<!"
                self.i += 4 if behind else 3
                if self.peek() != "[":
                    self.err("look-around body must be a single character class")
                self.i += 1
                names = self.klass()
                if self.peek() != ")":
                    self.err("look-around body must be a single character class")
                self.i += 1
                return ("notbehind" if behind else "notahead", names)
            if self.peek(2) == "(?":
                self.err("group flags / other look-around not supported")
            self.i += 1
            self.groups += 1
            n = self.groups
            body = self.alt()
            if self.peek() != ")":
                self.err("unbalanced parenthesis")
            self.i += 1
            return ("grp", n, body)
        if c == "[":
            self.i += 1
            if self.peek() == "^":
                self.err("negated class not supported")
            return ("cls", self.klass())
        if c == "\\":
            e = self.peek(2)[1:]
            self.i += 2
            if e == "A":
                return ("bot",)
            if e == "z":
                return ("eot",)
            if e == "s":
                return ("ws",)
            if e and not e.isalnum():
                return ("lit", e)
            self.err("escape \\%s not supported" % e)
        if c == "^":
            self.i += 1
            return ("bot",)
        if c == "$":
            self.i += 1
            return ("eot",)
        if c == ".":
            self.i += 1
            return ("any",)
        if c in "*+?{}]" or c in (OPEN, CLOSE) or c == "":
            self.err("unexpected %r" % c)
        self.i += 1
        return ("lit", c)


def cls_term(names):
    t = "SentenceFacts.%s" % names[-1]
    for n in reversed(names[:-1]):
        t = "(cls_union SentenceFacts.%s %s)" % (n, t)
    return t


def coq(node):
    k = node[0]
    if k == "lit":
        return "(RLit [%s]%%N)" % "; ".join(str(ord(c)) for c in node[1])
    if k == "cls":
        return "(RCls %s)" % cls_term(node[1])
    if k == "any":
        return "RAny"
    if k == "ws":
        return "RWs"
    if k == "bot":
        return "RBot"
    if k == "eot":
        return "REot"
    if k == "notbehind":
        return "(RNotBehind %s)" % cls_term(node[1])
    if k == "notahead":
        return "(RNotAhead %s)" % cls_term(node[1])
    if k == "grp":
        return "(RGrp %d %s)" % (node[1], coq(node[2]))
    if k == "rep":
        return "(RRep %s %d)" % (coq(node[1]), node[2])
    if k == "atomic":
        return "(RAtomic %s)" % coq(node[1])
    if k in ("cat", "alt"):
        ctor = "RCat" if k == "cat" else "RAlt"
        items = node[1]
        t = coq(items[-1])
        for it in reversed(items[:-1]):
            t = "(%s %s %s)" % (ctor, coq(it), t)
        return t
    raise F.FactError("internal: node %r" % (node,))


def gen():
    t = F.strip_comments(F.src(SF.DET))
    consts = {}
    for n in ("CDOTS", "BR_TAG"):
        consts[n] = SF.const_str(t, n)[0]
    out = ["(* GENERATED by gen/facts.py from /repo on every check run -- do not edit *)\n"
           "From Coq Require Import List NArith.\n"
           "From SudachiVerif Require Import Model.SentenceRegex.\n"
           "From SudachiVerif Require Generated.SentenceFacts.\n"
           "Import ListNotations.\n\n"]
    names = []
    for name, fmt, args, _limit in SF.regex_defs(t):
        what = "regex %s" % name
        text = expand(SF.rust_str(fmt, what), args, consts, what)
        p = Parser(text, what)
        ast = p.alt()
        if p.i != len(text):
            p.err("trailing input")
        shown = text.replace(OPEN, "{").replace(CLOSE, "}").replace("*)", "* )").replace("(*", "( *")
        out.append("(* %s = %s *)\nDefinition %s_RE : re :=\n  %s.\n\n" % (name, shown, name, coq(ast)))
        names.append(name)
    return "".join(out)
