"""What the bundled plugins do when a key is ABSENT from their settings (one place for all of them).
Both spellings are read: `Option<T>` + unwrap_or(X), and a plain field with `#[serde(default)]` (T::default()) or
`#[serde(default = "f")]` (body of f).  A field without any default is reported as "required"."""
import re
import facts as F

KAT = "sudachi/src/plugin/path_rewrite/join_katakana_oov/mod.rs"
NUM = "sudachi/src/plugin/path_rewrite/join_numeric/mod.rs"
REGEX = "sudachi/src/plugin/oov/regex_oov/mod.rs"
SIMPLE = "sudachi/src/plugin/oov/simple_oov/mod.rs"
MECAB = "sudachi/src/plugin/oov/mecab_oov/mod.rs"
UPOS = "sudachi/src/util/user_pos.rs"


def struct_body(t, name, rel):
    m = re.search(r"struct\s+%s\s*\{(.*?)\n\}" % name, t, flags=re.S)
    if not m:
        raise F.FactError("struct %s not found in %s" % (name, rel))
    return m.group(1)


def enum_default(t, enum, rel):
    m = re.search(r"impl\s+Default\s+for\s+%s\s*\{\s*fn\s+default\(\)\s*->\s*Self\s*\{\s*(?:%s|Self)::(\w+)\s*\}" % (enum, enum), t)
    if not m:
        raise F.FactError("impl Default for %s not recognised in %s" % (enum, rel))
    return m.group(1)


def field_default(t, body, field, rel, enum_defaults=None):
    """-> "required" | the default as text"""
    m = re.search(r"((?:#\[[^\]]*\]\s*)*)%s\s*:\s*([^,\n]+)," % field, body)
    if not m:
        raise F.FactError("field %s not found in the settings struct of %s" % (field, rel))
    attrs, ty = m.group(1), m.group(2).strip()
    md = re.search(r'serde\(default\s*=\s*"(\w+)"\)', attrs)
    if md:
        mf = re.search(r"fn\s+%s\s*\(\s*\)\s*->\s*[\w:]+\s*\{\s*([^}]+?)\s*\}" % md.group(1), t)
        if not mf:
            raise F.FactError("default function %s of %s not recognised" % (md.group(1), field))
        return mf.group(1)
    if re.search(r"serde\(default\)", attrs):
        if ty == "bool":
            return "false"
        if ty in ("usize", "u32", "u64", "i64", "i32"):
            return "0"
        if enum_defaults and ty in enum_defaults:
            return enum_defaults[ty]
        raise F.FactError("serde default of %s: %s not known" % (field, ty))
    if ty.startswith("Option<"):
        mu = re.search(r"%s\s*\.unwrap_or\(([^)]+)\)" % field, t) or re.search(r"%s\s*\.unwrap_or_else\(\|\|\s*([^)]+\))\)" % field, t)
        if not mu:
            ml = re.search(r"let\s+(\w+)\s*=\s*settings\.%s\s*;" % field, t)
            mu = ml and re.search(r"\b%s\.unwrap_or\(([^)]+)\)" % ml.group(1), t)
        if not mu:
            raise F.FactError("optional field %s: its unwrap_or default not recognised in %s" % (field, rel))
        return mu.group(1).strip()
    return "required"


def gen():
    out = [F.HEADER]
    rows = []
    up = F.strip_comments(F.src(UPOS))
    enums = {"UserPosMode": enum_default(up, "UserPosMode", UPOS)}
    rx = F.strip_comments(F.src(REGEX))
    enums["BoundaryMode"] = enum_default(rx, "BoundaryMode", REGEX)
    for rel, struct, fields in ((KAT, "PluginSettings", ("minLength", "oovPOS")),
                                (NUM, "PluginSettings", ("enableNormalize",)),
                                (REGEX, "RegexProviderConfig", ("maxLength", "boundaries", "debug", "userPOS", "regex")),
                                (SIMPLE, "PluginSettings", ("userPOS",)),
                                (MECAB, "PluginSettings", ("userPOS", "charDef", "unkDef"))):
        t = F.strip_comments(F.src(rel))
        body = struct_body(t, struct, rel)
        plug = rel.split("/")[-2]
        for f in fields:
            rows.append(("%s.%s" % (plug, f), field_default(t, body, f, rel, enums)))
    out.append("(* plugin.key -> what the plugin uses when the key is absent from its settings (\"required\" = loading fails) *)\n")
    out.append("Definition when_absent : list (string * string) :=\n  [ %s ].\n" % ";\n    ".join('("%s", "%s")' % (k, v.replace('"', '""')) for k, v in rows))
    return "".join(out)
