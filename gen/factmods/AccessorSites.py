"""Shape facts for Proofs/AccessorsNoPanic.v: the index expressions / casts / unwraps of the InputBuffer accessors that
Morpheme::{begin,end,begin_c,end_c,surface} and StatefulTokenizer::resolve_best_path go through, and the bodies of the
five Morpheme accessors."""
import re
import facts as F
import sitekeys as SK

BUF = "sudachi/src/input_text/buffer/mod.rs"
TOK = "sudachi/src/analysis/stateful_tokenizer.rs"
MOR = "sudachi/src/analysis/morpheme.rs"
BUF_FNS = ["to_orig_byte_idx", "to_orig_char_idx", "to_curr_byte_idx", "curr_slice_c", "orig_slice_c", "ch_idx",
           "orig_slice", "curr_slice", "to_orig"]


def index_exprs(body):
    out = []
    i = 0
    n = len(body)
    while i < n:
        if body[i] == "[" and i > 0 and re.match(r"[A-Za-z0-9_\)\]]", body[i - 1]):
            j = i
            while j > 0 and re.match(r"[A-Za-z0-9_\.]", body[j - 1]):
                j -= 1
            k = i
            while k < n and body[k] == "[":
                depth = 0
                while k < n:
                    if body[k] == "[":
                        depth += 1
                    elif body[k] == "]":
                        depth -= 1
                        if depth == 0:
                            k += 1
                            break
                    k += 1
            out.append(re.sub(r"\s+", "", body[j:k]).lstrip("."))
            i = k
        else:
            i += 1
    return out


def cast_exprs(body):
    out = []
    for m in re.finditer(r"\s+as\s+(u8|u16|i8|i16|u32|i32)\b", body):
        j = m.start()
        depth = 0
        while j > 0:
            c = body[j - 1]
            if c == ")":
                depth += 1
            elif c == "(":
                if depth == 0:
                    break
                depth -= 1
            elif depth == 0 and not re.match(r"[A-Za-z0-9_\.]", c):
                break
            j -= 1
        out.append("%s as %s" % (re.sub(r"\s+", "", body[j:m.start()]), m.group(1)))
    return out


def clean(t):
    t = F.strip_comments(t)
    t = re.sub(r'"(?:[^"\\]|\\.)*"', '""', t)
    return t


def row(name, body):
    body = re.sub(r"#!?\[[^\]]*\]", "", body)
    return '("%s", [%s], %d%%N, [%s])' % (name, "; ".join('"%s"' % x for x in index_exprs(body)),
                                          len(re.findall(r"\.unwrap\(\)", body)), "; ".join('"%s"' % x for x in cast_exprs(body)))


def krow(name, body):
    body = re.sub(r"#!?\[[^\]]*\]", "", body)
    return (name, SK.keys(index_exprs(body), len(re.findall(r"\.unwrap\(\)", body)), 0, cast_exprs(body)))


def gen():
    out = [F.HEADER]
    b = clean(F.src(BUF))
    rows = [row(fn, F.fn_body(b, fn, BUF)) for fn in BUF_FNS]
    out.append("(* input_text/buffer/mod.rs accessors: (name, index expressions in source order, unwrap calls, narrowing casts) *)\n")
    out.append("Definition buffer_accessor_fns : list (string * list string * N * list string) :=\n  [ %s ].\n" % ";\n    ".join(rows))
    t = clean(F.src(TOK))
    krows = [krow(fn, F.fn_body(b, fn, BUF)) for fn in BUF_FNS]
    out.append("(* analysis/stateful_tokenizer.rs *)\n")
    krows.append(krow("resolve_best_path", F.fn_body(t, "resolve_best_path", TOK)))
    out.append("(* the same constructs as keys (gen/sitekeys.py): what the one-directional part of C03_fact_accessor_sites compares *)\n")
    out.append("Definition accessor_site_keys : list (string * list string) :=\n  [ %s ].\n" % SK.coq_rows(krows))
    out.append("Definition resolve_best_path_sites : string * list string * N * list string := %s.\n" % row("resolve_best_path", F.fn_body(t, "resolve_best_path", TOK)))
    rb = re.sub(r"\s+", "", F.fn_body(t, "resolve_best_path", TOK))
    calls = re.findall(r"self\.input\.(\w+)\(", rb) + re.findall(r"self\.lattice\.(\w+)\(", rb)
    out.append("Definition resolve_best_path_calls : list string := [%s].\n" % "; ".join('"%s"' % c for c in calls))
    m = clean(F.src(MOR))
    bodies = []
    for fn in ["begin", "end", "begin_c", "end_c", "surface"]:
        bodies.append('("%s", "%s")' % (fn, re.sub(r"\s+", "", F.fn_body(m, fn, MOR))))
    out.append("(* analysis/morpheme.rs: bodies of the five offset accessors *)\n")
    out.append("Definition morpheme_accessors : list (string * string) :=\n  [ %s ].\n" % ";\n    ".join(bodies))
    return "".join(out)
