"""Generated/SentenceFacts.v: what the C16 model and proofs are sensitive to in
sudachi/src/sentence_detector.rs, sudachi/src/sentence_splitter.rs and sudachi-cli/src/analysis.rs.

* the character classes of the regex building blocks, as code-point ranges (consumed by the model)
* repetition bounds of CDOTS / BR_TAG, the tag alternatives, limits (consumed by the model)
* the format strings + argument lists of every Regex::new in the detector (compared with the shapes the
  hand matchers were written for, obligation in Properties/C16.v)
* whitespace-normalised bodies of the candidate loop of get_eos, of has_non_break_word, of SentenceIter::next and
  of the splitter constructions in the CLI (compared with the control flow the model was written for)
"""
import re
import facts as F

DET = "sudachi/src/sentence_detector.rs"
SPL = "sudachi/src/sentence_splitter.rs"
CLI = "sudachi-cli/src/analysis.rs"


def rust_str(lit, what):
    """value of a Rust (non-raw) string literal body"""
    out = []
    i = 0
    while i < len(lit):
        c = lit[i]
        if c == "\\":
            i += 1
            if i >= len(lit):
                raise F.FactError("dangling backslash in %s" % what)
            e = lit[i]
            if e == "\\":
                out.append("\\")
            elif e == '"':
                out.append('"')
            elif e == "n":
                out.append("\n")
            elif e == "t":
                out.append("\t")
            elif e == "u":
                m = re.match(r"u\{([0-9a-fA-F]+)\}", lit[i:])
                if not m:
                    raise F.FactError("bad \\u escape in %s" % what)
                out.append(chr(int(m.group(1), 16)))
                i += len(m.group(0)) - 1
            else:
                raise F.FactError("unsupported escape \\%s in %s" % (e, what))
        else:
            out.append(c)
        i += 1
    return "".join(out)


def const_str(text, name):
    m = re.search(r'\bconst\s+%s\s*:\s*&str\s*=\s*"((?:[^"\\]|\\.)*)"\s*;' % re.escape(name), text)
    if not m:
        raise F.FactError("const %s: &str not found in %s" % (name, DET))
    return rust_str(m.group(1), name), m.group(1)


def class_ranges(body, what):
    """contents of a regex character class (between [ and ]) -> list of (lo, hi)"""
    items = []
    i = 0
    cs = []
    while i < len(body):
        c = body[i]
        if c == "\\":
            i += 1
            if i >= len(body) or body[i].isalnum():
                raise F.FactError("unsupported class escape in %s" % what)
            cs.append((body[i], True))
        elif c in "[]^&~":
            raise F.FactError("unsupported character %r in class %s" % (c, what))
        else:
            cs.append((c, False))
        i += 1
    k = 0
    while k < len(cs):
        ch, esc = cs[k]
        if k + 2 < len(cs) and cs[k + 1] == ("-", False):
            hi = cs[k + 2][0]
            if ord(hi) < ord(ch):
                raise F.FactError("descending range in class %s" % what)
            items.append((ord(ch), ord(hi)))
            k += 3
        else:
            if ch == "-" and not esc:
                raise F.FactError("bare '-' in class %s" % what)
            items.append((ord(ch), ord(ch)))
            k += 1
    if not items:
        raise F.FactError("empty class %s" % what)
    return items


def coq_ranges(name, rs, comment):
    """a class = (single code points, proper ranges); the split only makes membership cheaper to evaluate"""
    singles = "; ".join("%d" % lo for lo, hi in rs if lo == hi)
    ranges = "; ".join("(%d, %d)" % (lo, hi) for lo, hi in rs if lo != hi)
    return "(* %s *)\nDefinition %s : list N * list (N * N) := ([ %s ]%%N, [ %s ]%%N).\n" % (comment, name, singles, ranges)


def coq_text(s):
    return "[" + "; ".join("%d" % ord(c) for c in s) + "]%N"


def coq_string(s):
    return '"' + s.replace('"', '""') + '"'


def norm(s):
    """the text of a body as it is pinned by Properties/C16.v: comments out, equivalent spellings and broken method chains
    brought to one form (facts.canon), white space collapsed, no trailing comma before a closing bracket"""
    t = re.sub(r"\s+", " ", F.strip_comments(s)).strip()
    t = re.sub(r",\s*([)\]])", r"\1", t)
    t = re.sub(r"([(\[])\s+", r"\1", t)
    t = re.sub(r"\s+([)\]])", r"\1", t)
    return re.sub(r"\s*\.\s*(?=[a-z_]+\()", ".", t)


def regex_defs(text):
    """every `static ref NAME: Regex = Regex::new(ARG)` / `RegexBuilder::new(ARG).backtrack_limit(L).build()`
    -> (NAME, fmt literal as written, [args], L or None)"""
    out = []
    for m in re.finditer(r"static\s+ref\s+([A-Z_]+)\s*:\s*Regex\s*=\s*(Regex|RegexBuilder)::new\(", text):
        name = m.group(1)
        i = m.end()
        depth = 1
        j = i
        in_str = False
        while j < len(text) and depth:
            c = text[j]
            if in_str:
                if c == "\\":
                    j += 1
                elif c == '"':
                    in_str = False
            elif c == '"':
                in_str = True
            elif c == "(":
                depth += 1
            elif c == ")":
                depth -= 1
            j += 1
        arg = text[i:j - 1].strip()
        limit = None
        if m.group(2) == "RegexBuilder":
            mt = re.match(r"\s*\.backtrack_limit\(\s*([A-Za-z0-9_:]+)\s*\)\s*\.build\(\)\s*\.unwrap\(\)\s*;", text[j:])
            if not mt:
                raise F.FactError("RegexBuilder chain of %s not recognised" % name)
            limit = mt.group(1)
        elif not re.match(r"\s*\.unwrap\(\)\s*;", text[j:]):
            raise F.FactError("Regex::new(..) of %s is not followed by .unwrap();" % name)
        mm = re.fullmatch(r'&format!\(\s*"((?:[^"\\]|\\.)*)"\s*,?(.*)\)', arg, flags=re.S)
        if mm:
            args = [a.strip() for a in mm.group(2).split(",") if a.strip()]
            out.append((name, mm.group(1), args, limit))
            continue
        mm = re.fullmatch(r'"((?:[^"\\]|\\.)*)"', arg, flags=re.S)
        if mm:
            out.append((name, mm.group(1), [], limit))
            continue
        raise F.FactError("Regex::new argument of %s not recognised" % name)
    return out


# ---------------------------------------------------------------------------------------------------------------------
# semantic features instead of pinned body texts.  Each recogniser accepts the (behaviour-equivalent) spellings listed in
# it and nothing else: the WHOLE normalised body has to match, so an extra statement, a changed traversal, operator,
# operand or constant is a FactError ("shape not recognised"), never a silently kept fact.  Local names are free
# (back-references), the order of the independent leading `let`s is free.
# ---------------------------------------------------------------------------------------------------------------------
ID = r"[a-z_][a-z_0-9]*"


def _stmts(text):
    """top-level statements of a normalised body prefix (split at `;` outside brackets)"""
    out, d, cur = [], 0, []
    for ch in text:
        if ch in "([{":
            d += 1
        elif ch in ")]}":
            d -= 1
        if ch == ";" and d == 0:
            out.append("".join(cur).strip())
            cur = []
        else:
            cur.append(ch)
    if "".join(cur).strip():
        out.append("".join(cur).strip())
    return out


def non_break_features(body):
    """NonBreakChecker::has_non_break_word -> (candidate, look-back start, offsets, entries, veto rules, default)"""
    t = norm(body)
    m = re.search(r"\bfor\b", t)
    if not m:
        raise F.FactError("has_non_break_word: no loop over the look-back offsets")
    pre, loops = t[:m.start()], t[m.start():]
    eos = byts = start = None
    for st in _stmts(pre):
        mm = re.fullmatch(r"let (%s) = (?:self\.bos \+ length|length \+ self\.bos)" % ID, st)
        if mm and eos is None:
            eos = mm.group(1)
            continue
        mm = re.fullmatch(r"let (%s) = input\.as_bytes\(\)" % ID, st)
        if mm and byts is None:
            byts = mm.group(1)
            continue
        if re.fullmatch(r"const LOOKUP_BYTE_LENGTH: usize = [^;]+", st):
            continue
        mm = re.fullmatch(r"let (%s) = (.+)" % ID, st)
        if mm and start is None and eos is not None:
            e = re.escape(eos)
            if re.fullmatch(r"(?:std::cmp::|cmp::)?max\((?:LOOKUP_BYTE_LENGTH, %s|%s, LOOKUP_BYTE_LENGTH)\) - LOOKUP_BYTE_LENGTH|%s\.saturating_sub\(LOOKUP_BYTE_LENGTH\)|(?:LOOKUP_BYTE_LENGTH\.max\(%s\)|%s\.max\(LOOKUP_BYTE_LENGTH\)) - LOOKUP_BYTE_LENGTH" % (e, e, e, e, e), mm.group(2)):
                start = mm.group(1)
                continue
        raise F.FactError("has_non_break_word: statement before the loops not recognised: %s" % st)
    if eos is None or start is None:
        raise F.FactError("has_non_break_word: candidate offset / look-back start not found")
    bytes_arg = re.escape(byts) if byts else r"input\.as_bytes\(\)"
    E, S = re.escape(eos), re.escape(start)
    head = re.match(r"for (?P<i>%s) in %s\.\.%s \{ for (?P<e>%s) in self\.lexicon\.lookup\((?:%s|input\.as_bytes\(\)), (?P=i)\) \{ (?:let (?P<end>%s) = (?P=e)\.end; )?" % (ID, S, E, ID, bytes_arg, ID), loops)
    if not head:
        raise F.FactError("has_non_break_word: not `for offset in start..candidate { for entry in self.lexicon.lookup(bytes, offset) {`")
    i = re.escape(head.group("i"))
    END = re.escape(head.group("end")) if head.group("end") else re.escape(head.group("e")) + r"\.end"
    rest = loops[head.end():]
    GT = r"(?:%s > %s|%s < %s)" % (END, E, E, END)
    EQ = r"(?:%s == %s|%s == %s)" % (END, E, E, END)
    SL = r"input\[%s\.\.%s\]\.chars\(\)" % (i, END)
    COND = r"(?:%s\.take\(2\)\.count\(\) > 1|1 < %s\.take\(2\)\.count\(\)|%s\.count\(\) > 1|%s\.nth\(1\)\.is_some\(\)|%s\.take\(2\)\.count\(\) >= 2|%s\.take\(2\)\.count\(\) == 2)" % (SL, SL, SL, SL, SL, SL)
    ORD = r"(?:std::cmp::|cmp::)?Ordering::"
    decisions = [
        r"match %s\.cmp\(&%s\) \{ %sGreater => return true, %sEqual => \{ if %s \{ return true; \} \} _ => \{\} \}" % (END, E, ORD, ORD, COND),
        r"match %s\.cmp\(&%s\) \{ %sGreater => return true, %sEqual if %s => return true, _ => \{\} \}" % (END, E, ORD, ORD, COND),
        r"if %s \{ return true; \} if %s && %s \{ return true; \}" % (GT, EQ, COND),
        r"if %s \{ return true; \} if %s \{ if %s \{ return true; \} \}" % (GT, EQ, COND),
        r"if %s \{ return true; \} else if %s && %s \{ return true; \}" % (GT, EQ, COND),
        r"if %s \|\| \(?%s && %s\)? \{ return true; \}" % (GT, EQ, COND),
    ]
    if not any(re.fullmatch(d + r" \} \} false", rest) for d in decisions):
        raise F.FactError("has_non_break_word: the decision per dictionary entry is not `end > candidate => true; end == candidate && input[offset..end] has more than one character => true; else go on` followed by `false`")
    return [("nbw_candidate", "self.bos + length"),
            ("nbw_lookback_start", "candidate - LOOKUP_BYTE_LENGTH, saturating at 0"),
            ("nbw_offsets", "every byte offset from the look-back start to the candidate (exclusive), ascending"),
            ("nbw_entries", "every entry of self.lexicon.lookup(input bytes, offset), in order"),
            ("nbw_veto_crossing", "entry.end > candidate => true"),
            ("nbw_veto_ending", "entry.end == candidate && input[offset..entry.end] has more than 1 character => true"),
            ("nbw_default", "false")]


def prohibited_bos_features(body):
    t = norm(re.sub(r"lazy_static!\s*\{.*?\n\s{4}\}", "", body, flags=re.S))
    M = ID
    shapes = [
        r"if let Some\((?P<m>%s)\) = PROHIBITED_BOS\.find\((?P<s>%s)\)\? \{ Ok\((?P=m)\.end\(\)\) \} else \{ Ok\(0\) \}" % (M, ID),
        r"match PROHIBITED_BOS\.find\((?P<s>%s)\)\? \{ Some\((?P<m>%s)\) => Ok\((?P=m)\.end\(\)\), None => Ok\(0\),? \}" % (ID, M),
        r"match PROHIBITED_BOS\.find\((?P<s>%s)\)\? \{ None => Ok\(0\), Some\((?P<m>%s)\) => Ok\((?P=m)\.end\(\)\),? \}" % (ID, M),
        r"Ok\(PROHIBITED_BOS\.find\((?P<s>%s)\)\?\.map_or\(0, \|(?P<m>%s)\| (?P=m)\.end\(\)\)\)" % (ID, M),
        r"Ok\(PROHIBITED_BOS\.find\((?P<s>%s)\)\?\.map\(\|(?P<m>%s)\| (?P=m)\.end\(\)\)\.unwrap_or\(0\)\)" % (ID, M),
        r"let (?P<r>%s) = PROHIBITED_BOS\.find\((?P<s>%s)\)\?; Ok\((?P=r)\.map_or\(0, \|(?P<m>%s)\| (?P=m)\.end\(\)\)\)" % (ID, ID, M),
    ]
    if not any(re.fullmatch(x, t) for x in shapes):
        raise F.FactError("prohibited_bos: not `end of PROHIBITED_BOS.find(s)?, 0 without a match`: %s" % t[:200])
    return [("prohibited_bos_result", "end of the match of PROHIBITED_BOS.find(s)?, 0 without a match")]


def iter_next_features(body):
    t = norm(body)
    pos, ln = r"self\.position", r"self\.data\.len\(\)"
    guard = r"if (?:%s == %s|%s == %s) \{ return None; \} " % (pos, ln, ln, pos)
    m = re.match(guard, t)
    if not m:
        raise F.FactError("SentenceIter::next: guard `position == data.len() => None` not recognised")
    t = t[m.end():]
    m = re.match(r"(?:let (?P<sl>%s) = &self\.data\[%s\.\.\]; )?let (?P<rv>%s) = self\.splitter\.get_eos\((?P<arg>[^;]+?), self\.checker\)\.unwrap\(\); " % (ID, pos, ID), t)
    if not m or not ((m.group("sl") and m.group("arg") == m.group("sl")) or (not m.group("sl") and re.fullmatch(r"&self\.data\[%s\.\.\]" % pos, m.group("arg")))):
        raise F.FactError("SentenceIter::next: not `rv = splitter.get_eos(&data[position..], checker).unwrap()`")
    rv = re.escape(m.group("rv"))
    t = t[m.end():]
    NEG = r"(?:%s < 0|0 > %s)" % (rv, rv)
    NONNEG = r"(?:%s >= 0|0 <= %s)" % (rv, rv)
    ADV = r"(?:%s \+ %s as usize|%s as usize \+ %s)" % (pos, rv, rv, pos)
    ends = [r"if %s \{ %s \} else \{ %s \}" % (NEG, ln, ADV), r"if %s \{ %s \} else \{ %s \}" % (NONNEG, ADV, ln),
            r"match %s \{ true => %s, false => %s,? \}" % (NEG, ln, ADV)]
    m = None
    for e in ends:
        m = re.match(r"let (?P<end>%s) = %s; " % (ID, e), t)
        if m:
            break
    if not m:
        raise F.FactError("SentenceIter::next: not `end = if rv < 0 { data.len() } else { position + rv as usize }`")
    end = re.escape(m.group("end"))
    t = t[m.end():]
    tails = [r"let (?P<r>%s) = %s\.\.%s; let (?P<q>%s) = &self\.data\[(?P=r)\.clone\(\)\]; %s = %s; Some\(\((?P=r), (?P=q)\)\)" % (ID, pos, end, ID, pos, end),
             r"let (?P<r>%s) = %s\.\.%s; let (?P<q>%s) = &self\.data\[%s\.\.%s\]; %s = %s; Some\(\((?P=r), (?P=q)\)\)" % (ID, pos, end, ID, pos, end, pos, end)]
    if not any(re.fullmatch(x, t) for x in tails):
        raise F.FactError("SentenceIter::next: tail `range = position..end; slice = &data[range]; position = end; Some((range, slice))` not recognised")
    return [("iter_done_when", "position == data.len() => None"),
            ("iter_detector_call", "rv = splitter.get_eos(&data[position..], checker).unwrap()"),
            ("iter_negative", "rv < 0 => end = data.len()"),
            ("iter_nonnegative", "otherwise end = position + rv as usize"),
            ("iter_yield", "Some((position..end, &data[position..end])); position = end")]


def get_eos_loop_features(loop_and_tail):
    """the candidate loop of get_eos as its ordered checks, and the tail (provisional negative answers)"""
    t = norm(loop_and_tail)
    m = re.match(r"for (?P<mat>%s) in SENTENCE_BREAKER\.find_iter\(&s\) \{ let mut (?P<eos>%s) = (?P=mat)\?\.end\(\); " % (ID, ID), t)
    if not m:
        raise F.FactError("get_eos: loop head `for mat in SENTENCE_BREAKER.find_iter(&s) { let mut eos = mat?.end();` not recognised")
    E = re.escape(m.group("eos"))
    t = t[m.end():]
    LT = r"(?:%s < s\.len\(\)|s\.len\(\) > %s)" % (E, E)
    PL = r"parenthesis_level\(&s\[\.\.%s\]\)\?" % E
    HNB = r"(?P=ck)\.has_non_break_word\(input, %s\)" % E
    steps = [
        ("veto: parenthesis_level(&s[..eos])? > 0 => continue", r"if (?:%s > 0|0 < %s|%s != 0|%s >= 1) \{ continue; \} " % (PL, PL, PL, PL)),
        ("extend: eos < s.len() => eos += prohibited_bos(&s[eos..])?", r"if %s \{ %s \+= prohibited_bos\(&s\[%s\.\.\]\)\?; \} " % (LT, E, E)),
        ("veto: ITEMIZE_HEADER.is_match(&s)? => continue", r"if ITEMIZE_HEADER\.is_match\(&s\)\? \{ continue; \} "),
        ("veto: eos < s.len() && is_continuous_phrase(&s, eos)? => continue", r"if %s && is_continuous_phrase\(&s, %s\)\? \{ continue; \} " % (LT, E)),
        ("veto: checker present and has_non_break_word(input, eos) => continue",
         r"(?:if let Some\((?P<ck>%s)\) = checker \{ if %s \{ continue; \} \} |if checker\.map_or\(false, \|(?P<ck2>%s)\| (?P=ck2)\.has_non_break_word\(input, %s\)\) \{ continue; \} |if checker\.is_some_and\(\|(?P<ck3>%s)\| (?P=ck3)\.has_non_break_word\(input, %s\)\) \{ continue; \} )" % (ID, HNB, ID, E, ID, E)),
        ("accept: return Ok(eos as isize)", r"return Ok\(%s as isize\); \} " % E),
    ]
    feats = []
    for name, rx in steps:
        mm = re.match(rx, t)
        if not mm:
            raise F.FactError("get_eos: expected step `%s` at: %s" % (name, t[:120]))
        feats.append(name)
        t = t[mm.end():]
    t = re.sub(r"lazy_static!\s*\{\.\.\} ", "", t)
    tail = r"if input_exceeds_limit \{ if let Some\((?P<m>%s)\) = SPACES\.find\(&s\)\? \{ return Ok\(-\((?P=m)\.end\(\) as isize\)\); \} \} Ok\(-\(s\.len\(\) as isize\)\)" % ID
    if not re.fullmatch(tail, t):
        raise F.FactError("get_eos: tail (provisional boundary: end of SPACES.find(&s) negated when the input exceeds the window, else -(s.len())) not recognised: %s" % t[:160])
    feats.append("no candidate accepted: input_exceeds_limit and SPACES.find(&s)? = Some(m) => Ok(-(m.end())); otherwise Ok(-(s.len()))")
    return feats


def _strip_lazy_static(body):
    """the body without its lazy_static! { .. } block (the patterns themselves are facts of their own: regex inventory,
    SentenceRegexFacts)"""
    m = re.search(r"lazy_static!\s*\{", body)
    if not m:
        return body
    d, k = 0, m.end() - 1
    while k < len(body):
        if body[k] == "{":
            d += 1
        elif body[k] == "}":
            d -= 1
            if d == 0:
                break
        k += 1
    return body[:m.start()] + body[k + 1:]


def continuous_phrase_features(body):
    """is_continuous_phrase(s, eos) -> (features, characters of the itemisation rule)"""
    t = norm(_strip_lazy_static(body))
    m = re.match(r"let (?P<l>%s) = s\[\.\.eos\]\.chars\(\)\.last\(\)\.unwrap\(\)\.(?:to_string\(\)\.len\(\)|len_utf8\(\)); " % ID, t)
    if not m:
        raise F.FactError("is_continuous_phrase: byte length of the last character before eos not recognised")
    L = re.escape(m.group("l"))
    t = t[m.end():]
    SL = r"&s\[\(?eos - %s\)?\.\.\]" % L
    FIND = r"QUOTE_MARKER\.find\(%s\)\?" % SL
    AT0 = r"(?:(?P=m)\.start\(\) == 0|0 == (?P=m)\.start\(\))"
    quotes = [
        r"if let Some\((?P<m>%s)\) = %s \{ if %s \{ return Ok\(true\); \} \} " % (ID, FIND, AT0),
        r"let (?P<q>%s) = %s; if (?P=q)\.(?:map_or\(false, |is_some_and\()\|(?P<m>%s)\| %s\) \{ return Ok\(true\); \} " % (ID, FIND, ID, AT0),
        r"if %s\.(?:map_or\(false, |is_some_and\()\|(?P<m>%s)\| %s\) \{ return Ok\(true\); \} " % (FIND, ID, AT0),
        r"if matches!\(%s, Some\((?P<m>%s)\) if %s\) \{ return Ok\(true\); \} " % (FIND, ID, AT0),
    ]
    mm = None
    for q in quotes:
        mm = re.match(q, t)
        if mm:
            break
    if not mm:
        raise F.FactError("is_continuous_phrase: quote rule `QUOTE_MARKER.find(&s[eos - last_char_len..])? starts at 0 => true` not recognised: %s" % t[:140])
    t = t[mm.end():]
    m = re.match(r"let (?P<c>%s) = s\[eos\.\.\]\.chars\(\)\.(?:nth\(0\)|next\(\))\.unwrap\(\); " % ID, t)
    if not m:
        raise F.FactError("is_continuous_phrase: first character after eos not recognised")
    C = re.escape(m.group("c"))
    t = t[m.end():]
    HDR = r"EOS_ITEMIZE_HEADER\.is_match\(&s\[\.\.eos\]\)\?"
    m = re.fullmatch(r"Ok\(\((?P<alts>(?:%s == '.' \|\| )*%s == '.')\) && %s\)" % (C, C, HDR), t)
    if m:
        follow = re.findall(r"== '(.)'", m.group("alts"))
    else:
        m = re.fullmatch(r"Ok\(matches!\(%s, (?P<alts>(?:'.' \| )*'.')\) && %s\)" % (C, HDR), t)
        if not m:
            raise F.FactError("final expression of is_continuous_phrase not recognised")
        follow = re.findall(r"'(.)'", m.group("alts"))
    feats = [("cp_last_char", "last_char_len = UTF-8 length of the last character of s[..eos]"),
             ("cp_quote_rule", "QUOTE_MARKER.find(&s[eos - last_char_len..])? = Some(m) with m.start() == 0 => Ok(true)"),
             ("cp_next_char", "c = first character of s[eos..]"),
             ("cp_itemize_rule", "Ok(c is one of ITEM_FOLLOW && EOS_ITEMIZE_HEADER.is_match(&s[..eos])?)")]
    return feats, follow


def parenthesis_level_features(body):
    t = norm(_strip_lazy_static(body))
    m = re.match(r"let mut (?P<lv>%s)(?:: usize)? = 0(?:usize)?; for (?P<c>%s) in PARENTHESIS\.captures_iter\((?P<s>%s)\) \{ " % (ID, ID, ID), t)
    if not m:
        raise F.FactError("parenthesis_level: not `let mut level = 0; for caps in PARENTHESIS.captures_iter(s) {`")
    LV, C = re.escape(m.group("lv")), re.escape(m.group("c"))
    t = t[m.end():]
    POS = r"(?:%s > 0|0 < %s|%s != 0|%s >= 1)" % (LV, LV, LV, LV)
    G1 = r"%s\?\.get\(1\)" % C
    shapes = [
        r"if let Some\(_\) = %s \{ %s \+= 1; \} else if %s \{ %s -= 1; \} \} Ok\(%s\)" % (G1, LV, POS, LV, LV),
        r"if %s\.is_some\(\) \{ %s \+= 1; \} else if %s \{ %s -= 1; \} \} Ok\(%s\)" % (G1, LV, POS, LV, LV),
        r"match %s \{ Some\(_\) => %s \+= 1, None if %s => %s -= 1, (?:None|_) => \{\},? \} \} Ok\(%s\)" % (G1, LV, POS, LV, LV),
        r"if %s\.is_some\(\) \{ %s \+= 1; \} else \{ %s = %s\.saturating_sub\(1\); \} \} Ok\(%s\)" % (G1, LV, LV, LV, LV),
    ]
    if not any(re.fullmatch(x, t) for x in shapes):
        raise F.FactError("parenthesis_level: loop body is not `group 1 => level += 1; otherwise level > 0 => level -= 1` followed by Ok(level): %s" % t[:160])
    return [("pl_start", "level = 0 (usize)"),
            ("pl_traversal", "every match of PARENTHESIS.captures_iter(s), in order"),
            ("pl_open", "group 1 took part => level += 1"),
            ("pl_close", "otherwise level > 0 => level -= 1 (a closing bracket at level 0 is ignored)"),
            ("pl_result", "Ok(level)")]


def gen():
    raw = F.src(DET)
    t = F.strip_comments(raw, canonical=False)
    out = [F.HEADER]
    classes = {}
    for n in ("PERIODS", "DOT", "COMMA", "ALPHABET_OR_NUMBER", "OPEN_PARENTHESIS", "CLOSE_PARENTHESIS"):
        val, lit = const_str(t, n)
        classes[n] = class_ranges(val, n)
        out.append(coq_ranges(n, classes[n], "const %s = \"%s\" (used inside [...])" % (n, lit.replace("*)", "* )"))))
    # CDOTS = "<char>{n,}"
    val, lit = const_str(t, "CDOTS")
    m = re.fullmatch(r"(.)\{(\d+),\}", val, flags=re.S)
    if not m or m.group(1) in "\\.[](){}|*+?^$":
        raise F.FactError("CDOTS is no longer <literal char>{n,}: %r" % val)
    out.append("(* const CDOTS = \"%s\" *)\nDefinition CDOT : N := %d%%N.\nDefinition CDOTS_MIN : nat := %d.\n" % (lit, ord(m.group(1)), int(m.group(2))))
    # BR_TAG = "(a|b){n,}"
    val, lit = const_str(t, "BR_TAG")
    m = re.fullmatch(r"\(([^()]*)\)\{(\d+),\}", val)
    if not m:
        raise F.FactError("BR_TAG is no longer (alt|alt){n,}: %r" % val)
    tags = m.group(1).split("|")
    for tg in tags:
        if not tg or re.search(r"[\\.\[\]{}*+?^$]", tg):
            raise F.FactError("BR_TAG alternative %r is not a plain literal" % tg)
    out.append("(* const BR_TAG = \"%s\" *)\nDefinition BR_TAGS : list (list N) := [ %s ].\nDefinition BR_MIN : nat := %d.\n" % (lit, "; ".join(coq_text(x) for x in tags), int(m.group(2))))
    out.append("Definition DEFAULT_LIMIT : N := %s.\n" % F.coq_int(F.find_const(DET, "DEFAULT_LIMIT")))
    out.append("Definition LOOKUP_BYTE_LENGTH : N := %s.\n" % F.coq_int(F.find_const(DET, "LOOKUP_BYTE_LENGTH")))

    # regex shapes
    regs = regex_defs(t)
    names = [r[0] for r in regs]
    want = ["SENTENCE_BREAKER", "ITEMIZE_HEADER", "SPACES", "PARENTHESIS", "PROHIBITED_BOS", "QUOTE_MARKER", "EOS_ITEMIZE_HEADER"]
    if names != want:
        raise F.FactError("regex inventory of sentence_detector.rs changed: %s" % names)
    rows = []
    for name, fmt, args, _limit in regs:
        rows.append("(%s, %s, [%s])" % (coq_string(name), coq_string(fmt), "; ".join(coq_string(a) for a in args)))
    out.append("(* every Regex::new of the detector: (name, format string as written in the source, format arguments) *)\n"
               "Definition regex_shapes : list (string * string * list string) :=\n  [ %s ].\n" % ";\n    ".join(rows))
    # patterns with look-around run on fancy-regex's backtracking VM, whose default limit of 1,000,000 steps makes long
    # windows fail (get_eos -> Err -> the iterator panics); the others are delegated to the regex crate (no limit)
    fancy = ["(%s, %s)" % (coq_string(name), coq_string(limit or "default"))
             for name, fmt, args, limit in regs if re.search(r"\(\?[<=!]", fmt)]
    out.append("(* patterns with look-around and their backtrack limit *)\nDefinition fancy_backtrack_limits : list (string * string) := [ %s ].\n" % "; ".join(fancy))
    # QUOTE_MARKER: literal alternatives of both groups
    qfmt = rust_str([r for r in regs if r[0] == "QUOTE_MARKER"][0][1], "QUOTE_MARKER")
    m = re.fullmatch(r"\(((?:[^()|\[\]]+\|)*)\[\{\}\]\)\(([^()\[\]]+)\)", qfmt)
    if not m:
        raise F.FactError("QUOTE_MARKER is no longer (lit|...|[{}])(lit|...): %r" % qfmt)
    firsts = [x for x in m.group(1).split("|") if x]
    fl = []
    for x in firsts:
        x = x[1:] if x.startswith("\\") else x
        if len(x) != 1:
            raise F.FactError("QUOTE_MARKER first-group alternative %r is not one character" % x)
        fl.append(ord(x))
    seconds = m.group(2).split("|")
    for x in seconds:
        if not x or re.search(r"[\\.\[\]{}*+?^$]", x):
            raise F.FactError("QUOTE_MARKER second-group alternative %r is not a plain literal" % x)
    out.append("Definition QUOTE_FIRST : list N := [ %s ]%%N.\n" % "; ".join(str(v) for v in fl))
    out.append("Definition QUOTE_SECOND : list (list N) := [ %s ].\n" % "; ".join(coq_text(x) for x in seconds))
    # is_continuous_phrase: (c == 'と' || c == 'や' || c == 'の') && EOS_ITEMIZE_HEADER.is_match(&s[..eos])?
    body = F.fn_body(t, "is_continuous_phrase", DET)
    cp_feats, follow = continuous_phrase_features(body)
    out.append("Definition ITEM_FOLLOW : list N := [ %s ]%%N.\n" % "; ".join(str(ord(x)) for x in follow))
    for k, v in cp_feats:
        out.append("Definition %s : string := %s.\n" % (k, coq_string(v)))

    # control flow of the candidate loop and the tail of get_eos
    body = F.fn_body(t, "get_eos", DET)
    m = re.search(r"for\s+mat\s+in\s+SENTENCE_BREAKER\.find_iter\(&s\)\s*\{", body)
    if not m:
        raise F.FactError("candidate loop of get_eos not found")
    head = body[:m.start()]
    head = re.sub(r"lazy_static!\s*\{.*?\n\s{8}\}", "lazy_static!{..}", head, flags=re.S)
    out.append("Definition get_eos_head : string := %s.\n" % coq_string(norm(head)))
    tail = re.sub(r"lazy_static!\s*\{.*?\n\s{12}\}", "lazy_static!{..}", body[m.start():], flags=re.S)
    out.append("Definition get_eos_steps : list string := [ %s ].\n" % ";\n    ".join(coq_string(x) for x in get_eos_loop_features(tail)))
    for k, v in non_break_features(F.fn_body(t, "has_non_break_word", DET)):
        out.append("Definition %s : string := %s.\n" % (k, coq_string(v)))
    for k, v in parenthesis_level_features(F.fn_body(t, "parenthesis_level", DET)):
        out.append("Definition %s : string := %s.\n" % (k, coq_string(v)))
    for k, v in prohibited_bos_features(F.fn_body(t, "prohibited_bos", DET)):
        out.append("Definition %s : string := %s.\n" % (k, coq_string(v)))
    m = re.search(r"pub\s+fn\s+new\(lexicon[^)]*\)\s*->\s*Self\s*\{\s*NonBreakChecker\s*\{\s*lexicon\s*,\s*bos\s*:\s*(\d+)\s*\}", t)
    if not m:
        raise F.FactError("NonBreakChecker::new no longer initialises bos with a literal")
    out.append("Definition checker_initial_bos : N := %s%%N.\n" % m.group(1))

    # the iterator
    sp = F.strip_comments(F.src(SPL), canonical=False)
    for k, v in iter_next_features(F.fn_body(sp, "next", SPL)):
        out.append("Definition %s : string := %s.\n" % (k, coq_string(v)))
    if re.search(r"\.bos\s*=", sp):
        raise F.FactError("sentence_splitter.rs now assigns NonBreakChecker::bos (the model keeps it at its initial value)")
    m = re.search(r"pub\s+fn\s+new\(\)\s*->\s*Self\s*\{\s*SentenceSplitter\s*\{\s*detector\s*:\s*SentenceDetector::new\(\)\s*,\s*checker\s*:\s*None\s*,?\s*\}", sp)
    if not m:
        raise F.FactError("SentenceSplitter::new not recognised")
    m = re.search(r"pub\s+fn\s+new\(\)\s*->\s*Self\s*\{\s*SentenceDetector\s*\{\s*limit\s*:\s*DEFAULT_LIMIT\s*,?\s*\}", t)
    if not m:
        raise F.FactError("SentenceDetector::new no longer uses DEFAULT_LIMIT")

    # the CLI: default window + dictionary-based checker, sentences consumed in iteration order
    cli = F.strip_comments(F.src(CLI), canonical=False)
    call = r"\((?:[^(){};]|\([^(){};]*\))*\)"
    ctors = re.findall(r"SentenceSplitter::[a-z_]+" + call + r"(?:\s*\.\s*[a-z_]+" + call + r")*", cli)
    out.append("Definition cli_splitter_ctors : list string := [ %s ].\n" % "; ".join(coq_string(norm(c)) for c in ctors))
    loops = []
    for mm in re.finditer(r"for\s+(\([^()]*\))\s+in\s+self\s*\.\s*splitter\s*\.\s*split\(([^(){}]*)\)\s*\{|self\s*\.\s*splitter\s*\.\s*split\(([^(){}]*)\)\s*\.\s*for_each\(\s*\|(\([^()|]*\))\|", cli):
        # a `for` loop and `.for_each(..)` visit the sentences in the same order, one call per sentence
        pat, arg = (mm.group(1), mm.group(2)) if mm.group(1) else (mm.group(4), mm.group(3))
        loops.append("for %s in self.splitter.split(%s) {" % (pat.strip(), arg.strip()))
    if len(re.findall(r"\.\s*split\(", cli)) != len(loops):
        raise F.FactError("analysis.rs: a use of splitter.split(..) that is neither a for loop nor for_each over the sentences")
    out.append("Definition cli_split_loops : list string := [ %s ].\n" % "; ".join(coq_string(norm(c)) for c in loops))
    return "".join(out)
