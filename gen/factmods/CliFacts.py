import re
import facts as F


def gen():
    t = F.strip_comments(F.src("sudachi-cli/src/main.rs"))
    body = F.fn_body(t, "strip_eol", "sudachi-cli/src/main.rs")
    m1 = re.search(r"if\s+len\s*>\s*(\d+)\s*&&\s*bytes\[len\s*-\s*1\]\s*==\s*b'\\n'", body)
    m2 = re.search(r"if\s+len\s*>\s*(\d+)\s*&&\s*bytes\[len\s*-\s*1\]\s*==\s*b'\\r'", body)
    if not m1 or not m2:
        raise F.FactError("strip_eol: guards `len > K && bytes[len - 1] == b'\\n' / b'\\r'` not recognised")
    if body.find(m1.group(0)) > body.find(m2.group(0)):
        raise F.FactError("strip_eol: order of the \\n / \\r tests changed")
    out = [F.HEADER]
    out.append("(* sudachi-cli/src/main.rs strip_eol: `len > %s && last == '\\n'`, then `len > %s && last == '\\r'` *)\n" % (m1.group(1), m2.group(1)))
    out.append("Definition strip_lf_min_len : nat := %s.\nDefinition strip_cr_min_len : nat := %s.\n" % (m1.group(1), m2.group(1)))
    if not re.search(r"while\s+reader\.read_line\(&mut data\)[^{]*>\s*0\s*\{\s*let\s+no_eol\s*=\s*strip_eol\(&data\);\s*analyzer\.analyze\(no_eol,", t):
        raise F.FactError("main: read_line / strip_eol / analyze loop not recognised")
    o = F.strip_comments(F.src("sudachi-cli/src/output.rs"))
    w = re.search(r"word_separator:\s*String::from\(\"([^\"]*)\"\)\s*,\s*sentence_separator:\s*String::from\(\"([^\"]*)\"\)", o)
    if not w:
        raise F.FactError("Wakachi::default separators not recognised")
    out.append('Definition wakati_word_sep : string := "%s".\n' % w.group(1))
    sep2 = w.group(2)
    if sep2 != "\\n":
        raise F.FactError("Wakachi sentence separator is no longer \"\\n\"")
    out.append("Definition wakati_sentence_sep_is_newline : bool := true.\n")
    if not re.search(r'writer\.write_all\(b"EOS\\n"\)', o):
        raise F.FactError("Simple output no longer ends a sentence with EOS\\n")
    wb = F.fn_body(o, "write", "output.rs")
    if not re.search(r'if\s+morphemes\.len\(\)\s*==\s*0\s*\{\s*writer\.write_all\(b"\\n"\)', wb):
        raise F.FactError("Wakachi::write: empty-list case not recognised")
    return "".join(out)
