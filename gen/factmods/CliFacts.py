import re
import facts as F


def gen():
    t = F.strip_comments(F.src("sudachi-cli/src/main.rs"))
    body = F.fn_body(t, "strip_eol", "sudachi-cli/src/main.rs")
    m1 = re.search(r"if\s+len\s*>\s*(\d+)\s*&&\s*bytes\[len\s*-\s*1\]\s*==\s*b'\\n'", body)
    m2 = re.search(r"if\s+len\s*>\s*(\d+)\s*&&\s*bytes\[len\s*-\s*1\]\s*==\s*b'\\r'", body)
    if not m1 or not m2:
        raise F.FactError("strip_eol: guards `len > K && bytes[len - 1] == b'\\n' / b'\\r'` not recognised")
    if body.find(m1.group(0)) > body.find(m2.group(0)):
        raise F.FactError("strip_eol: order of the \\n / \\r tests changed")
    out = [F.HEADER]
    out.append("(* sudachi-cli/src/main.rs strip_eol: `len > %s && last == '\\n'`, then `len > %s && last == '\\r'` *)\n" % (m1.group(1), m2.group(1)))
    out.append("Definition strip_lf_min_len : nat := %s.\nDefinition strip_cr_min_len : nat := %s.\n" % (m1.group(1), m2.group(1)))
    if not re.search(r"while\s+reader\.read_line\(&mut data\)[^{]*>\s*0\s*\{\s*let\s+no_eol\s*=\s*strip_eol\(&data\);\s*analyzer\.analyze\(no_eol,", t):
        raise F.FactError("main: read_line / strip_eol / analyze loop not recognised")
    o = F.strip_comments(F.src("sudachi-cli/src/output.rs"))
    w = re.search(r"word_separator:\s*String::from\(\"([^\"]*)\"\)\s*,\s*sentence_separator:\s*String::from\(\"([^\"]*)\"\)", o)
    if not w:
        raise F.FactError("Wakachi::default separators not recognised")
    out.append('Definition wakati_word_sep : string := "%s".\n' % w.group(1))
    sep2 = w.group(2)
    if sep2 != "\\n":
        raise F.FactError("Wakachi sentence separator is no longer \"\\n\"")
    out.append("Definition wakati_sentence_sep_is_newline : bool := true.\n")
    if not re.search(r'writer\.write_all\(b"EOS\\n"\)', o):
        raise F.FactError("Simple output no longer ends a sentence with EOS\\n")
    wb = F.fn_body(o, "write", "output.rs")
    if not re.search(r'if\s+(?:morphemes\.len\(\)\s*==\s*0|morphemes\.is_empty\(\))\s*\{\s*writer\.write_all\(b"\\n"\)', wb):
        raise F.FactError("Wakachi::write: empty-list case not recognised")
    out.append(columns(o))
    return "".join(out)


def _bytes(lit):
    """Rust byte/str literal body -> Coq list N"""
    b = bytes(lit, "utf-8").decode("unicode_escape").encode("utf-8")
    return "[" + "; ".join("%d%%N" % x for x in b) + "]"


def columns(o):
    """Column output: order of what write_morpheme_basic / write_morpheme_extended / Simple::write emit, and Simple::subset."""
    out = []
    basic = F.fn_body(o, "write_morpheme_basic", "output.rs")
    toks = []
    for m in re.finditer(r"writer\.write_all\(\s*([^;]*?)\s*\)\?;", basic):
        a = m.group(1)
        mm = re.fullmatch(r'b"((?:[^"\\]|\\.)*)"', a)
        if mm:
            toks.append(("lit", mm.group(1)))
            continue
        mm = re.fullmatch(r"morpheme\.(\w+)\(\)\.as_bytes\(\)", a)
        if mm:
            toks.append(("col", mm.group(1)))
            continue
        if a == "pos.as_bytes()":
            toks.append(("col", "pos_component"))
            continue
        raise F.FactError("write_morpheme_basic: unrecognised write_all argument `%s`" % a)
    if not re.search(r"let\s+all_pos\s*=\s*morpheme\.part_of_speech\(\)\s*;\s*for\s*\(idx,\s*pos\)\s*in\s*all_pos\.iter\(\)\.enumerate\(\)", basic):
        raise F.FactError("write_morpheme_basic: part-of-speech loop not recognised")
    g = re.search(r'writer\.write_all\(pos\.as_bytes\(\)\)\?;\s*if\s+([^{]*?)\s*\{\s*writer\.write_all\(b","\)\?;\s*\}', basic)
    if not g:
        raise F.FactError("write_morpheme_basic: comma guard not recognised")
    out.append("(* sudachi-cli/src/output.rs write_morpheme_basic: what is written, in order *)\n")
    out.append("Definition basic_writes : list (string * list N) := [%s].\n" % "; ".join(
        '("%s"%%string, %s)' % (("lit", _bytes(v)) if k == "lit" else (v, "[]")) for k, v in toks))
    out.append('Definition pos_comma_guard : string := "%s".\n' % " ".join(g.group(1).split()))
    ext = F.fn_body(o, "write_morpheme_extended", "output.rs")
    w = re.search(r'write!\(\s*writer\s*,\s*"((?:[^"\\]|\\.)*)"\s*,(.*?)\)\?;', ext, flags=re.S)
    if not w:
        raise F.FactError("write_morpheme_extended: write! call not recognised")
    args = [a.strip() for a in w.group(2).split(",") if a.strip()]
    cols = []
    for a in args:
        mm = re.fullmatch(r"morpheme\.(\w+)\(\)", a)
        if not mm:
            raise F.FactError("write_morpheme_extended: unrecognised argument `%s`" % a)
        cols.append(mm.group(1))
    # the format string split at its placeholders
    parts = re.split(r"(\{\}|\{:\?\})", w.group(1))
    out.append("(* write_morpheme_extended: literal pieces and placeholders of the format string, then the arguments *)\n")
    out.append("Definition extended_format : list (string * list N) := [%s].\n" % "; ".join(
        ('("%s"%%string, [])' % ("display" if x == "{}" else "debug")) if x in ("{}", "{:?}") else ('("lit"%%string, %s)' % _bytes(x))
        for x in parts if x != ""))
    out.append("Definition extended_args : list string := [%s].\n" % "; ".join('"%s"%%string' % c for c in cols))
    v = re.search(r'if\s+morpheme\.is_oov\(\)\s*\{\s*writer\.write_all\(b"((?:[^"\\]|\\.)*)"\)\?;\s*\}', ext)
    if not v:
        raise F.FactError("write_morpheme_extended: (OOV) suffix not recognised")
    out.append("Definition oov_suffix : list N := %s.\n" % _bytes(v.group(1)))
    # Simple::write and Simple::subset (the second `fn write` / `fn subset` of the file)
    si = o.find("for Simple")
    if si < 0:
        raise F.FactError("impl SudachiOutput for Simple not found")
    simple = o[si:]
    sw = F.fn_body(simple, "write", "output.rs (Simple)")
    if not re.search(r'for\s+m\s+in\s+morphemes\.iter\(\)\s*\{\s*write_morpheme_basic\(writer,\s*&m\)\?;\s*if\s+self\.print_all\s*\{\s*write_morpheme_extended\(writer,\s*&m\)\?;?\s*\}\s*writer\.write_all\(b"\\n"\)\?;\s*\}\s*writer\.write_all\(b"EOS\\n"\)\?;', sw):
        raise F.FactError("Simple::write: loop (basic, extended if print_all, newline) + EOS not recognised")
    out.append("Definition simple_write_shape_ok : bool := true.\n")
    sb = F.fn_body(simple, "subset", "output.rs (Simple)")
    b0 = re.search(r"let\s+mut\s+subset\s*=\s*([^;]*);", sb)
    b1 = re.search(r"if\s+self\.print_all\s*\{\s*subset\s*\|=\s*([^;]*);\s*\}\s*subset\s*$", sb.strip().rstrip("}").strip())
    if not b0 or not b1:
        raise F.FactError("Simple::subset not recognised")

    def flags(e):
        fs = []
        for x in e.split("|"):
            mm = re.fullmatch(r"\s*InfoSubset::(\w+)\s*", x)
            if not mm:
                raise F.FactError("Simple::subset: unrecognised flag expression `%s`" % x.strip())
            fs.append(mm.group(1))
        return fs
    out.append("Definition subset_basic : list string := [%s].\n" % "; ".join('"%s"%%string' % f for f in flags(b0.group(1))))
    out.append("Definition subset_all_extra : list string := [%s].\n" % "; ".join('"%s"%%string' % f for f in flags(b1.group(1))))
    # Wakachi::subset requests nothing
    wk = o[o.find("for Wakachi"):si]
    ws = F.fn_body(wk, "subset", "output.rs (Wakachi)")
    if not re.fullmatch(r"\s*InfoSubset::empty\(\)\s*", ws.strip().strip("{}")):
        raise F.FactError("Wakachi::subset is no longer empty")
    out.append("Definition subset_wakati : list string := [].\n")
    return "".join(out)
