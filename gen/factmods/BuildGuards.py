"""Generated/BuildGuards.v: guards, limits and the panic-site inventory of the dictionary compiler (C06)."""
import importlib.util
import os
import re
import facts as F

_spec = importlib.util.spec_from_file_location("factmod_Guards_for_build", os.path.join(os.path.dirname(os.path.abspath(__file__)), "Guards.py"))
G = importlib.util.module_from_spec(_spec)
_spec.loader.exec_module(G)

BUILD = "sudachi/src/dic/build/"


def indexed_guards(body, name, where):
    """guards of the form `if e.should_index() && <atom> { return err }` on e.<name>"""
    out = []
    for m in re.finditer(r"\bif\s+e\.should_index\(\)\s*&&\s*([^{};&]+?)\s*\{\s*return\s+[a-z_]+\.err\b", body):
        cond = re.sub(r"^\((.*)\)$", r"\1", m.group(1).strip())
        fake = "if %s { return ctx.err" % cond
        out += G.guards_of(fake, {"e." + name: "none"}, where)
    return out


def strip_indexed(body):
    return re.sub(r"\bif\s+e\.should_index\(\)\s*&&[^{};]+\{", "if INDEXED_ONLY {", body)


def no_tests(t):
    m = re.search(r"#\[cfg\(test\)\]\s*mod\s+\w+\s*\{", t)
    return t if not m else t[:m.start()]


def panic_sites(rel):
    """(fn, kind) of every panic!/todo!/unimplemented!/unreachable!/unwrap()/expect(/assert!/assert_eq! and every index or
    slice expression x[..] outside test modules, with the enclosing fn"""
    t = no_tests(F.strip_comments(F.src(rel)))
    t = re.sub(r'"(?:[^"\\]|\\.)*"', '""', t)          # string literals
    t = re.sub(r"#!?\[[^\]]*\]", "", t)                  # attributes
    sites = []
    fns = [(m.start(), m.group(1)) for m in re.finditer(r"\bfn\s+([A-Za-z_0-9]+)", t)]

    def fn_at(pos):
        name = "<top>"
        for s, n in fns:
            if s <= pos:
                name = n
        return name
    pats = [
        ("panic", r"\bpanic!\s*\("), ("todo", r"\btodo!\s*\("), ("unimplemented", r"\bunimplemented!\s*\("),
        ("unreachable", r"\bunreachable!\s*\("), ("unwrap", r"\.unwrap\(\)"), ("expect", r"\.expect\("),
        ("assert", r"(?<![_a-z])assert(?:_eq|_ne)?!\s*\("),
        ("index", r"[A-Za-z_0-9)\]]\[[^\[\]]*\]"),
    ]
    for kind, pat in pats:
        for m in re.finditer(pat, t):
            if kind == "index":
                inner = m.group(0)
                if re.search(r"\[\s*\]$", inner):
                    continue
                # array types / generics such as [u8; 4] or Cow<[T]> do not follow an identifier character directly in this code base
                if re.match(r"^[A-Za-z_0-9)\]]\[(?:u8|u16|u32|i16|T|Cow<)", inner):
                    continue
            sites.append((fn_at(m.start()), kind))
    return sites


def gen():
    out = [F.HEADER, "From SudachiVerif Require Import Model.GuardLang.\nOpen Scope Z_scope.\n\n"]
    # ---- lexicon.rs: validate_entries / validate_wid / should_index / set_max_conn_sizes
    rel = BUILD + "lexicon.rs"
    t = no_tests(F.strip_comments(F.src(rel)))
    # checks moved into private helpers of the file are read where they are called (validate_wid itself is read below)
    b = F.inline_calls(t, F.fn_body(t, "validate_entries", rel), skip=("validate_wid",))
    plain = strip_indexed(b)
    for name in ("left_id", "right_id"):
        out.append(G.coq_list("validate_%s_guards" % name, G.guards_of(plain, {"e." + name: "none"}, rel + ":validate_entries")))
        out.append(G.coq_list("validate_%s_guards_indexed" % name, indexed_guards(b, name, rel + ":validate_entries")))
    pr = F.fn_body(t, "parse_record", rel)
    # the surface checks of parse_record: on the DECODED surface (the variable bound to `rec.get(0, .., unescape)?`), or on the
    # CSV text of the field inside the parser handed to rec.get(0, ..) before it calls unescape.  For the empty check the two
    # are the same thing (no escape decodes to nothing); for the NUL check they are not: \\u0000 / \\u{0} decode to U+0000
    msurf = re.search(r"let\s+(\w+)\s*=\s*rec\.get\(\s*0\s*,", pr)
    if not msurf:
        raise F.FactError("parse_record: the surface is no longer `rec.get(0, ..)`")
    sv = msurf.group(1)
    e0 = F._close(pr, pr.index("rec.get(", msurf.start()) + len("rec.get(") - 1)
    field0 = pr[msurf.start():e0] if e0 > 0 else ""
    after = pr[e0:] if e0 > 0 else pr
    mraw = re.search(r"\|(\w+)\|", field0)
    rawv = mraw.group(1) if mraw else None
    raw_part = field0[:field0.index("unescape")] if "unescape" in field0 else field0
    empty_decoded = re.search(r"if\s+%s\.is_empty\(\)\s*\{\s*return\s+rec\s*\.ctx\s*\.err\(BuildFailure::EmptySurface\)" % sv, after)
    empty_raw = rawv and re.search(r"if\s+%s\.is_empty\(\)\s*\{\s*return\s+Err\(BuildFailure::EmptySurface\)" % rawv, raw_part)
    if not (empty_decoded or empty_raw):
        raise F.FactError("parse_record: empty-surface check not recognised")
    nul = re.search(r"if\s+%s\.contains\('\\0'\)\s*\{\s*return\s+rec\s*\.ctx\s*\.err\(" % sv, after)
    nul_raw = rawv and re.search(r"if\s+%s\.contains\('\\0'\)\s*\{\s*return\s+Err\(" % rawv, raw_part)
    out.append("(* a surface (trie key) whose decoded value contains U+0000 is rejected by parse_record (else yada asserts) *)\nDefinition nul_surface_is_error : bool := %s.\n" % ("true" if nul else "false"))
    out.append("(* a surface whose CSV text contains a NUL byte is rejected (by the check above, or by one on the text before unescape) *)\nDefinition raw_nul_surface_is_error : bool := %s.\n" % ("true" if (nul or nul_raw) else "false"))
    sb = F.fn_body(t, "should_index", rel)
    m = re.fullmatch(r"\s*self\.left_id\s*(>=|>)\s*(-?[0-9]+)\s*", sb)
    if not m:
        raise F.FactError("should_index has an unrecognised shape: %r" % sb.strip())
    out.append("(* an entry is indexed iff left_id %s %s *)\nDefinition should_index_guard : guard := mkG CastNone %s (OConst (%s)).\n" % (m.group(1), m.group(2), G.CMP[m.group(1)], m.group(2)))
    mb = F.fn_body(t, "set_max_conn_sizes", rel)
    if not re.search(r"self\.max_left\s*=\s*left\s*;\s*self\.max_right\s*=\s*right\s*;", mb):
        raise F.FactError("set_max_conn_sizes no longer stores (left, right) into (max_left, max_right)")
    wb = F.fn_body(t, "validate_wid", rel)
    # `if test { return Err(..); } Ok(())`  or, as the tail expression,  `if test { Err(..) } else { Ok(()) }`
    tail = re.search(r"\bif\s+[^{}]*\{\s*Err\((?:[^{}]|\{[^{}]*\})*\}\s*else\s*\{\s*Ok\(\(\)\)\s*\}\s*$", wb)
    ret = r"\{\s*return\s+Err" if not tail else r"\{\s*Err"
    m = re.search(r"if\s+wid\.word\(\)\s*(>=|>)\s*(\w+)\s+as\s+u32\s*" + ret, wb)
    if not m:
        # the same test written the other way round: `max as u32 <= wid.word()`
        mt = re.search(r"if\s+(\w+)\s+as\s+u32\s*(<=|<)\s*wid\.word\(\)\s*" + ret, wb)
        if mt:
            m = re.match(r"(>=|>) (\w+)", "%s %s" % ({"<=": ">=", "<": ">"}[mt.group(2)], mt.group(1)))
    if not m:
        raise F.FactError("validate_wid range check not recognised")
    out.append("Definition validate_wid_cmp : cmp := %s.\n" % G.CMP[m.group(1)])
    if not re.search(r"let\s+%s\s*=\s*match\s+wid\.dic\(\)\s*\{\s*0\s*=>\s*dic0_max,\s*1\s*=>\s*dic1_max," % re.escape(m.group(2)), wb):
        raise F.FactError("validate_wid no longer selects dic0_max / dic1_max by wid.dic()")
    if not re.search(r"usize::MAX\s*=>\s*\(self\.entries\.len\(\),\s*0\),", b) or not re.search(r"x\s*=>\s*\(x,\s*self\.entries\.len\(\)\),", b):
        raise F.FactError("validate_entries: (max_0, max_1) selection not recognised")
    for fld in ("dic_form", "splits_a", "splits_b", "word_structure"):
        if not re.search(r'validate_wid\(\*?(?:e\.dic_form|wid),\s*max_0,\s*max_1,\s*"%s"\)' % fld, b):
            raise F.FactError("validate_entries no longer validates %s" % fld)
    # ---- mod.rs: wiring of the dimensions, order of compile
    rel = BUILD + "mod.rs"
    t = no_tests(F.strip_comments(F.src(rel)))
    if not re.search(r"set_max_conn_sizes\(self\.conn\.left\(\),\s*self\.conn\.right\(\)\)", F.fn_body(t, "read_conn", rel)):
        raise F.FactError("read_conn no longer passes (conn.left(), conn.right()) to set_max_conn_sizes")
    if not re.search(r"let\s+(\w+)\s*=\s*[\w.()]*\bconn_matrix\(\);.*set_max_conn_sizes\(\1\.num_left\(\)\s+as\s+_,\s*\1\.num_right\(\)\s+as\s+_\)", F.fn_body(t, "new_user", rel), flags=re.S):
        raise F.FactError("new_user no longer passes (num_left, num_right) to set_max_conn_sizes")
    cb = F.fn_body(t, "compile", rel)
    cb1 = re.sub(r"self\.write_lexicon\(w,\s*\w+\)\?", "self.write_lexicon(w, written)?", cb)
    order = [cb1.find(x) for x in ("self.check_if_resolved()?", "self.lexicon.validate_entries()?", "self.header.write_to(w)?", "self.write_grammar(w)?", "self.write_lexicon(w, written)?")]
    build_bad = []
    if -1 in order or order != sorted(order):
        # kept out of FactError on purpose: the model still builds (for compile as it was written for) and the differential
        # run looks for a history on which the changed compile and the model differ
        build_bad.append("DictBuilder::compile is no longer: check_if_resolved, validate_entries (unconditionally), header, grammar, lexicon")
    rcb = F.fn_body(t, "read_conn", rel)
    i_set = rcb.find("set_max_conn_sizes(")
    m_early = re.search(r"\}\s*\?\s*;", rcb[:i_set]) if i_set >= 0 else None
    m_res = re.search(r"let\s+(\w+)\s*=\s*match\s+data\.convert\(\)", rcb)
    m_late = re.search(r"\b%s\s*\?\s*;" % re.escape(m_res.group(1)), rcb[i_set:]) if (i_set >= 0 and m_res) else None
    if i_set < 0 or (m_early is None) == (m_late is None):
        build_bad.append("DictBuilder::read_conn: where the read error is propagated relative to set_max_conn_sizes was not recognised")
    out.append("(* read_conn hands the buffer's dimensions to the lexicon even when reading failed (the buffer keeps new dimensions) *)\n")
    out.append("Definition conn_limits_follow_on_error : bool := %s.\n" % ("true" if (i_set >= 0 and m_late is not None and m_early is None) else "false"))
    fixed_user = re.search(r"if\s+!self\.user\s*\{\s*self\.lexicon\s*\.set_max_conn_sizes\(", rcb) is not None
    out.append("(* ... but only for system dictionaries: a user dictionary keeps the dimensions of its system dictionary as limits *)\n")
    out.append("Definition conn_limits_fixed_for_user : bool := %s.\n" % ("true" if fixed_user else "false"))
    rlb = F.fn_body(t, "read_lexicon", rel)
    out.append("(* read_lexicon clears the `resolved` flag (rows read after resolve() may carry unresolved split units) *)\n")
    out.append("Definition read_lexicon_clears_resolved : bool := %s.\n" % ("true" if re.search(r"self\.resolved\s*=\s*false\s*;", rlb) else "false"))
    # the two routes of read_conn, each on its own: does the arm return / propagate by itself (before the common continuation,
    # which hands the dimensions to the lexicon also after a failure)?
    def arms(body):
        m = re.search(r"match\s+data\.convert\(\)\s*\{", body)
        if not m:
            return None
        e = F._close(body.replace("{", "(").replace("}", ")"), m.end() - 1)
        inner = body[m.end():e - 1] if e > 0 else ""
        mf = re.search(r"DataSource::File\(\w+\)\s*=>", inner)
        md = re.search(r"DataSource::Data\(\w+\)\s*=>", inner)
        if not mf or not md:
            return None
        if mf.start() < md.start():
            return inner[mf.end():md.start()], inner[md.end():]
        return inner[mf.end():], inner[md.end():mf.start()]
    early = lambda arm: bool(re.search(r"\breturn\b|\?", arm))
    a = arms(rcb)
    if a is None:
        raise F.FactError("read_conn no longer dispatches on data.convert() with an arm for a file and one for bytes")
    out.append("(* read_conn: the arm for a file path / for bytes in memory returns or propagates on its own (before the dimensions are handed on) *)\n")
    out.append("Definition conn_file_route_returns_early : bool := %s.\n" % ("true" if early(a[0]) else "false"))
    out.append("Definition conn_bytes_route_returns_early : bool := %s.\n" % ("true" if early(a[1]) else "false"))
    # both routes end in the same parser: ConnBuffer::read_file -> self.read(..), LexiconReader::read_file -> self.read_bytes(..),
    # the DictBuilder arms call read_file / read (read_bytes) of the same reader and nothing else
    def one_call(arm, reader, fn):
        return re.fullmatch(r"\s*(?:\{\s*)?(?:let\s+(\w+)\s*=\s*)?self\.%s\.%s\(\w+\)\s*;?\s*(?:if\s+let\s+Err\(\w+\)\s*=\s*\1\s*\{[^{}]*\}\s*\1\s*)?(?:\}\s*)?,?\s*" % (reader, fn), arm) is not None
    al = arms(rlb)
    crel, lrel = BUILD + "conn.rs", BUILD + "lexicon.rs"
    crf = F.fn_body(no_tests(F.strip_comments(F.src(crel))), "read_file", crel)
    lrf = F.fn_body(no_tests(F.strip_comments(F.src(lrel))), "read_file", lrel)
    same = (al is not None
            and one_call(a[0], "conn", "read_file") and one_call(a[1], "conn", "read")
            and one_call(al[0], "lexicon", "read_file") and one_call(al[1], "lexicon", "read_bytes")
            and len(re.findall(r"\bself\.read\(", crf)) == 1 and not re.search(r"\bself\.(?!read\(|ctx\b)\w+", crf)
            and len(re.findall(r"\bself\.read_bytes\(", lrf)) == 1 and not re.search(r"\bself\.(?!read_bytes\(|ctx\b)\w+", lrf))
    out.append("(* both routes of read_conn / read_lexicon call one reader function each, and the file functions do nothing to the reader but call the parser of the bytes route *)\n")
    out.append("Definition read_routes_reach_same_parser : bool := %s.\n" % ("true" if same else "false"))
    out.append("Definition build_unrecognised : list string := [ %s ].\n" % "; ".join('"%s"' % x for x in build_bad))
    for name in ("MAX_ARRAY_LEN", "MAX_DIC_STRING_LEN", "MAX_POS_IDS"):
        env = {"MAX_POS_IDS": F.find_const(rel, "MAX_POS_IDS")}
        out.append("Definition %s : Z := %s.\n" % (name, F.coq_int(F.find_const(rel, name, env), "Z")))
    # ---- parse.rs: list length guard, word id literal range
    rel = BUILD + "parse.rs"
    t = no_tests(F.strip_comments(F.src(rel)))
    m = re.search(r"if\s+\w+\.len\(\)\s*(>=|>)\s*MAX_ARRAY_LEN\s*\{\s*return\s+Err", F.fn_body(t, "parse_slash_list", rel))
    if not m:
        raise F.FactError("parse_slash_list length guard not recognised")
    out.append("Definition slash_list_len_guard : guard := mkG CastNone %s (OConst %s).\n" % (G.CMP[m.group(1)], F.coq_int(F.find_const(BUILD + "mod.rs", "MAX_ARRAY_LEN"), "Z")))
    m = re.search(r"if\s+data\.len\(\)\s*(>=|>)\s*MAX_DIC_STRING_LEN\s*\{\s*Err", F.fn_body(t, "check_str_len", rel))
    if not m:
        raise F.FactError("check_str_len guard not recognised")
    out.append("Definition str_len_guard : guard := mkG CastNone %s (OConst %s).\n" % (G.CMP[m.group(1)], F.coq_int(F.find_const(BUILD + "mod.rs", "MAX_DIC_STRING_LEN", {"MAX_POS_IDS": F.find_const(BUILD + "mod.rs", "MAX_POS_IDS")}), "Z")))
    out.append("Definition WORD_MASK : Z := %s.\n" % F.coq_int(F.find_const("sudachi/src/dic/word_id.rs", "WORD_MASK"), "Z"))
    pb = F.fn_body(t, "parse_wordid", rel)
    if not re.search(r'if\s+data\.starts_with\("U"\)\s*\{\s*let\s+(\w+)\s*=\s*parse_wordid_raw\(&data\[1\.\.\]\);\s*\1\.map\(\|(\w+)\|\s*WordId::new\(1,\s*\2\.word\(\)\)\)\s*\}\s*else\s*\{\s*parse_wordid_raw\(data\)', pb):
        raise F.FactError("parse_wordid has an unrecognised shape")
    # ---- primitives.rs: write_u32_array limit
    rel = BUILD + "primitives.rs"
    t = no_tests(F.strip_comments(F.src(rel)))
    m = re.search(r"let\s+(\w+)\s*=\s*data\.len\(\);.*?if\s+\1\s*(>=|>)\s*([0-9]+)\s*\{\s*return\s+Err", F.fn_body(t, "write_u32_array", rel), flags=re.S)
    if not m:
        raise F.FactError("write_u32_array length guard not recognised")
    out.append("Definition u32_array_len_guard : guard := mkG CastNone %s (OConst %s).\n" % (G.CMP[m.group(2)], m.group(3)))
    # ---- index.rs: the id lists of the word-id table go through write_u32_array (and with them its length guard); a table
    #      written any other way (count narrowed by hand, ids pushed directly) is reported as unchecked, not as a broken fact
    rel = BUILD + "index.rs"
    t = no_tests(F.strip_comments(F.src(rel)))
    wb = "".join(("\x01" * len(seg)) if kind == "string" else seg for kind, seg in F._segments(F.fn_body(t, "build_word_id_table", rel)))
    through = False
    mres = re.search(r"let\s+mut\s+(\w+)\s*=\s*Vec::(?:with_capacity\(|new\(\))", wb)
    if mres:
        res = mres.group(1)
        calls = [c for c in re.finditer(r"\bwrite_u32_array\(", wb)]
        other = re.findall(r"\b%s\.(?!len\(\)|capacity\(\))\w+\(" % res, wb) + re.findall(r"&mut\s+%s\b(?!\s*,\s*&\s*[\w.]+\))" % res, wb)
        if len(calls) == 1 and not other and re.search(r"Ok\(%s\)\s*$" % res, wb.strip()):
            c = calls[0]
            e = F._close(wb, c.end() - 1)
            args = wb[c.end():e - 1] if e > 0 else ""
            rest = wb[e:] if e > 0 else ""
            mm = re.match(r"\s*\.map_err\(", rest)
            if mm:
                e2 = F._close(rest, mm.end() - 1)
                rest = rest[e2:] if e2 > 0 else "!"
            if re.fullmatch(r"&mut\s+%s,\s*&\s*[\w.]+" % res, args.strip()) and re.match(r"\s*\?\s*;", rest):
                through = True
    out.append("Definition word_id_table_through_write_u32_array : bool := %s.\n" % ("true" if through else "false"))
    # ---- conn.rs
    rel = BUILD + "conn.rs"
    t = no_tests(F.strip_comments(F.src(rel)))
    # ConnBuffer::read split into private helpers (header, entries) is read as one body
    rb = F.inline_calls(t, F.fn_body(t, "read", rel))
    m = re.search(r"let\s+(\w+)\s*=\s*reader\.read_line\(&mut\s+self\.line\)\?;\s*if\s+\1\s*==\s*0\s*\{\s*(todo!\(\)|return\s+[^;]*err\w*\(|return\s+Err)", rb)
    if not m:
        raise F.FactError("ConnBuffer::read: handling of an input without header not recognised")
    out.append("Definition conn_empty_input_panics : bool := %s.\n" % ("true" if m.group(2).startswith("todo") else "false"))
    out.append(G.coq_list("conn_header_left_guards", G.guards_of(rb, {"left": "none"}, rel + ":read")))
    out.append(G.coq_list("conn_header_right_guards", G.guards_of(rb, {"right": "none"}, rel + ":read")))
    if not re.search(r"let\s+(\w+)\s*=\s*left\s+as\s+usize\s*\*\s*right\s+as\s+usize\s*\*\s*2\s*;\s*self\.matrix\.resize\(\1,\s*0\)", rb):
        raise F.FactError("ConnBuffer::read: matrix size is no longer left * right * 2")
    hb = F.fn_body(t, "parse_header", rel)
    lb = F.fn_body(t, "parse_line", rel)
    mh = re.search(r"splitn\(&self\.line\.trim\(\),\s*([0-9]+)\)", hb)
    ml = re.search(r"splitn\(&self\.line\.trim\(\),\s*([0-9]+)\)", lb)
    if not mh or not ml:
        raise F.FactError("parse_header / parse_line: splitn not recognised")
    out.append("Definition conn_header_fields : nat := %s.\nDefinition conn_line_fields : nat := %s.\n" % (mh.group(1), ml.group(1)))
    if len(re.findall(r"it_next\([^;]*parse_i16\)\?", hb)) != int(mh.group(1)) or len(re.findall(r"it_next\([^;]*parse_i16\)\?", lb)) != int(ml.group(1)):
        raise F.FactError("parse_header / parse_line: fields are no longer all parse_i16")
    mf = re.findall(r'let\s+(\w+)\s*=\s*it_next\([^;]*?"(left|right|cost)"[^;]*parse_i16\)\?;', lb)
    if [x[1] for x in mf] != ["left", "right", "cost"] or not re.search(r"self\.write_elem\(%s,\s*%s,\s*%s\)" % tuple(re.escape(x[0]) for x in mf), lb):
        raise F.FactError("parse_line no longer ends in write_elem(left, right, cost)")
    wb = F.fn_body(t, "write_elem", rel)
    out.append(G.coq_list("write_elem_left_guards", G.guards_of(wb, {"left": "none"}, rel + ":write_elem")))
    out.append(G.coq_list("write_elem_right_guards", G.guards_of(wb, {"right": "none"}, rel + ":write_elem")))
    # ---- state carried over between compile calls: what DictBuilder::compile (and what it calls) changes in the builder
    rel = BUILD + "conn.rs"
    ct = no_tests(F.strip_comments(F.src(rel)))
    m = re.search(r"pub\s+fn\s+write_to<W:\s*Write>\(\s*(&mut\s+self|&self)\s*,", ct)
    if not m:
        raise F.FactError("ConnBuffer::write_to signature not recognised")
    wtb = F.fn_body(ct, "write_to", rel)
    keeps = (m.group(1) == "&self" and re.search(r"writer\.write_all\(&self\.matrix\)\?", wtb) is not None
             and not re.search(r"mem::(take|replace|swap)|self\.matrix\.(clear|drain|truncate|split_off)|self\.matrix\s*=", wtb))
    out.append("(* ConnBuffer::write_to writes &self.matrix and leaves it in the buffer *)\nDefinition conn_write_keeps_matrix : bool := %s.\n" % ("true" if keeps else "false"))
    mutated = []
    if m.group(1) != "&self":
        mutated.append("conn.rs:write_to takes &mut self")
    lt = no_tests(F.strip_comments(F.src(BUILD + "lexicon.rs")))
    for fn in ("validate_entries", "write_pos_table", "entries", "needs_split_resolution"):
        mm = re.search(r"fn\s+%s(?:<[^>]*>)?\(\s*(&mut\s+self|&self)" % fn, lt)
        if not mm:
            raise F.FactError("LexiconReader::%s signature not recognised" % fn)
        if mm.group(1) != "&self":
            mutated.append("lexicon.rs:%s takes &mut self" % fn)
    ht = no_tests(F.strip_comments(F.src("sudachi/src/dic/header.rs")))
    mm = re.search(r"pub\s+fn\s+write_to<W:\s*Write>\(\s*(&mut\s+self|&self)", ht)
    if not mm:
        raise F.FactError("Header::write_to signature not recognised")
    if mm.group(1) != "&self":
        mutated.append("header.rs:write_to takes &mut self")
    mt = no_tests(F.strip_comments(F.src(BUILD + "mod.rs")))
    allowed_calls = {"lexicon": {"validate_entries", "entries", "write_pos_table", "needs_split_resolution"}, "conn": {"write_to"},
                     "header": {"write_to"}, "reporter": None, "ctx": {"err"}, "prebuilt": set(), "user": set(), "resolved": set()}
    for fn in ("compile", "write_grammar", "write_index", "write_lexicon", "check_if_resolved"):
        body = F.fn_body(mt, fn, BUILD + "mod.rs")
        for mm in re.finditer(r"\bself\.([a-z_]+)\s*(?:=[^=]|\+=|-=)", body):
            mutated.append("mod.rs:%s assigns self.%s" % (fn, mm.group(1)))
        for mm in re.finditer(r"mem::(?:take|replace|swap)\(\s*&mut\s+self\.([a-z_]+)", body):
            mutated.append("mod.rs:%s moves self.%s out" % (fn, mm.group(1)))
        for mm in re.finditer(r"\bself\.([a-z_]+)\.([a-z_]+)\(", body):
            fld, meth = mm.groups()
            if fld not in allowed_calls:
                mutated.append("mod.rs:%s uses unknown field self.%s" % (fn, fld))
            elif allowed_calls[fld] is not None and meth not in allowed_calls[fld]:
                mutated.append("mod.rs:%s calls self.%s.%s" % (fn, fld, meth))
    out.append("(* builder state (other than the reporter) that DictBuilder::compile or its callees change *)\nDefinition compile_mutated_state : list string := [ %s ].\n" % "; ".join('"%s"' % x for x in sorted(set(mutated))))
    # ---- dic/header.rs: Header::write_to (compile writes it first and uses the returned size as the base of all offsets)
    rel = "sudachi/src/dic/header.rs"
    ht = no_tests(F.strip_comments(F.src(rel)))
    dsz = F.find_const(rel, "DESCRIPTION_SIZE")
    ssz = F.find_const(rel, "STORAGE_SIZE", {"DESCRIPTION_SIZE": dsz})
    out.append("Definition HEADER_DESCRIPTION_SIZE : Z := %s.\nDefinition HEADER_STORAGE_SIZE : Z := %s.\n" % (F.coq_int(dsz, "Z"), F.coq_int(ssz, "Z")))
    hb = F.fn_body(ht, "write_to", rel)
    hbad = []
    # the guard: which length of the description is compared, how, with what
    m = re.search(r"if\s+self\.description\.(len\(\)|chars\(\)\.count\(\))\s*(<=|<|>=|>)\s*Header::DESCRIPTION_SIZE\s*\{\s*return\s+Err", hb)
    if m:
        measure, op = ("true" if m.group(1) == "len()" else "false"), G.CMP[m.group(2)]
    else:
        hbad.append("Header::write_to: the description guard was not recognised")
        measure, op = "true", "CGt"
    out.append("(* error iff  <length of the description> CMP DESCRIPTION_SIZE; the length is in bytes (true) or in characters (false) *)\n")
    out.append("Definition header_guard_in_bytes : bool := %s.\nDefinition header_guard : guard := mkG CastNone %s (OConst %s).\n" % (measure, op, F.coq_int(dsz, "Z")))
    order = [hb.find(x) for x in ("w.write_all(&self.version.to_u64().to_le_bytes())?", "w.write_all(&self.create_time.to_le_bytes())?", "w.write_all(&self.description.as_bytes())?")]
    if -1 in order or order != sorted(order):
        hbad.append("Header::write_to: version / create_time / description are no longer written in this order")
    # the padding: exactly DESCRIPTION_SIZE - len zero bytes (a subtraction that cannot be negative after the guard), or a clamped form
    if re.search(r"for\s+_\s+in\s+0\.\.Header::DESCRIPTION_SIZE\s*-\s*self\.description\.len\(\)\s*\{\s*w\.write_all\(&\[0\]\)\?;\s*\}", hb):
        pad = "true"
    elif re.search(r"\.min\(Header::DESCRIPTION_SIZE\)|saturating_sub", hb):
        pad = "false"
    else:
        pad = "true"
        hbad.append("Header::write_to: the padding of the description was not recognised")
    out.append("(* the padding is DESCRIPTION_SIZE - len(description bytes) zero bytes by plain subtraction (true) or clamped at zero (false) *)\nDefinition header_padding_exact : bool := %s.\n" % pad)
    if not re.search(r"Ok\(Header::STORAGE_SIZE\)\s*$", hb.strip()):
        hbad.append("Header::write_to no longer returns Header::STORAGE_SIZE")
    pb = F.fn_body(ht, "description_parser", rel)
    if not re.search(r"take\(Header::DESCRIPTION_SIZE\)\(input\)\?", pb) or "nul_terminated_str_from_slice(description_bytes)" not in pb:
        hbad.append("description_parser is no longer take(DESCRIPTION_SIZE) + nul_terminated_str_from_slice")
    if not re.search(r"tuple\(\(le_u64,\s*le_u64,\s*description_parser\)\)", F.fn_body(ht, "header_parser", rel)):
        hbad.append("header_parser is no longer (le_u64, le_u64, description_parser)")
    cbm = F.fn_body(no_tests(F.strip_comments(F.src(BUILD + "mod.rs"))), "compile", BUILD + "mod.rs")
    if not re.search(r"let\s+mut\s+(\w+)\s*=\s*self\.header\.write_to\(w\)\?;\s*\1\s*\+=\s*self\.write_grammar\(w\)\?;\s*self\.write_lexicon\(w,\s*\1\)\?;", cbm):
        hbad.append("compile no longer feeds the size returned by header.write_to into the offsets")
    vers = {}
    for name in ("SYSTEM_DICT_VERSION_2", "USER_DICT_VERSION_3"):
        vers[name] = F.find_const(rel, name)
        out.append("Definition %s : N := %s.\n" % (name, F.coq_int(vers[name])))
    bm = no_tests(F.strip_comments(F.src(BUILD + "mod.rs")))
    su = F.fn_body(bm, "set_user", BUILD + "mod.rs")
    if not re.search(r"if\s+user\s*\{\s*self\.header\.version\s*=\s*HeaderVersion::UserDict\(UserDictVersion::Version3\)\s*\}\s*else\s*\{\s*self\.header\.version\s*=\s*HeaderVersion::SystemDict\(SystemDictVersion::Version2\)", su):
        hbad.append("set_user no longer selects UserDict V3 / SystemDict V2")
    out.append("Definition header_unrecognised : list string := [ %s ].\n" % "; ".join('"%s"' % x for x in hbad))
    # ---- the front ends that wrap compile in a BufWriter (command-line tool, Python functions): a BufWriter flushed by Drop
    # ignores I/O errors, so every function that compiles into one has to flush it and look at the result
    unflushed = []
    for rel in ("sudachi-cli/src/build.rs", "python/src/build.rs"):
        ft = F.strip_comments(F.src(rel))
        for mfn in re.finditer(r"\bfn\s+([a-z_0-9]+)", ft):
            try:
                body = F.fn_body(ft[mfn.start():], mfn.group(1), rel)
            except F.FactError:
                continue
            for mc in re.finditer(r"\.compile\(&mut\s+([a-z_]+)\)", body):
                w = mc.group(1)
                if not re.search(r"\bBufWriter\b", body):
                    continue
                if not re.search(r"\b%s\s*\.flush\(\)\s*(?:\.expect\(|\.unwrap\(\)|\?|\))" % re.escape(w), body[mc.end():]):
                    unflushed.append("%s:%s compiles into the BufWriter `%s` and does not flush it with a checked result" % (rel, mfn.group(1), w))
    out.append("(* functions of the front ends that compile into a BufWriter without a checked flush afterwards *)\nDefinition front_end_unflushed_writers : list string := [ %s ].\n" % "; ".join('"%s"' % x for x in sorted(set(unflushed))))
    # ---- index.rs: a lexicon without indexed entries
    rel = BUILD + "index.rs"
    t = no_tests(F.strip_comments(F.src(rel)))
    tb = F.fn_body(t, "build_trie", rel)
    if "DoubleArrayBuilder::build(&trie_entries)" not in tb:
        raise F.FactError("build_trie no longer calls DoubleArrayBuilder::build(&trie_entries)")
    m = re.search(r"if\s+trie_entries\.is_empty\(\)\s*\{\s*return\s+Err", tb)
    guarded = bool(m) and tb.index("trie_entries.is_empty()") < tb.index("DoubleArrayBuilder::build")
    out.append("(* yada's builder asserts on an empty key set *)\nDefinition empty_trie_is_error : bool := %s.\n" % ("true" if guarded else "false"))
    # ---- panic-site inventory of the anchored builder files
    rows = []
    for f in ("mod.rs", "lexicon.rs", "conn.rs", "parse.rs", "primitives.rs", "index.rs", "error.rs"):
        counts = {}
        for fn, kind in panic_sites(BUILD + f):
            counts[(fn, kind)] = counts.get((fn, kind), 0) + 1
        for (fn, kind), n in sorted(counts.items()):
            rows.append('("%s", "%s", "%s", %d%%N)' % (f, fn, kind, n))
    # private helpers: functions of a builder file that are not `pub`, defined once, and called from exactly one other
    # function of that file -- code moved into such a helper is still code of its caller (Model/Build.v counts its sites there
    # when the helper has no classification of its own)
    helpers = []
    for f in ("mod.rs", "lexicon.rs", "conn.rs", "parse.rs", "primitives.rs", "index.rs", "error.rs"):
        rel_f = BUILD + f
        tf = no_tests(F.strip_comments(F.src(rel_f)))
        tf = re.sub(r'"(?:[^"\\\\]|\\\\.)*"', '""', tf)
        defs = [(m.start(), m.group(1)) for m in re.finditer(r"\bfn\s+([A-Za-z_0-9]+)", tf)]
        for pos, name in defs:
            if [n for _, n in defs].count(name) != 1:
                continue
            line = tf[tf.rfind("\n", 0, pos) + 1:pos]
            if re.search(r"\bpub\b", line):
                continue
            callers = set()
            for c in re.finditer(r"(?<![\w])%s\(" % re.escape(name), tf):
                if c.start() == pos + tf[pos:].index(name):
                    continue
                owner = "<top>"
                for s0, n0 in defs:
                    if s0 <= c.start():
                        owner = n0
                callers.add(owner)
            callers.discard(name)
            if len(callers) == 1 and "<top>" not in callers:
                helpers.append('("%s", "%s", "%s")' % (f, name, callers.pop()))
    out.append("(* (file, private helper, its only caller) *)\nDefinition build_private_helpers : list (string * string * string) :=\n  [ %s ].\n" % ";\n    ".join(helpers))
    out.append("(* (file, fn, kind, how many) outside test modules *)\nDefinition build_panic_sites : list (string * string * string * N) :=\n  [ %s ].\n" % ";\n    ".join(rows))
    return "".join(out)
