import re
import sys
import facts as F


def gen():
    out = [F.HEADER]
    env = {}
    env["MAX_LENGTH"] = F.find_const("sudachi/src/input_text/buffer/mod.rs", "MAX_LENGTH")
    env["REALLY_MAX_LENGTH"] = F.find_const("sudachi/src/input_text/buffer/mod.rs", "REALLY_MAX_LENGTH")
    env["MAX_DICTIONARIES"] = F.find_const("sudachi/src/dic/lexicon/mod.rs", "MAX_DICTIONARIES")
    env["WORD_MASK"] = F.find_const("sudachi/src/dic/word_id.rs", "WORD_MASK")
    env["MAX_WORD"] = F.find_const("sudachi/src/dic/word_id.rs", "MAX_WORD")
    env["MAX_POS_IDS"] = F.find_const("sudachi/src/dic/build/mod.rs", "MAX_POS_IDS")
    env["MAX_DIC_STRING_LEN"] = F.find_const("sudachi/src/dic/build/mod.rs", "MAX_DIC_STRING_LEN", env)
    env["MAX_ARRAY_LEN"] = F.find_const("sudachi/src/dic/build/mod.rs", "MAX_ARRAY_LEN")
    env["DEFAULT_LIMIT"] = F.find_const("sudachi/src/sentence_detector.rs", "DEFAULT_LIMIT")
    env["LOOKUP_BYTE_LENGTH"] = F.find_const("sudachi/src/sentence_detector.rs", "LOOKUP_BYTE_LENGTH")
    env["INHIBITED_CONNECTION"] = F.find_const("sudachi/src/dic/grammar.rs", "INHIBITED_CONNECTION")
    for k, v in env.items():
        out.append("Definition %s : N := %s.\n" % (k, F.coq_int(v)))
    z = F.find_const("sudachi/src/dic/lexicon/mod.rs", "USER_DICT_COST_PER_MORPH")
    out.append("Definition USER_DICT_COST_PER_MORPH : Z := %s.\n" % F.coq_int(z, "Z"))
    # CreatedWords::MAX_VALUE / MAX_SHIFT
    t = F.src("sudachi/src/analysis/created.rs")
    m = re.search(r"const\s+MAX_VALUE\s*:\s*\w+\s*=\s*([^;]+);", t)
    if not m:
        raise F.FactError("CreatedWords::MAX_VALUE not found")
    out.append("Definition CREATED_MAX_VALUE : N := %s.\n" % F.coq_int(F.const_eval(m.group(1))))
    return "".join(out)
