import os
import re
import facts as F
import importlib.util

KINDS = [
    ("static_mut", r"\bstatic\s+mut\b"),
    ("lazy_static", r"\blazy_static!\s*\{"),
    ("static_ref", r"\bstatic\s+ref\b"),
    ("thread_local", r"\bthread_local!|\bThreadLocal\b"),
    ("refcell", r"\bRefCell\b"),
    ("cell", r"(?<![A-Za-z])Cell<|\bUnsafeCell\b"),
    ("atomic", r"\bAtomic[A-Z][A-Za-z0-9]*\b"),
    ("lock", r"\bMutex\b|\bRwLock\b"),
    ("once", r"\bOnceCell\b|\bGILOnceCell\b|\bOnceLock\b|\bOnce\b"),
    ("unsafe_impl_sync_send", r"\bunsafe\s+impl\s+(?:Sync|Send)\b"),
    ("set_or_update_on_dictionary", r"fn\s+(?:set_connect_cost|register_pos|set_character_category|merge|update_cost|update|append)\s*(?:<[^>]*>)?\s*\(\s*&mut\s+self"),
]


def _strip(text):
    ps = importlib.util.spec_from_file_location("factmod_PanicSites_h", os.path.join(os.path.dirname(os.path.abspath(__file__)), "PanicSites.py"))
    m = importlib.util.module_from_spec(ps)
    ps.loader.exec_module(m)
    t = F.strip_comments(text)
    t = m.strip_items(t, r"#\[cfg\(test\)\]")
    t = m.strip_items(t, r"#\[cfg\(feature\s*=\s*\"verif\"\)\]")
    return m.strip_strings(t)


def gen():
    out = [F.HEADER]
    out.append("(* shared / interior-mutable state in the library and the Python binding (tests and verif hooks excluded);\n   only files with at least one hit are listed *)\n")
    rows = []
    for top in ("sudachi/src", "python/src"):
        base = os.path.join(F.REPO, top)
        if not os.path.isdir(base):
            raise F.FactError("directory %s missing" % top)
        for d, _, fs in sorted(os.walk(base)):
            for f in sorted(fs):
                if not f.endswith(".rs") or f in ("test.rs", "tests.rs") or "/test" in d:
                    continue
                rel = os.path.relpath(os.path.join(d, f), F.REPO)
                t = _strip(F.src(rel))
                counts = [(n, len(re.findall(rx, t))) for n, rx in KINDS]
                if any(c for _, c in counts):
                    rows.append('("%s", [%s])' % (rel, "; ".join('("%s", %d%%N)' % (n, c) for n, c in counts if c)))
    if not rows:
        raise F.FactError("no source files scanned")
    out.append("Definition shared_state : list (string * list (string * N)) :=\n  [ %s ].\n" % ";\n    ".join(rows))
    # the accessors a tokenizer gets are shared references
    sl = F.strip_comments(F.src("sudachi/src/analysis/stateless_tokenizer.rs"))
    m = re.search(r"pub\s+trait\s+DictionaryAccess\s*\{(.*?)\n\}", sl, flags=re.S)
    if not m:
        raise F.FactError("trait DictionaryAccess not found")
    sigs = re.findall(r"fn\s+(\w+)\s*\(([^)]*)\)", m.group(1))
    bad = [n for n, a in sigs if "&mut" in a]
    out.append("Definition dictionary_access_takes_mut : bool := %s.\n" % ("true" if bad else "false"))
    out.append("Definition dictionary_access_methods : list string := [%s].\n" % "; ".join('"%s"' % n for n, _ in sigs))
    # the binding releases the GIL only around reset/push/do_tokenize of the tokenizer's own state
    pt = F.strip_comments(F.src("python/src/tokenizer.rs"))
    if not re.search(r"py\.allow_threads\(\|\|\s*\{\s*tokenizer\.reset\(\)\.push_str\(text\);\s*tokenizer\.do_tokenize\(\)\s*\}\)", pt):
        raise F.FactError("python tokenize: allow_threads block not recognised")
    out.append("Definition py_allow_threads_block : string := \"tokenizer.reset().push_str(text); tokenizer.do_tokenize()\".\n")
    return "".join(out)
