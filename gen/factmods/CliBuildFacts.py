"""Generated/CliBuildFacts.v: file handling of `sudachi build` / `sudachi ubuild` (sudachi-cli/src/build.rs).

What the core's guarantees about the built dictionary presuppose of the tool: the lexicon files are handed to the builder in
the order (and multiplicity) of the command line, and the output writer is flushed -- with the result of the flush checked --
before the tool reports success.  Helper functions of the same file are followed (their bodies are read in place of the
call), so that moving steps into a helper does not change a fact."""
import re
import facts as F

BUILD = "sudachi-cli/src/build.rs"
ID = r"[A-Za-z_]\w*"
REORDER = ("sort", "sort_unstable", "sort_by", "sort_by_key", "sort_unstable_by", "sort_unstable_by_key", "sort_by_cached_key",
           "dedup", "dedup_by", "dedup_by_key", "reverse", "rev", "retain", "retain_mut", "truncate", "drain", "pop", "remove",
           "swap", "swap_remove", "insert", "push", "extend", "append", "clear", "rotate_left", "rotate_right", "split_off",
           "skip", "take", "step_by", "filter", "filter_map", "chain", "resize", "unique", "sorted", "into_iter_sorted")


def q(s):
    return '"' + s.replace('"', '""') + '"'


def clist(xs):
    return "[" + "; ".join(q(x) for x in xs) + "]"


def _fns(text):
    return set(re.findall(r"\bfn\s+(%s)\b" % ID, text))


EVENTS = [
    ("read_conn", r"\.read_conn\("), ("read_lexicon", r"\.read_lexicon\("), ("resolve", r"\.resolve\(\)"),
    ("open_output", r"\boutput_file\s*\("), ("compile", r"\.compile\("), ("flush", r"\.flush\(\)"),
    ("report", r"\bprint_stats\s*\("),
]
LEAVES = ("output_file", "print_stats")


def _reach(text, name, fns, depth=0, seen=()):
    """names of the functions of the file reachable from fn `name` through calls (itself first)"""
    out = [name]
    if depth >= 3:
        return out
    body = F.fn_body(text, name, BUILD)
    for callee in re.findall(r"(?:\b|\.)(%s)\s*\(" % ID, body):
        if callee in fns and callee != name and callee not in seen and callee not in out and callee not in ("new", "from", "default"):
            for x in _reach(text, callee, fns, depth + 1, seen + (name,)):
                if x not in out:
                    out.append(x)
    return out


def _steps(text, name, fns, depth=0, seen=()):
    """the order of the builder / writer events of fn `name`; a call of another function of the file (except the leaves
    output_file / print_stats, which are events themselves) contributes that function's events in place"""
    body = F.fn_body(text, name, BUILD)
    ev = []
    for ename, p in EVENTS:
        for m in re.finditer(p, body):
            ev.append((m.start(), ename, m))
    if depth < 3:
        for m in re.finditer(r"(?:\b|\.)(%s)\s*\(" % ID, body):
            c = m.group(1)
            if c in fns and c != name and c not in seen and c not in LEAVES and c not in ("new", "from", "default"):
                ev.append((m.start(), "call", c))
    ev.sort(key=lambda x: x[0])
    out = []
    for pos, ename, m in ev:
        if ename == "call":
            sub = _steps(text, m, fns, depth + 1, seen + (name,))
        elif ename == "flush":
            # is the outcome looked at?  `.flush().expect(..)`, `.flush().unwrap()`, `.flush()?`
            tail = body[m.end():m.end() + 40]
            checked = re.match(r"\s*(?:\.expect\(|\.unwrap\(\)|\?|\.unwrap_or_else\(\s*\|[^|]*\|\s*panic!)", tail) is not None
            stmt_start = max(body.rfind(";", 0, pos), body.rfind("{", 0, pos), body.rfind("}", 0, pos))
            ignored = re.match(r"\s*let\s+_\s*=", body[stmt_start + 1:pos]) is not None
            # `if let Err(e) = w.flush() { panic!(..) }` / `match w.flush() { .. Err(e) => panic!(..) .. }`: looked at as well
            before = body[stmt_start + 1:pos]
            if not checked and re.match(r"\s*(?:if\s+let\s+Err\s*\([^)]*\)\s*=|match)\s*[\w.]*$", before):
                blk = re.match(r"\s*\{", tail)
                if blk:
                    d, k = 0, m.end() + blk.end() - 1
                    for k in range(m.end() + blk.end() - 1, len(body)):
                        d += body[k] == "{"
                        d -= body[k] == "}"
                        if d == 0:
                            break
                    inner = body[m.end():k]
                    if before.lstrip().startswith("if"):
                        checked = re.search(r"\bpanic!|\breturn\s+Err\b|process::exit\(|\bunreachable!", inner) is not None
                    else:
                        checked = re.search(r"Err\s*\([^)]*\)\s*=>\s*\{?\s*(?:panic!|return\s+Err\b|std::process::exit\(|process::exit\()", inner) is not None
            sub = ["flush_checked" if (checked and not ignored) else "flush_unchecked"]
        else:
            sub = [ename]
        for x in sub:
            if out and out[-1] == x and x == "read_lexicon":
                continue
            out.append(x)
    return out


def _inputs(body, what):
    """how the lexicon paths reach read_lexicon: the `for` loop around the call"""
    body = re.sub(r"\s*\n\s*\.", ".", body)
    # a `for` loop, or the same traversal as `<inputs>.for_each(|path| { .. })` (front to back, every element once)
    loops = list(re.finditer(r"\bfor\s+(%s)\s+in\s+([^{]+?)\s*\{" % ID, body))
    loops += list(re.finditer(r"(?<![\w.])()((?:&\s*)?%s(?:\.%s|\.iter\(\))*)\.for_each\(\s*(?:move\s*)?\|\s*(%s)\s*\|\s*\{" % (ID, ID, ID), body))
    for lp in loops:
        var = lp.group(1) or lp.group(3)
        seg = body[lp.end():]
        d, i = 1, 0
        while i < len(seg) and d:
            d += seg[i] == "{"
            d -= seg[i] == "}"
            i += 1
        blk = seg[:i]
        m = re.search(r"\.read_lexicon\(\s*([^()]*(?:\(\))?)\s*\)", blk)
        if m:
            arg = re.sub(r"\s+", "", m.group(1))
            uses_var = re.fullmatch(r"&?%s(?:\.as_path\(\)|\.as_ref\(\))?" % re.escape(var), arg) is not None
            return re.sub(r"\s+", "", lp.group(2)), uses_var
    raise F.FactError("%s: no `for <path> in <inputs> { .. read_lexicon(<path>) .. }` loop" % what)


def _split_args(s):
    out, d, cur = [], 0, ""
    for c in s:
        if c in "([{<":
            d += 1
        elif c in ")]}>":
            d -= 1
        if c == "," and d == 0:
            out.append(cur.strip())
            cur = ""
        else:
            cur += c
    if cur.strip():
        out.append(cur.strip())
    return out


def _through_parameter(text, helper, expr, reach):
    """the loop sits in a helper and iterates one of its (shared-reference) parameters: the expression the caller passes"""
    m = re.fullmatch(r"&?(%s)(\.iter\(\))?" % ID, expr)
    sig = re.search(r"\bfn\s+%s\s*(?:<[^>{;]*>)?\s*\(([^{;]*?)\)\s*(?:->[^{;]*)?(?:where[^{;]*)?\{" % re.escape(helper), text, flags=re.S)
    if not m or not sig:
        return expr
    params = [p for p in _split_args(sig.group(1)) if not re.fullmatch(r"&?\s*(?:'\w+\s+)?(?:mut\s+)?self", p)]
    idx = [k for k, p in enumerate(params) if re.match(r"%s\s*:\s*&(?!\s*mut\b)" % re.escape(m.group(1)), p)]
    if len(idx) != 1 or len(re.findall(r"\b%s\b" % re.escape(m.group(1)), F.fn_body(text, helper, BUILD))) != 1:
        return expr
    calls = []
    for f in reach:
        if f == helper:
            continue
        for c in re.finditer(r"(?<![\w])%s\s*\(" % re.escape(helper), F.fn_body(text, f, BUILD)):
            b = F.fn_body(text, f, BUILD)
            e = F._close(b, c.end() - 1)
            if e > 0:
                calls.append(_split_args(b[c.end():e - 1]))
    if len(calls) != 1 or len(calls[0]) != len(params):
        return expr
    arg = re.sub(r"\s+", "", calls[0][idx[0]])
    if not re.fullmatch(r"&(%s(?:\.%s)*)" % (ID, ID), arg):
        return expr
    return arg[1:] + ".iter()" if m.group(2) else arg


def gen():
    t = F.strip_comments(F.src(BUILD))
    fns = _fns(t)
    out = [F.HEADER]
    out.append("(* %s: per sub-command (helpers of the file read in place): the expression the lexicon paths are iterated from, whether the\n   loop variable itself is what read_lexicon gets, the other mentions of the input list, the order of the builder / writer events *)\n" % BUILD)
    m = re.search(r"struct\s+BuildCmd\s*\{(.*?)\n\}", t, flags=re.S)
    if not m or not re.search(r"\binputs\s*:\s*Vec<PathBuf>", m.group(1)):
        raise F.FactError("struct BuildCmd { inputs: Vec<PathBuf> } not found")
    for fn_, tag in (("build_system", "system"), ("build_user", "user")):
        reach = _reach(t, fn_, fns)
        found = None
        for f in reach:
            try:
                found = _inputs(F.fn_body(t, f, BUILD), f)
                break
            except F.FactError:
                continue
        if found is None:
            raise F.FactError("%s: no `for <path> in <inputs> { .. read_lexicon(<path>) .. }` loop" % fn_)
        src_expr, direct = found
        src_expr = _through_parameter(t, f, src_expr, reach)
        mref = re.fullmatch(r"&(%s(?:\.%s)*)" % (ID, ID), src_expr)
        if mref:
            src_expr = mref.group(1) + ".iter()"  # `for x in &v` is `for x in v.iter()`
        mentions = sum(len(re.findall(r"\binputs\b", F.fn_body(t, f, BUILD))) for f in reach)
        out.append("Definition %s_inputs_from : string := %s.\nDefinition %s_path_is_loop_variable : bool := %s.\nDefinition %s_inputs_mentions : N := %s.\n" %
                   (tag, q(src_expr), tag, "true" if direct else "false", tag, F.coq_int(mentions)))
        out.append("Definition %s_steps : list string := %s.\n" % (tag, clist(_steps(t, fn_, fns))))
    # calls anywhere in the file that reorder, drop or add elements of a sequence (none today)
    calls = sorted(set(x for x in re.findall(r"\.\s*(%s)\s*\(" % ID, t) if x in REORDER))
    out.append("(* method calls anywhere in the file that reorder / drop / add elements of a sequence *)\nDefinition reordering_calls : list string := %s.\n" % clist(calls))
    return "".join(out)
