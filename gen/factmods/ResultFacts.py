"""How an analysis result leaves StatefulTokenizer (C08 / C01: every delivered morpheme belongs to the text it is delivered
for): what reset does to the recycled top_path vector, how resolve_best_path / do_tokenize fill and store it, what
swap_result / collect_results / into_morpheme_list hand over.  -> coq/Generated/ResultFacts.v, consumed by Model/TokResult.v"""
import re
import facts as F

TOK = "sudachi/src/analysis/stateful_tokenizer.rs"
MLIST = "sudachi/src/analysis/mlist.rs"


def sq(s):
    return re.sub(r"\s+", " ", s).strip()


def gen():
    out = [F.HEADER]
    t = F.strip_comments(F.src(TOK))
    # ---- reset: the recycled vector
    b = sq(F.fn_body(t, "reset", TOK))
    if re.search(r"match self\.top_path\.as_mut\(\) \{ Some\((\w+)\) => \1\.clear\(\), None => self\.top_path = Some\(Vec::new\(\)\),? \}", b) \
            or re.search(r"self\.top_path = Some\(Vec::new\(\)\);", b) and not re.search(r"\bif\b|\bmatch\b", b):
        kind = "clear_or_recreate"
    elif re.search(r"if self\.top_path\.is_none\(\) \{ self\.top_path = Some\(Vec::new\(\)\); \}", b) and "clear()" not in b.replace("self.oov.clear()", ""):
        kind = "keep_or_recreate"
    elif re.search(r"if let Some\((\w+)\) = self\.top_path\.as_mut\(\) \{ \1\.clear\(\); \}", b) or re.search(r"self\.top_path\.as_mut\(\)\.map\(\|(\w+)\| \1\.clear\(\)\);", b):
        kind = "clear_if_some"
    else:
        raise F.FactError("reset: treatment of top_path not recognised")
    if not re.search(r"self\.oov\.clear\(\); self\.input\.reset\(\)", b):
        raise F.FactError("reset: oov.clear(); input.reset() not recognised")
    out.append("(* StatefulTokenizer::reset and the recycled result vector: clear_or_recreate | keep_or_recreate | clear_if_some *)\n")
    out.append('Definition reset_top_path : string := "%s".\n' % kind)
    # ---- resolve_best_path: takes the vector out of top_path and pushes the nodes of this analysis onto it
    b = sq(F.fn_body(t, "resolve_best_path", TOK))
    # the vector is TAKEN out of top_path (which becomes None) and an empty one is used when there was none:
    #   std::mem::replace(&mut self.top_path, None) | std::mem::take(&mut self.top_path) | self.top_path.take()
    #   followed by  .unwrap_or_else(|| Vec::new()) | .unwrap_or_else(Vec::new) | .unwrap_or_default() | .unwrap_or(Vec::new())
    taken = r"(?:std::mem::replace\(&mut self\.top_path, None\)|std::mem::take\(&mut self\.top_path\)|self\.top_path\.take\(\))"
    empty = r"(?:\.unwrap_or_else\(\|\| Vec::new\(\)\)|\.unwrap_or_else\(Vec::new\)|\.unwrap_or_default\(\)|\.unwrap_or\(Vec::new\(\)\))"
    m = re.search(r"let mut (\w+) = " + taken + empty + ";", b)
    if m:
        src = "taken_and_extended"
    else:
        m = re.search(r"let mut (\w+) = Vec::(?:new\(\)|with_capacity\([^)]*\));", b)
        if not m:
            raise F.FactError("resolve_best_path: origin of the path vector not recognised")
        src = "fresh"
    v = m.group(1)
    if len(re.findall(r"\b%s\.push\(ResultNode::new\(" % v, b)) != 1 or not re.search(r"Ok\(%s\) ?$" % v, b) \
            or re.search(r"\b%s\.(extend|append|insert|clear|truncate|pop|remove|drain|retain)" % v, b) or len(re.findall(r"self\.top_path\b(?!_)", b)) > 1:
        raise F.FactError("resolve_best_path: one push per node and Ok(path) not recognised")
    out.append("(* resolve_best_path: where the vector the nodes are pushed onto comes from: taken_and_extended | fresh *)\n")
    out.append('Definition resolve_path_vector : string := "%s".\n' % src)
    # ---- do_tokenize: empty normalised text returns before anything touches top_path; the finished path is ASSIGNED
    b = sq(F.fn_body(t, "do_tokenize", TOK))
    m_empty = re.search(r"if self\.input\.current\(\)\.is_empty\(\) \{ return Ok\(\(\)\); \}", b)
    m_res = re.search(r"let mut path = self\.resolve_best_path\(\)\?;", b)
    m_store = re.search(r"self\.top_path = Some\(path\); Ok\(\(\)\) ?$", b)
    if not (m_empty and m_res and m_store and m_empty.start() < m_res.start() < m_store.start()):
        raise F.FactError("do_tokenize: early return on empty text / resolve_best_path / top_path = Some(path) not recognised")
    if len(re.findall(r"self\.top_path", b)) != 1:
        raise F.FactError("do_tokenize: top_path is touched elsewhere")
    out.append('Definition do_tokenize_stores : string := "assign".\n')
    # ---- swap_result
    b = sq(F.fn_body(t, "swap_result", TOK))
    if re.fullmatch(r"std::mem::swap\(&mut self\.input, input\); std::mem::swap\(self\.top_path\.as_mut\(\)\.unwrap\(\), result\); \*subset = self\.subset;", b):
        sw = "swap"
    elif re.fullmatch(r"std::mem::swap\(&mut self\.input, input\); let (\w+) = self\.top_path\.as_mut\(\)\.unwrap\(\); std::mem::swap\(\1, result\); \1\.clear\(\); \*subset = self\.subset;", b):
        sw = "swap_then_clear_received"
    else:
        raise F.FactError("swap_result: body not recognised")
    out.append("(* swap_result: swap | swap_then_clear_received *)\n")
    out.append('Definition swap_result_shape : string := "%s".\n' % sw)
    # ---- into_morpheme_list
    b = sq(F.fn_body(t, "into_morpheme_list", TOK))
    if not re.fullmatch(r"match self\.top_path \{ None => Err\(SudachiError::EosBosDisconnect\), Some\((\w+)\) => Ok\(MorphemeList::from_components\( ?self\.dictionary, self\.input, \1, self\.subset,? ?\)\),? \}", b):
        raise F.FactError("into_morpheme_list: body not recognised")
    out.append('Definition into_list_shape : string := "moves_top_path_and_input".\n')
    # ---- MorphemeList::collect_results = swap_result with the list's own parts
    ml = F.strip_comments(F.src(MLIST))
    b = sq(F.fn_body(ml, "collect_results", MLIST))
    # the parts handed to swap_result are the list's own: X.input / X.subset of the InputPart borrowed from self.input
    # (match on try_borrow_mut() or `.map_err(..)?`), and the list's own node vector
    m = re.search(r"analyzer\.swap_result\( ?&mut (\w+)\.input, &mut self\.nodes\.mut_data\(\), &mut (\w+)\.subset,? ?\);", b)
    if not m or m.group(1) != m.group(2):
        raise F.FactError("collect_results: call of swap_result not recognised")
    part = m.group(1)
    m = re.search(r"let (?:mut )?%s = (\w+)\.deref_mut\(\);" % part, b)
    if not m:
        raise F.FactError("collect_results: the swapped parts are not a deref_mut of the borrowed InputPart")
    guard = m.group(1)
    if not (re.search(r"match self\.input\.try_borrow_mut\(\) \{ Ok\(mut %s\) =>" % guard, b)
            or re.search(r"let mut %s = self\.input\.try_borrow_mut\(\)\.map_err\([^;]*\)\?;" % guard, b)
            or re.search(r"if let Ok\(mut %s\) = self\.input\.try_borrow_mut\(\)" % guard, b)
            or re.search(r"let mut %s = self\.input\.borrow_mut\(\);" % guard, b)):
        raise F.FactError("collect_results: the InputPart is not borrowed from self.input")
    if len(re.findall(r"swap_result", b)) != 1:
        raise F.FactError("collect_results: more than one swap_result")
    out.append("Definition collect_is_swap_with_own_parts : bool := true.\n")
    return "".join(out)
