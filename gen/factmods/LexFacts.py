"""Generated/LexFacts.v: word-id stamping, lexicon order, capacity guard, POS rebasing and split re-stamping
(dic/word_id.rs, dic/lexicon_set.rs, dic/lexicon/mod.rs, dic/dictionary.rs, dic/build/*)."""
import re
import facts as F


def _norm(s):
    return re.sub(r"\s+", "", s)


def _inline_simple_lets(body, keep=()):
    """immutable `let name = expr;` whose expr is a plain cast / arithmetic / field / index expression (no call, no `?`, no
    block, no borrow) is replaced by its defining expression at its uses (in parentheses when it has an operator): such an
    expression is pure and reads only immutable locals and fields of `&self`, so the text means the same.  Names in `keep` (the
    ones the patterns below spell) and every `let mut` stay."""
    b = body
    for _ in range(8):
        done = True
        for lm in re.finditer(r"\blet\s+(\w+)\s*(?::\s*[\w:<>]+\s*)?=\s*([^;{}()?&]+);", b):
            name, expr = lm.group(1), lm.group(2).strip()
            if name in keep or not re.fullmatch(r"[\w\s.\[\]+\-*]+", expr) or re.search(r"\blet\s+mut\s+%s\b" % re.escape(name), b):
                continue
            rest = b[lm.end():]
            if re.search(r"(?<![A-Za-z0-9_.])%s\s*(?:[-+*/^|&]?=)(?!=)" % re.escape(name), rest):
                continue    # assigned to later: not a plain binding
            rep_ = "(%s)" % expr if re.search(r"[+\-*]", expr) else expr
            b = b[:lm.start()] + re.sub(r"(?<![A-Za-z0-9_.:])%s(?![A-Za-z0-9_])" % re.escape(name), lambda _m: rep_, rest)
            done = False
            break
        if done:
            break
    return b


def _loops_over_parts(co):
    """the loop that folds the word ids runs over path[begin..end] (written with .iter(), as a borrow, or through a binding)"""
    m = re.search(r"for(\w+)in([^{};]*)\{[^{}]*wid=wid\.max\(\1\.word_id\(\)\);", co)
    if not m:
        return False
    src = m.group(2)
    if src in ("path[begin..end].iter()", "&path[begin..end]"):
        return True
    return re.search(r"let%s=&path\[begin\.\.end\];" % re.escape(src.lstrip("&")), co) is not None


def gen():
    out = [F.HEADER]
    # ---- WordId::new / dic / word
    w = F.strip_comments(F.src("sudachi/src/dic/word_id.rs"))
    nb = _norm(F.fn_body(w, "new", "word_id.rs"))
    m = re.search(r"letdic_part=\(\(dic&(0x[0-9a-fA-F]+|\d+)\)asu32\)<<(\d+);letword_part=word&WORD_MASK;"
                  r"(?:let(\w+)=dic_part\|word_part;(?:return)?Self::from_raw\(\3\);?|(?:return)?Self::from_raw\(dic_part\|word_part\);?)$", nb)
    if not m:
        raise F.FactError("WordId::new is no longer `((dic & m) << s) | (word & WORD_MASK)`")
    out.append("Definition DIC_MASK : N := %s.\nDefinition DIC_SHIFT : N := %s.\n" % (F.coq_int(int(m.group(1), 0)), F.coq_int(int(m.group(2)))))
    dbg = sorted(set(re.findall(r"debug_assert_eq!\((.*?),0\);", nb)))
    if dbg != ["dic&(!0xf)", "word&(!WORD_MASK)"]:
        raise F.FactError("WordId::new debug assertions changed: %r" % dbg)
    db = _norm(F.fn_body(w, "dic", "word_id.rs"))
    m = re.fullmatch(r"return\(self\.raw>>(\d+)\)asu8;", db)
    if not m:
        raise F.FactError("WordId::dic is no longer `(raw >> s) as u8`")
    out.append("Definition DIC_SHIFT_READ : N := %s.\n" % F.coq_int(int(m.group(1))))
    wb = _norm(F.fn_body(w, "word", "word_id.rs"))
    if wb != "returnself.raw&WORD_MASK;":
        raise F.FactError("WordId::word is no longer `raw & WORD_MASK`")
    ob = _norm(F.fn_body(w, "oov", "word_id.rs"))
    m = re.fullmatch(r"Self::new\((0x[0-9a-fA-F]+|\d+),pos_id\)", ob)
    if not m:
        raise F.FactError("WordId::oov is no longer `Self::new(c, pos_id)`")
    out.append("Definition OOV_DIC : N := %s.\n" % F.coq_int(int(m.group(1), 0)))
    cb = _norm(F.fn_body(w, "checked", "word_id.rs"))
    if "ifdic&!0xf!=0{returnErr(" not in cb or "ifword&!WORD_MASK!=0{returnErr(" not in cb:
        raise F.FactError("WordId::checked guards changed")

    # ---- LexiconSet
    ls = F.strip_comments(F.src("sudachi/src/dic/lexicon_set.rs"))
    fb = _norm(F.fn_body(ls, "is_full", "lexicon_set.rs"))
    m = re.fullmatch(r"self\.lexicons\.len\(\)(>=|>|==|<=|<)MAX_DICTIONARIES", fb)
    if not m:
        raise F.FactError("LexiconSet::is_full is no longer `lexicons.len() <cmp> MAX_DICTIONARIES`")
    out.append('Definition is_full_cmp : string := "%s".\n' % m.group(1))
    ab = _norm(F.fn_body(ls, "append", "lexicon_set.rs"))
    if not ab.startswith("ifself.is_full(){returnErr(LexiconSetError::TooManyDictionaries);}lexicon.set_dic_id(self.lexicons.len()asu8);self.lexicons.push(lexicon);self.pos_offsets.push(pos_offset);"):
        raise F.FactError("LexiconSet::append no longer `full -> Err; id := len; push lexicon; push pos_offset`")
    nb = _norm(F.fn_body(ls, "new", "lexicon_set.rs"))
    if "system_lexicon.set_dic_id(0);" not in nb or "lexicons:vec![system_lexicon],pos_offsets:vec![0],num_system_pos," not in nb:
        raise F.FactError("LexiconSet::new changed shape")
    lb = _norm(F.fn_body(ls, "lookup", "lexicon_set.rs"))
    m = re.fullmatch(r"self\.lexicons\.iter\(\)(\.rev\(\))?\.flat_map\(move\|l\|l\.lookup\(input,offset\)\)", lb)
    if not m:
        raise F.FactError("LexiconSet::lookup is no longer `lexicons.iter()[.rev()].flat_map(lookup)`")
    out.append("Definition lookup_reversed : bool := %s.\n" % ("true" if m.group(1) else "false"))
    gb = _norm(_inline_simple_lets(F.fn_body(ls, "get_word_info_subset", "lexicon_set.rs"), keep=("pos_id", "dict_id", "word_info")))
    m = re.search(r"ifdict_id(>=|>|!=)(\d+)&&pos_id(>=|>)self\.num_system_pos\{word_info\.pos_id=\(pos_id(?:asusize)?-self\.num_system_pos\+self\.pos_offsets\[dict_idasusize\]\)asu16;\}", gb)
    if not m:
        # the same rule in a private helper: `word_info.pos_id = self.helper(word_info.pos_id, dict_id)` under the POS_ID test,
        # helper(raw, dict_id) = if dict_id > 0 && raw >= num_system_pos { raw - num_system_pos + pos_offsets[dict_id] } else { raw }
        hc = re.search(r"ifsubset\.contains\(InfoSubset::POS_ID\)\{word_info\.pos_id=self\.(\w+)\((word_info\.pos_id,dict_id|dict_id,word_info\.pos_id)\);\}", gb)
        if hc and not re.search(r"\bpub(?:\([a-z]+\))?\s+fn\s+%s\b" % hc.group(1), ls):
            sig = re.search(r"\bfn\s+%s\s*\(\s*&self\s*,\s*(\w+)\s*:\s*(u16|u8)\s*,\s*(\w+)\s*:\s*(u16|u8)\s*\)\s*->\s*u16" % hc.group(1), ls)
            if sig and {sig.group(2), sig.group(4)} == {"u16", "u8"}:
                raw = sig.group(1) if sig.group(2) == "u16" else sig.group(3)
                dic = sig.group(1) if sig.group(2) == "u8" else sig.group(3)
                raw_first = sig.group(2) == "u16"
                # the call passes the stored POS id where the helper takes the u16 and the dictionary number where it takes the u8
                if dic == "dict_id" and raw_first == hc.group(2).startswith("word_info"):
                    hb = _norm(F.fn_body(ls, hc.group(1), "lexicon_set.rs"))
                    rule = r"\(pos_id(?:asusize)?-self\.num_system_pos\+self\.pos_offsets\[dict_idasusize\]\)asu16"
                    m = re.fullmatch(r"letpos_id=%sasusize;ifdict_id(>=|>|!=)(\d+)&&pos_id(>=|>)self\.num_system_pos\{%s\}else\{%s\}" % (raw, rule, raw), hb)
                    if not m:
                        # guard clause: the NEGATED test returns the id unchanged.  dict_id is a u8 (signature), so
                        # `dict_id == 0` negates to `dict_id > 0`; `pos_id < n` negates to `pos_id >= n`
                        mi = re.fullmatch(r"letpos_id=%sasusize;ifdict_id==0\|\|pos_id<self\.num_system_pos\{return%s;\}%s" % (raw, raw, rule), hb)
                        if mi:
                            m = re.fullmatch(r"(>)(0)(>=)", ">0>=")
    if not m:
        raise F.FactError("POS rebasing in get_word_info_subset is no longer `dict_id > 0 && pos_id >= num_system_pos => pos_id - num_system_pos + pos_offsets[dict_id]`")
    out.append('Definition rebase_dic_cmp : string := "%s".\nDefinition rebase_dic_rhs : N := %s.\nDefinition rebase_pos_cmp : string := "%s".\n' %
               (m.group(1), F.coq_int(int(m.group(2))), m.group(3)))
    for fld in ("a_unit_split", "b_unit_split", "word_structure"):
        if "Self::update_dict_id(&mutword_info.%s,dict_id)?;" % fld not in gb:
            raise F.FactError("get_word_info_subset no longer re-stamps %s" % fld)
    ubs = F.fn_body(ls, "update_dict_id", "lexicon_set.rs")
    lv = re.search(r"\bfor\s+(\w+)\s+in\s+split\.iter_mut\(\)", ubs)
    if lv and lv.group(1) != "id" and not re.search(r"(?<![A-Za-z0-9_])id(?![A-Za-z0-9_])", ubs):
        # the loop variable's name is free (a consistent renaming to a name that does not occur in the function)
        ubs = re.sub(r"(?<![A-Za-z0-9_.])%s(?![A-Za-z0-9_])" % re.escape(lv.group(1)), "id", ubs)
    ub = _norm(ubs)
    m = re.search(r"letcur_dict_id=id\.dic\(\);ifcur_dict_id(>=|>|!=)(\d+)\{\*id=WordId::checked\(dict_id,id\.word\(\)\)\?;\}", ub)
    if not m:
        m = re.search(r"foridinsplit\.iter_mut\(\)\{ifid\.dic\(\)(>=|>|!=)(\d+)\{\*id=WordId::checked\(dict_id,id\.word\(\)\)\?;\}\}", ub)
    if not m and re.search(r"foridinsplit\.iter_mut\(\)\{(?:let(\w+)=id\.dic\(\);if\1|ifid\.dic\(\))==0\{continue;\}\*id=WordId::checked\(dict_id,id\.word\(\)\)\?;\}", ub) \
            and re.fullmatch(r"return\(self\.raw>>(\d+)\)asu8;?|\(self\.raw>>(\d+)\)asu8", db):
        # guard clause `if id.dic() == 0 { continue; }`: WordId::dic returns a u8, so the words re-stamped are those with dic() > 0
        m = re.fullmatch(r"(>)(0)", ">0")
    if not m:
        raise F.FactError("update_dict_id is no longer `if id.dic() > 0 { id = checked(dict_id, id.word()) }`")
    out.append('Definition restamp_cmp : string := "%s".\nDefinition restamp_rhs : N := %s.\n' % (m.group(1), F.coq_int(int(m.group(2)))))

    # ---- Lexicon::lookup stamps with its own lex_id
    lx = F.strip_comments(F.src("sudachi/src/dic/lexicon/mod.rs"))
    lkb = _norm(F.fn_body(lx, "lookup", "lexicon/mod.rs"))
    if "self.trie.common_prefix_iterator(input,offset).flat_map(move|e|{self.word_id_table.entries(e.valueasusize).map(move|wid|LexiconEntry::new(self.word_id(wid),e.end))})" not in lkb:
        raise F.FactError("Lexicon::lookup is no longer `trie entries -> table entries -> (word_id(wid), end)`")
    if _norm(F.fn_body(lx, "word_id", "lexicon/mod.rs")) != "returnWordId::new(self.lex_id,raw_id);":
        raise F.FactError("Lexicon::word_id is no longer WordId::new(lex_id, raw)")

    # ---- merge order in JapaneseDictionary
    d = F.strip_comments(F.src("sudachi/src/dic/dictionary.rs"))
    mb = _norm(F.fn_body(d, "merge_user_dictionary", "dictionary.rs"))
    i1 = mb.find("self._lexicon.append(user_lexicon,self._grammar.pos_list.len())?;")
    i2 = mb.find("self._grammar.merge(g);")
    if i1 < 0 or i2 < 0 or i1 > i2:
        raise F.FactError("merge_user_dictionary no longer appends the lexicon with the current POS count before merging the grammar")
    fb = _norm(F.fn_body(d, "from_cfg_storage", "dictionary.rs"))
    i1 = fb.find("Plugins::load(cfg,grammar)?")
    i2 = fb.find("dic.merge_user_dictionary(udic)?")
    if i1 < 0 or i2 < 0 or i1 > i2:
        raise F.FactError("from_cfg_storage no longer loads plugins before merging user dictionaries")
    g = F.strip_comments(F.src("sudachi/src/dic/grammar.rs"))
    if _norm(F.fn_body(g, "merge", "grammar.rs")) != "self.pos_list.extend(other.pos_list);":
        raise F.FactError("Grammar::merge is no longer pos_list.extend")
    out.append('Definition merge_order : string := "plugins;per-user:(append(len pos_list);extend pos_list)".\n')

    # ---- builder: which rows are indexed, ids given to rows
    bl = F.strip_comments(F.src("sudachi/src/dic/build/lexicon.rs"))
    m = re.fullmatch(r"self\.left_id(>=|>)(\d+)", _norm(F.fn_body(bl, "should_index", "build/lexicon.rs")))
    if not m:
        raise F.FactError("should_index is no longer `left_id >= 0`")
    out.append('Definition should_index_cmp : string := "%s".\nDefinition should_index_rhs : Z := %s.\n' % (m.group(1), F.coq_int(int(m.group(2)), "Z")))
    bm = F.strip_comments(F.src("sudachi/src/dic/build/mod.rs"))
    wi = _norm(F.fn_body(bm, "write_index", "build/mod.rs"))
    if "for(i,e)inself.lexicon.entries().iter().enumerate(){ife.should_index(){letwid=WordId::checked(0,iasu32)?;index.add(e.surface(),wid);}}" not in wi:
        raise F.FactError("write_index no longer adds (surface, row number) of every should_index row")
    # ---- user-dictionary builder: which POS are preloaded (numbering base of the user POS ids)
    pb = _norm(F.fn_body(bl, "preload_pos", "build/lexicon.rs"))
    if "for(i,pos)ingrammar.pos_list.iter().enumerate(){" in pb:
        sys_only = False
    elif "for(i,pos)ingrammar.pos_list.iter().take(num_system_pos).enumerate(){" in pb:
        nu = _norm(F.fn_body(bm, "new_user", "build/mod.rs"))
        if "bldr.lexicon.preload_pos(system.grammar(),system.lexicon().num_system_pos());" not in nu:
            raise F.FactError("new_user no longer passes the system dictionary's POS count to preload_pos")
        if _norm(F.fn_body(ls, "num_system_pos", "lexicon_set.rs")) != "self.num_system_pos":
            raise F.FactError("LexiconSet::num_system_pos is no longer the stored field")
        sys_only = True
    else:
        raise F.FactError("preload_pos no longer iterates grammar.pos_list[.take(num_system_pos)]")
    if "self.start_pos=self.pos.len();" not in pb:
        raise F.FactError("preload_pos no longer sets start_pos to the number of preloaded POS")
    out.append("Definition preload_system_only : bool := %s.\n" % ("true" if sys_only else "false"))
    wp = _norm(F.fn_body(bl, "write_pos_table", "build/lexicon.rs"))
    if "if(*pos_idasusize)<self.start_pos{continue;}" not in wp:
        raise F.FactError("write_pos_table no longer writes exactly the POS with id >= start_pos")
    po = _norm(bl)
    if "fnpos_of(&mutself,data:[Cow<str>;POS_DEPTH])->DicWriteResult<u16>{matchself.pos.get(&data){Some(pos)=>Ok(*pos),None=>{letkey=StrPosEntry::new(data);letpos_id=self.pos.len();" not in po:
        raise F.FactError("pos_of is no longer `existing id or next id`")
    # references of a user dictionary are resolved / validated against the system dictionary only
    rs = _norm(F.strip_comments(F.src("sudachi/src/dic/build/resolve.rs")))
    nu2 = _norm(F.fn_body(bm, "new_user", "build/mod.rs"))
    sys_refs = ("letlex=dict.lexicon();letsize=lex.num_system_words();" in rs
                and "set_num_system_words(system.lexicon().num_system_words()asusize);" in nu2
                and "fnnum_system_words(&self)->u32{self.lexicons[0].size()}" in _norm(ls))
    out.append("Definition refs_against_system_only : bool := %s.\n" % ("true" if sys_refs else "false"))
    # ---- tokens made by path rewrite plugins: which word id (dictionary number / OOV) they carry
    nd = F.strip_comments(F.src("sudachi/src/analysis/node.rs"))
    co = _norm(F.fn_body(nd, "concat_oov_nodes", "analysis/node.rs"))
    if "letmutwid=WordId::from_raw(0);" in co and re.search(r"wid=wid\.max\(\w+\.word_id\(\)\);", co) \
            and "if!wid.is_oov(){wid=WordId::new(wid.dic(),WordId::MAX_WORD);}" in co \
            and re.search(r"Node::new\([^;{}]*?asu16,[^;{}]*?asu16,u16::MAX,u16::MAX,i16::MAX,wid,?\)", co) \
            and _loops_over_parts(co):
        out.append('Definition join_oov_wid_rule : string := "max-of-parts;non-oov->(dic,MAX_WORD)".\n')
    else:
        raise F.FactError("concat_oov_nodes no longer gives the joined node `max over the parts' word ids, (dic, MAX_WORD) when that is not OOV`")
    cn = _norm(F.fn_body(nd, "concat_nodes", "analysis/node.rs"))
    if not re.search(r"Node::new\([^;{}]*?asu16,[^;{}]*?asu16,u16::MAX,u16::MAX,i16::MAX,WordId::INVALID,?\)", cn):
        raise F.FactError("concat_nodes no longer gives the joined node WordId::INVALID")
    if "pubconstINVALID:WordId=WordId::from_raw(0xffff_ffff);" not in _norm(w):
        raise F.FactError("WordId::INVALID is no longer 0xffff_ffff")
    out.append("Definition JOINED_INVALID : N := %s.\n" % F.coq_int(0xffffffff))
    # ---- each reference list is re-stamped whenever IT was requested (not only when all three were)
    for flag, fld in (("SPLIT_A", "a_unit_split"), ("SPLIT_B", "b_unit_split"), ("WORD_STRUCTURE", "word_structure")):
        if "ifsubset.contains(InfoSubset::%s){Self::update_dict_id(&mutword_info.%s,dict_id)?;}" % (flag, fld) not in gb:
            raise F.FactError("get_word_info_subset no longer re-stamps %s under its own `subset.contains(InfoSubset::%s)`" % (fld, flag))
    out.append('Definition restamp_per_list : bool := true.\n')
    # ---- a split unit is a word id literal only when the WHOLE unit is one (`^U?\\d+$` over the unit, not its first field)
    ps = _norm(bl)
    if "fnparse_split(&mutself,data:&str)->DicWriteResult<SplitUnit>{ifWORD_ID_LITERAL.is_match(data){Ok(SplitUnit::Ref(parse_wordid(data)?))}else{letmutiter=data.splitn(8,\",\");" not in ps:
        raise F.FactError("parse_split no longer tests the whole unit against WORD_ID_LITERAL before reading it as an inline reference")
    pr = _norm(F.strip_comments(F.src("sudachi/src/dic/build/parse.rs")))
    if 'pub(crate)staticrefWORD_ID_LITERAL:Regex=Regex::new(r"^U?\\d+$").unwrap();' not in pr:
        raise F.FactError("WORD_ID_LITERAL is no longer ^U?\\d+$")
    out.append('Definition unit_literal_rule : string := "whole-unit ^U?[0-9]+$".\n')
    # ---- the order in which the kinds of plugins are set up over the grammar (struct fields are evaluated in source order)
    pm = F.strip_comments(F.src("sudachi/src/plugin/mod.rs"))
    lb = _norm(F.fn_body(pm, "load", "plugin/mod.rs"))
    mo = re.search(r"letplugins=Plugins\{(.*?)\};Ok\(plugins\)", lb)
    if not mo:
        raise F.FactError("Plugins::load is no longer `let plugins = Plugins { <kind>: load_plugins_of(cfg, grammar)..., }; Ok(plugins)`")
    fields = re.findall(r'([a-z_]+):load_plugins_of\(cfg,grammar\)\.map_err\(\|e\|e\.with_context\("([a-z_]+)"\)\)\?,?', mo.group(1))
    rest = re.sub(r'([a-z_]+):load_plugins_of\(cfg,grammar\)\.map_err\(\|e\|e\.with_context\("([a-z_]+)"\)\)\?,?', "", mo.group(1))
    if rest or sorted(f for f, _ in fields) != ["connect_cost", "input_text", "oov", "path_rewrite"] or any(f != c for f, c in fields):
        raise F.FactError("Plugins::load no longer sets up exactly connect_cost / input_text / oov / path_rewrite by load_plugins_of(cfg, grammar), one after the other")
    out.append("(* order in which Plugins::load sets the kinds of plugins up over the (mutable) grammar *)\n")
    out.append("Definition plugin_setup_order : list string := [%s].\n" % "; ".join('"%s"' % f for f, _ in fields))
    # ---- the public accessors through which a morpheme reports its dictionary
    mo = F.strip_comments(F.src("sudachi/src/analysis/morpheme.rs"))
    di = _norm(F.fn_body(mo, "dictionary_id", "analysis/morpheme.rs"))
    if di != "letwid=self.word_id();ifwid.is_oov(){-1}else{wid.dic()asi32}":
        raise F.FactError("Morpheme::dictionary_id is no longer `if word_id.is_oov() { -1 } else { word_id.dic() as i32 }`")
    io = _norm(F.fn_body(mo, "is_oov", "analysis/morpheme.rs"))
    if io != "self.word_id().is_oov()":
        raise F.FactError("Morpheme::is_oov is no longer word_id().is_oov()")
    wo = _norm(F.fn_body(w, "is_oov", "word_id.rs"))
    m = re.fullmatch(r"self\.dic\(\)==(0x[0-9a-fA-F]+|\d+)", wo)
    if not m:
        raise F.FactError("WordId::is_oov is no longer `dic() == 0xf`")
    out.append('Definition dictionary_id_shape : string := "oov->-1;else->dic".\n')
    out.append("Definition IS_OOV_DIC : N := %s.\n" % F.coq_int(int(m.group(1), 0)))
    # ---- file based loading: every configured userDict entry is one dictionary of the stack, in order
    cf = F.strip_comments(F.src("sudachi/src/config.rs"))
    ru = _norm(F.fn_body(cf, "resolved_user_dicts", "config.rs"))
    if ru != "self.user_dicts.iter().map(|p|self.complete_path(p)).collect()":
        raise F.FactError("Config::resolved_user_dicts no longer maps every configured entry to one path, in order")
    fc = _norm(F.fn_body(d, "from_cfg", "dictionary.rs"))
    if "letmutsb=SudachiDicData::new(load_system_dic(cfg)?);forudicincfg.resolved_user_dicts()?{sb.add_user(map_file(&udic)" not in fc \
            or "Self::from_cfg_storage(cfg,sb)" not in fc:
        raise F.FactError("JapaneseDictionary::from_cfg no longer adds one user dictionary per resolved path and defers to from_cfg_storage")
    out.append("Definition user_dict_per_listing : bool := true.\n")
    # LoadedDictionary: num_system_pos is the POS count of the system dictionary file
    dm = F.strip_comments(F.src("sudachi/src/dic/mod.rs"))
    for fn in ("from_system_dictionary", "to_loaded"):
        b = _norm(F.fn_body(dm, fn, "dic/mod.rs"))
        if "letnum_system_pos=grammar.pos_list.len();" not in b:
            raise F.FactError("%s no longer takes num_system_pos = grammar.pos_list.len()" % fn)
    return "".join(out)
