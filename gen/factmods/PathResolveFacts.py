"""Order in which a relative file name of the configuration is looked up (sudachi/src/config.rs): the anchors
ConfigBuilder::build adds, the steps of Config::complete_path, and PathResolver::first_existing."""
import re
import facts as F

CFG = "sudachi/src/config.rs"


def ws(s):
    return re.sub(r"\s+", "", s)


def q(s):
    return '"%s"' % s.replace('"', '""')


def gen():
    out = [F.HEADER]
    t = F.strip_comments(F.src(CFG))
    # ---- build: the order of the anchors
    b = ws(F.fn_body(t, "build", CFG))
    m = re.search(r"let(?:mut)?(\w+)=\|(\w+):PathBuf\|\{if!(\w+)\.contains\(&\2\)\{\3\.add\(\2\);\}\};", b)
    if not m:
        raise F.FactError("ConfigBuilder::build: the anchor-adding closure (skip an anchor that is already present) not recognised")
    add = m.group(1)
    order = []
    for m2 in re.finditer(r"self\.(\w+)\.map\(&mut%s\);|%s\((\w+)\);" % (add, add), b):
        order.append(m2.group(1) or m2.group(2))
    rd = re.search(r"let(\w+)=self\.resourcePath\.unwrap_or\((\w+)\);", b)
    if not rd:
        raise F.FactError("ConfigBuilder::build: resource directory (resourcePath or the default) not recognised")
    order = ["resource_dir" if x == rd.group(1) else x for x in order]
    out.append("(* ConfigBuilder::build: anchors in the order they are added *)\n")
    out.append("Definition anchor_order : list string := [%s].\n" % "; ".join(q(x) for x in order))
    # ---- first_existing
    fe = ws(F.fn_body(t, "first_existing", CFG))
    ac = ws(F.fn_body(t, "all_candidates", CFG))
    out.append("Definition first_existing_body : string := %s.\nDefinition all_candidates_body : string := %s.\n" % (q(fe), q(ac)))
    # ---- complete_path: the steps in source order: (condition, what is returned)
    c = F.fn_body(t, "complete_path", CFG)
    w = ws(c)
    m = re.search(r"let(\w+)=\w+\.as_ref\(\);", w)
    if not m:
        raise F.FactError("complete_path: `let pref = file_path.as_ref()` not recognised")
    pref = m.group(1)
    steps = []
    pos = m.end()
    for m3 in re.finditer(r"if(let Some\((\w+)\)=)?(.*?)\{return(.*?);\}", w[pos:].replace("iflet", "iflet ")):
        cond = m3.group(3)
        cond = re.sub(r"(?<![A-Za-z0-9_])%s(?![A-Za-z0-9_])" % re.escape(pref), "pref", cond)
        steps.append("%s=>%s" % (("Some=" if m3.group(1) else "") + cond, re.sub(r"(?<![A-Za-z0-9_])%s(?![A-Za-z0-9_])" % re.escape(pref), "pref", m3.group(4))))
    last = re.search(r"returnErr\((.*?)\);$", w)
    if not last:
        raise F.FactError("complete_path: the final error return not recognised")
    steps.append("otherwise=>Err")
    out.append("(* Config::complete_path: `if <cond> { return <what> }` in source order, then the error *)\n")
    out.append("Definition complete_path_steps : list string := [%s].\n" % "; ".join(q(x) for x in steps))
    return "".join(out)
