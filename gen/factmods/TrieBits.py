"""Generated/TrieBits.v: bit layout of a double-array unit and the shape of TrieEntryIter::next (dic/lexicon/trie.rs),
count-byte/LE layout of the word-id table (word_id_table.rs, build/primitives.rs)."""
import re
import facts as F

REL = "sudachi/src/dic/lexicon/trie.rs"


def _norm(s):
    return re.sub(r"\s+", "", s)


def gen():
    t = F.strip_comments(F.src(REL))
    out = [F.HEADER]

    # fn has_leaf(unit) { ((unit >> A) & B) == C }
    b = _norm(F.fn_body(t, "has_leaf", REL))
    m = re.fullmatch(r"\(\(unit>>(\d+)\)&(\d+)\)==(\d+)", b)
    if not m:
        raise F.FactError("Trie::has_leaf is no longer `((unit >> a) & b) == c`: %s" % b)
    out.append("Definition HAS_LEAF_SHIFT : N := %s.\nDefinition HAS_LEAF_MASK : N := %s.\nDefinition HAS_LEAF_EQ : N := %s.\n" %
               tuple(F.coq_int(int(x)) for x in m.groups()))

    # fn value(unit) { unit & <const> }
    b = _norm(F.fn_body(t, "value", REL))
    m = re.fullmatch(r"unit&\((.*)\)", b)
    if not m:
        raise F.FactError("Trie::value is no longer `unit & (mask)`: %s" % b)
    out.append("Definition VALUE_MASK : N := %s.\n" % F.coq_int(F.const_eval(m.group(1))))

    # fn label(unit) { unit & <const> }
    b = _norm(F.fn_body(t, "label", REL))
    m = re.fullmatch(r"unit&\((.*)\)", b)
    if not m:
        raise F.FactError("Trie::label is no longer `unit & (mask)`: %s" % b)
    out.append("Definition LABEL_MASK : N := %s.\n" % F.coq_int(F.const_eval(m.group(1))))

    # fn offset(unit) { (unit >> A) << ((unit & (B)) >> C) }
    b = _norm(F.fn_body(t, "offset", REL))
    m = re.fullmatch(r"\(unit>>(\d+)\)<<\(\(unit&\((.*?)\)\)>>(\d+)\)", b)
    if not m:
        raise F.FactError("Trie::offset is no longer `(unit >> a) << ((unit & (b)) >> c)`: %s" % b)
    out.append("Definition OFFSET_SHIFT : N := %s.\nDefinition OFFSET_EXT_MASK : N := %s.\nDefinition OFFSET_EXT_SHIFT : N := %s.\n" %
               (F.coq_int(int(m.group(1))), F.coq_int(F.const_eval(m.group(2))), F.coq_int(int(m.group(3)))))

    # shape of TrieEntryIter::next: the statements the model mirrors, in order
    m = re.search(r"impl<'a>\s*Iterator\s+for\s+TrieEntryIter<'a>\s*\{(.*?)\n\}\n", t, flags=re.S)
    if not m:
        raise F.FactError("impl Iterator for TrieEntryIter not found")
    nb = _norm(F.fn_body(m.group(1), "next", REL))
    shape = """
        let mut node_pos = self.node_pos;
        let mut unit;
        for i in self.offset..self.data.len() {
            let k = self.data.get(i).unwrap();
            %s
            node_pos ^= *k as usize;
            unit = self.get(node_pos) as usize;
            if Trie::label(unit) != *k as usize { return None; }
            node_pos ^= Trie::offset(unit);
            if Trie::has_leaf(unit) {
                let r = TrieEntry::new(Trie::value(self.get(node_pos)), i + 1);
                self.offset = r.end;
                self.node_pos = node_pos;
                return Some(r);
            }
        }
        None"""
    if nb == _norm(shape % "if *k == 0 { return None; }"):
        nul_stops = True
    elif nb == _norm(shape % ""):
        nul_stops = False
    else:
        raise F.FactError("TrieEntryIter::next no longer has the statement sequence the model mirrors")
    out.append("(* a NUL byte of the text stops the traversal before any unit is read *)\nDefinition nul_stops : bool := %s.\n" % ("true" if nul_stops else "false"))
    out.append('Definition next_shape : string := "xor-key;read;label-ne-stop;xor-offset;leaf-yield(value(read),i+1);save(offset,node_pos)".\n')

    # common_prefix_iterator starts at offset(unit 0)
    cb = _norm(F.fn_body(t, "common_prefix_iterator", REL))
    if "letunit:usize=self.get(0)asusize;" not in cb or "node_pos:Trie::offset(unit)" not in cb or not re.search(r"\boffset,", cb):
        raise F.FactError("common_prefix_iterator no longer starts at Trie::offset(array[0]) with the caller's offset")
    out.append("Definition ROOT_INDEX : N := 0%N.\n")

    # word id table reader: count byte then u32 little endian (read_unaligned of u32 on a little-endian target)
    w = F.strip_comments(F.src("sudachi/src/dic/lexicon/word_id_table.rs"))
    eb = _norm(F.fn_body(w, "entries", "word_id_table.rs"))
    if "self.bytes.as_ptr().offset((index+self.offset)asisize)" not in eb or "letcnt=unsafe{ptr.read()}asusize;" not in eb \
            or "letdata_ptr=unsafe{ptr.offset(1)}as*constu32;" not in eb or "remaining:cnt" not in eb:
        raise F.FactError("WordIdTable::entries is no longer `count byte at index, u32 ids from index+1`")
    out.append("Definition WID_COUNT_BYTES : N := 1%N.\nDefinition WID_ID_BYTES : N := 4%N.\n")

    # writer: write_u32_array rejects len > MAX, writes [len as u8] then to_le_bytes of each
    p = F.strip_comments(F.src("sudachi/src/dic/build/primitives.rs"))
    wb = _norm(F.fn_body(p, "write_u32_array", "primitives.rs"))
    m = re.search(r"iflen>(\d+)\{returnErr", wb)
    if not m or "w.write_all(&[lenasu8])?;" not in wb or "w.write_all(&i.to_le_bytes())?;" not in wb:
        raise F.FactError("write_u32_array is no longer `reject len > n; count byte; LE u32 each`")
    out.append("Definition WID_MAX_GROUP : N := %s.\n" % F.coq_int(int(m.group(1))))
    # ---- nobody between the tokenizer and the double array shortens the text handed to lookup: the traversal runs to the end
    #      of the input (TrieEntryIter::next: `for i in self.offset..self.data.len()`), so there is no maximum key length
    def body(rel, name, text=None):
        t0 = text if text is not None else F.strip_comments(F.src(rel))
        return _norm(F.fn_body(t0, name, rel))
    ok = True
    cpi = body(REL, "common_prefix_iterator", t)
    ok = ok and "data:input," in cpi and re.search(r"\boffset,", cpi) is not None and "min(" not in cpi and "input[" not in cpi
    lx = body("sudachi/src/dic/lexicon/mod.rs", "lookup")
    ok = ok and "self.trie.common_prefix_iterator(input,offset)" in lx and "min(" not in lx and "input[" not in lx
    ls = body("sudachi/src/dic/lexicon_set.rs", "lookup")
    ok = ok and "l.lookup(input,offset)" in ls and "min(" not in ls and "input[" not in ls
    st = F.strip_comments(F.src("sudachi/src/analysis/stateful_tokenizer.rs"))
    mm = re.search(r"impl<'a>\s*LatticeBuilder<'a>\s*\{(.*)", st, flags=re.S)
    bl = _norm(F.fn_body(mm.group(1), "build_lattice", "stateful_tokenizer.rs")) if mm else ""
    ok = ok and "letinput_bytes=self.input.current().as_bytes();" in bl and "self.lexicon.lookup(input_bytes,byte_off)" in bl and "input_bytes[" not in bl
    ml = body("sudachi/src/analysis/mlist.rs", "lookup")
    ok = ok and "lex.lookup(query.as_bytes(),0)" in ml
    out.append("Definition lookup_input_untruncated : bool := %s.\n" % ("true" if ok else "false"))
    return "".join(out)
