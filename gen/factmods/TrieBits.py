"""Generated/TrieBits.v: bit layout of a double-array unit and the shape of TrieEntryIter::next (dic/lexicon/trie.rs),
count-byte/LE layout of the word-id table (word_id_table.rs, build/primitives.rs)."""
import re
import facts as F

REL = "sudachi/src/dic/lexicon/trie.rs"


def _norm(s):
    return re.sub(r"\s+", "", s)


def _sub(name, repl, text):
    return re.sub(r"(?<![A-Za-z0-9_§.:])%s(?![A-Za-z0-9_])" % re.escape(name), repl, text)


def _canon_next(body):
    """TrieEntryIter::next with its locals replaced by placeholders found through their DEFINING expressions (so neither their
    names, nor where `unit` is declared, nor whether the text byte is bound as a reference or as a value, nor a `let` for the
    repeated cast `byte as usize` matter).  Every step is a consistent renaming of a bound local or the replacement of an
    immutable local by its pure defining expression; whatever does not fit stays as it is and fails the comparison."""
    b = body
    m = re.search(r"\blet\s+mut\s+(\w+)\s*=\s*self\.node_pos\s*;", b)
    if m:
        b = _sub(m.group(1), "§n", b)
    m = re.search(r"\bfor\s+(\w+)\s+in\s+self\.offset\s*\.\.\s*self\.data\.len\(\)", b)
    if m:
        b = _sub(m.group(1), "§i", b)
    # the text byte: `let k = self.data.get(i).unwrap();` used as `*k`, or `let k = *self.data.get(i).unwrap();` / `self.data[i]` used as `k`
    m = re.search(r"\blet\s+(\w+)\s*=\s*(\*?)\s*self\.data\.get\(§i\)\.unwrap\(\)\s*;|\blet\s+(\w+)\s*=\s*self\.data\[§i\]\s*;", b)
    if m:
        name = m.group(1) or m.group(3)
        by_value = bool(m.group(2)) or bool(m.group(3))
        b = b[:m.start()] + b[m.end():]
        if by_value:
            b = _sub(name, "§k", b)
        else:
            b = re.sub(r"\*\s*(?<![A-Za-z0-9_§])%s(?![A-Za-z0-9_])" % re.escape(name), "§k", b)
    # a binding for the repeated cast
    m = re.search(r"\blet\s+(\w+)\s*=\s*§k\s+as\s+usize\s*;", b)
    if m:
        name = m.group(1)
        b = b[:m.start()] + b[m.end():]
        b = _sub(name, "§k as usize", b)
    # the unit read at the probed position: declared up front and assigned, or declared where it is read
    m = re.search(r"(?:\blet\s+(?:mut\s+)?)?(?<![A-Za-z0-9_§])(\w+)\s*=\s*self\.get\(§n\)\s*as\s+usize\s*;", b)
    if m:
        name = m.group(1)
        b = re.sub(r"\blet\s+mut\s+%s\s*;" % re.escape(name), "", b)
        b = re.sub(r"\blet\s+(?:mut\s+)?%s\s*=" % re.escape(name), name + " =", b)
        b = _sub(name, "§u", b)
    # the block that yields an entry: immutable `let`s of pure expressions (the value read at the node, the end offset, the
    # entry itself) are replaced by their defining expressions -- nothing between such a binding and its uses writes to what
    # the expression reads (the array, the loop counter, the local node position) -- and `TrieEntry::new(v, e).end` is `e`
    # (TrieEntry::new is checked to be `TrieEntry { value, end: offset }` by the caller)
    m = re.search(r"if\s+Trie::has_leaf\(§u\)\s*\{(.*?)\}\s*\}\s*None\s*$", b, flags=re.S)
    if m:
        blk = m.group(1)
        for _ in range(6):
            lm = re.search(r"\blet\s+(\w+)\s*=\s*([^;]+);", blk)
            if not lm:
                break
            blk = blk[:lm.start()] + _sub(lm.group(1), lm.group(2).strip(), blk[lm.end():])
        blk = re.sub(r"TrieEntry::new\((.*),\s*([^,()]*)\)\.end", lambda x: x.group(2).strip(), blk)
        b = b[:m.start(1)] + blk + b[m.end(1):]
    return _norm(b)


def _struct_fields(lit):
    """top-level `field: expr` / shorthand items of a struct literal body, as a sorted list (their order is immaterial)"""
    items, depth, cur = [], 0, ""
    for ch in lit:
        if ch in "([{":
            depth += 1
        elif ch in ")]}":
            depth -= 1
        if ch == "," and depth == 0:
            items.append(cur)
            cur = ""
        else:
            cur += ch
    if cur.strip():
        items.append(cur)
    return sorted(_norm(x) for x in items if x.strip())


def _with_helpers(impl_text, name, rel):
    """white-space-free body of `fn name`, followed by the bodies of the PRIVATE methods of the same impl that it calls as
    `self.helper(a, b, ..)` with plain identifiers that are exactly the helper's parameter names: such a helper reads as if it
    were written in place (same names for the same values), so substring facts about the statements may look into it.
    One level deep; anything else (renamed / computed arguments, public or foreign functions) is not followed."""
    body = _norm(F.fn_body(impl_text, name, rel))
    out = body
    for hm in re.finditer(r"self\.(\w+)\(([A-Za-z_0-9,]*)\)", body):
        h, args = hm.group(1), [a for a in hm.group(2).split(",") if a]
        sig = re.search(r"(?<!pub )\bfn\s+%s\s*\(\s*&(?:mut\s+)?self\s*,?([^)]*)\)" % re.escape(h), impl_text)
        if not sig or re.search(r"\bpub(?:\([a-z]+\))?\s+fn\s+%s\b" % re.escape(h), impl_text):
            continue
        params = [p.split(":")[0].replace("mut ", "").strip() for p in sig.group(1).split(",") if p.strip()]
        if params == args:
            try:
                out += "§helper{" + _norm(F.fn_body(impl_text, h, rel)) + "}"
            except F.FactError:
                pass
    return out


def gen():
    t = F.strip_comments(F.src(REL))
    out = [F.HEADER]

    # fn has_leaf(unit) { ((unit >> A) & B) == C }
    b = _norm(F.fn_body(t, "has_leaf", REL))
    m = re.fullmatch(r"\(\(unit>>(\d+)\)&(\d+)\)==(\d+)", b)
    if not m:
        raise F.FactError("Trie::has_leaf is no longer `((unit >> a) & b) == c`: %s" % b)
    out.append("Definition HAS_LEAF_SHIFT : N := %s.\nDefinition HAS_LEAF_MASK : N := %s.\nDefinition HAS_LEAF_EQ : N := %s.\n" %
               tuple(F.coq_int(int(x)) for x in m.groups()))

    # fn value(unit) { unit & <const> }
    b = _norm(F.fn_body(t, "value", REL))
    m = re.fullmatch(r"unit&\((.*)\)", b)
    if not m:
        raise F.FactError("Trie::value is no longer `unit & (mask)`: %s" % b)
    out.append("Definition VALUE_MASK : N := %s.\n" % F.coq_int(F.const_eval(m.group(1))))

    # fn label(unit) { unit & <const> }
    b = _norm(F.fn_body(t, "label", REL))
    m = re.fullmatch(r"unit&\((.*)\)", b)
    if not m:
        raise F.FactError("Trie::label is no longer `unit & (mask)`: %s" % b)
    out.append("Definition LABEL_MASK : N := %s.\n" % F.coq_int(F.const_eval(m.group(1))))

    # fn offset(unit) { (unit >> A) << ((unit & (B)) >> C) }
    b = _norm(F.fn_body(t, "offset", REL))
    m = re.fullmatch(r"\(unit>>(\d+)\)<<\(\(unit&\((.*?)\)\)>>(\d+)\)", b)
    if not m:
        raise F.FactError("Trie::offset is no longer `(unit >> a) << ((unit & (b)) >> c)`: %s" % b)
    out.append("Definition OFFSET_SHIFT : N := %s.\nDefinition OFFSET_EXT_MASK : N := %s.\nDefinition OFFSET_EXT_SHIFT : N := %s.\n" %
               (F.coq_int(int(m.group(1))), F.coq_int(F.const_eval(m.group(2))), F.coq_int(int(m.group(3)))))

    # shape of TrieEntryIter::next: the statements the model mirrors, in order
    m = re.search(r"impl<'a>\s*Iterator\s+for\s+TrieEntryIter<'a>\s*\{(.*?)\n\}\n", t, flags=re.S)
    if not m:
        raise F.FactError("impl Iterator for TrieEntryIter not found")
    if _norm(F.fn_body(t, "new", REL)) != "TrieEntry{value,end:offset}" or not re.search(r"pub\s+fn\s+new\(value:\s*u32,\s*offset:\s*usize\)\s*->\s*TrieEntry", t):
        raise F.FactError("TrieEntry::new(value, offset) is no longer `TrieEntry { value, end: offset }`")
    nb = _canon_next(F.fn_body(m.group(1), "next", REL))
    shape = """
        let mut §n = self.node_pos;
        for §i in self.offset..self.data.len() {
            %s
            §n ^= §k as usize;
            §u = self.get(§n) as usize;
            if Trie::label(§u) != §k as usize { return None; }
            §n ^= Trie::offset(§u);
            if Trie::has_leaf(§u) {
                self.offset = §i + 1;
                self.node_pos = §n;
                return Some(TrieEntry::new(Trie::value(self.get(§n)), §i + 1));
            }
        }
        None"""
    if nb == _norm(shape % "if §k == 0 { return None; }"):
        nul_stops = True
    elif nb == _norm(shape % ""):
        nul_stops = False
    else:
        raise F.FactError("TrieEntryIter::next no longer has the statement sequence the model mirrors")
    out.append("(* a NUL byte of the text stops the traversal before any unit is read *)\nDefinition nul_stops : bool := %s.\n" % ("true" if nul_stops else "false"))
    out.append('Definition next_shape : string := "xor-key;read;label-ne-stop;xor-offset;leaf-yield(value(read),i+1);save(offset,node_pos)".\n')

    # common_prefix_iterator starts at offset(unit 0) and keeps the caller's input and offset (field order is immaterial)
    cbs = F.fn_body(t, "common_prefix_iterator", REL)
    mr = re.search(r"\blet\s+(\w+)\s*(?::\s*usize\s*)?=\s*self\.get\(0\)\s*as\s+usize\s*;", cbs)
    ml = re.search(r"TrieEntryIter\s*\{(.*)\}", cbs, flags=re.S)
    fields = _struct_fields(ml.group(1)) if ml else []
    fields = ["offset" if f == "offset:offset" else f for f in fields]
    for k, f in enumerate(fields):
        if re.fullmatch(r"\w+", f) and f != "offset":
            lb = re.search(r"\blet\s+%s\s*=\s*([^;]+);" % re.escape(f), cbs)
            if lb:
                fields[k] = "%s:%s" % (f, _norm(lb.group(1)))
    if not mr or sorted(fields) != sorted(["node_pos:Trie::offset(%s)" % mr.group(1), "data:input", "trie:&self.array", "offset"]):
        raise F.FactError("common_prefix_iterator no longer starts at Trie::offset(array[0]) with the caller's input and offset")
    out.append("Definition ROOT_INDEX : N := 0%N.\n")

    # word id table reader: count byte then u32 little endian (read_unaligned of u32 on a little-endian target)
    w = F.strip_comments(F.src("sudachi/src/dic/lexicon/word_id_table.rs"))
    eb = _norm(F.fn_body(w, "entries", "word_id_table.rs"))
    if "self.bytes.as_ptr().offset((index+self.offset)asisize)" not in eb or "letcnt=unsafe{ptr.read()}asusize;" not in eb \
            or "letdata_ptr=unsafe{ptr.offset(1)}as*constu32;" not in eb or "remaining:cnt" not in eb:
        raise F.FactError("WordIdTable::entries is no longer `count byte at index, u32 ids from index+1`")
    out.append("Definition WID_COUNT_BYTES : N := 1%N.\nDefinition WID_ID_BYTES : N := 4%N.\n")

    # writer: write_u32_array rejects len > MAX, writes [len as u8] then to_le_bytes of each
    p = F.strip_comments(F.src("sudachi/src/dic/build/primitives.rs"))
    wb = _norm(F.fn_body(p, "write_u32_array", "primitives.rs"))
    m = re.search(r"iflen>(\d+)\{returnErr", wb)
    if not m or "w.write_all(&[lenasu8])?;" not in wb or "w.write_all(&i.to_le_bytes())?;" not in wb:
        raise F.FactError("write_u32_array is no longer `reject len > n; count byte; LE u32 each`")
    out.append("Definition WID_MAX_GROUP : N := %s.\n" % F.coq_int(int(m.group(1))))
    # ---- nobody between the tokenizer and the double array shortens the text handed to lookup: the traversal runs to the end
    #      of the input (TrieEntryIter::next: `for i in self.offset..self.data.len()`), so there is no maximum key length
    def body(rel, name, text=None):
        t0 = text if text is not None else F.strip_comments(F.src(rel))
        return _norm(F.fn_body(t0, name, rel))
    ok = True
    cpi = body(REL, "common_prefix_iterator", t)
    ok = ok and "data:input," in cpi and re.search(r"\boffset,", cpi) is not None and "min(" not in cpi and "input[" not in cpi
    lx = body("sudachi/src/dic/lexicon/mod.rs", "lookup")
    ok = ok and "self.trie.common_prefix_iterator(input,offset)" in lx and "min(" not in lx and "input[" not in lx
    ls = body("sudachi/src/dic/lexicon_set.rs", "lookup")
    ok = ok and "l.lookup(input,offset)" in ls and "min(" not in ls and "input[" not in ls
    st = F.strip_comments(F.src("sudachi/src/analysis/stateful_tokenizer.rs"))
    mm = re.search(r"impl<'a>\s*LatticeBuilder<'a>\s*\{(.*)", st, flags=re.S)
    bl = _with_helpers(mm.group(1), "build_lattice", "stateful_tokenizer.rs") if mm else ""
    ok = ok and "letinput_bytes=self.input.current().as_bytes();" in bl and "self.lexicon.lookup(input_bytes,byte_off)" in bl and "input_bytes[" not in bl
    ml = body("sudachi/src/analysis/mlist.rs", "lookup")
    ok = ok and "lex.lookup(query.as_bytes(),0)" in ml
    out.append("Definition lookup_input_untruncated : bool := %s.\n" % ("true" if ok else "false"))
    return "".join(out)
