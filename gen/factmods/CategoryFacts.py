import re
import sys
import facts as F


def gen():
    t = F.strip_comments(F.src("sudachi/src/dic/category_type.rs"))
    m = re.search(r"pub\s+struct\s+CategoryType\s*:\s*u32\s*\{(.*?)\n\s*\}\s*\n\}", t, flags=re.S)
    if not m:
        raise F.FactError("bitflags CategoryType block not found in category_type.rs")
    items = re.findall(r"const\s+([A-Z0-9_]+)\s*=\s*([^;]+);", m.group(1))
    if not items:
        raise F.FactError("no category constants found")
    env = {}
    out = [F.HEADER]
    rows = []
    for name, expr in items:
        v = F.const_eval(expr, env)
        env[name] = v
        rows.append('("%s", %s)' % (name, F.coq_int(v)))
    out.append("(* in declaration order: this is the iteration order of the bitflags crate *)\n")
    out.append("Definition category_bits : list (string * N) :=\n  [ %s ].\n" % ";\n    ".join(rows))
    if "DEFAULT" not in env:
        raise F.FactError("category DEFAULT missing")
    out.append("Definition DEFAULT : N := %s.\n" % F.coq_int(env["DEFAULT"]))
    for n in ("NOOOVBOW", "NOOOVBOW2", "ALL", "KATAKANA", "NUMERIC", "KANJINUMERIC", "KANJI", "HIRAGANA", "ALPHA", "SPACE"):
        if n in env:
            out.append("Definition %s : N := %s.\n" % (n, F.coq_int(env[n])))
    # Default for CategoryType
    if not re.search(r"impl\s+Default\s+for\s+CategoryType\s*\{\s*fn\s+default\(\)\s*->\s*Self\s*\{\s*Self::DEFAULT\s*\}", t):
        raise F.FactError("impl Default for CategoryType is no longer `Self::DEFAULT`")
    return "".join(out)
