"""How a configured list of plugins becomes the list that is applied (C07: stacks of input-text plugins): the loader loop
of sudachi/src/plugin/loader.rs instantiates EVERY configured entry, in order (no skipping, no de-duplication by class),
load_plugin appends the instance, plugins() hands the vector out as it is, and the tokenizer applies the input-text
plugins in that order."""
import re
import facts as F

LD = "sudachi/src/plugin/loader.rs"
TOK = "sudachi/src/analysis/stateful_tokenizer.rs"
ITP = "sudachi/src/plugin/input_text/mod.rs"
DIC = "sudachi/src/dic/dictionary.rs"


def ws(s):
    return re.sub(r"\s+", "", s)


def q(s):
    return '"%s"' % s.replace('"', '""')


def gen():
    out = [F.HEADER]
    t = F.strip_comments(F.src(LD))
    b = ws(F.fn_body(t, "load", LD))
    m = re.fullmatch(r"let(\w+)=<TasPluginCategory>::configurations\(self\.cfg\);for(\w+)in\1\{(.*)\}Ok\(\(\)\)", b)
    if not m:
        raise F.FactError("PluginLoader::load: `for cfg in configurations(..) { .. } Ok(())` not recognised")
    cv = m.group(2)
    body = re.sub(r"(?<![A-Za-z0-9_])%s(?![A-Za-z0-9_])" % re.escape(cv), "cfg", m.group(3))
    nm = re.search(r"let(\w+)=extract_plugin_class\(cfg\)\?;", body)
    if nm:
        body = re.sub(r"(?<![A-Za-z0-9_])%s(?![A-Za-z0-9_])" % re.escape(nm.group(1)), "name", body)
    out.append("(* PluginLoader::load: the body of the loop over the configured entries (names normalised) *)\n")
    out.append("Definition load_loop_body : string := %s.\n" % q(body))
    lp = ws(F.fn_body(t, "load_plugin", LD))
    pushes = re.findall(r"self\.plugins\.(\w+)\(", lp)
    out.append("(* load_plugin: what it does to self.plugins, and whether that is its last statement before Ok(()) *)\n")
    out.append("Definition load_plugin_effects : list string := [%s].\n" % "; ".join(q(x) for x in pushes))
    out.append("Definition load_plugin_push_is_last : bool := %s.\n" % ("true" if re.search(r"self\.plugins\.push\(\w+\);Ok\(\(\)\)$", lp) else "false"))
    out.append("Definition plugins_accessor : string := %s.\n" % q(ws(F.fn_body(t, "plugins", LD))))
    fr = ws(F.fn_body(t, "freeze", LD))
    out.append("Definition freeze_keeps_plugins : bool := %s.\n" % ("true" if "plugins:self.plugins" in fr else "false"))
    i = F.strip_comments(F.src(ITP))
    out.append("Definition input_text_configurations : string := %s.\n" % q(ws(F.fn_body(i, "configurations", ITP))))
    d = F.strip_comments(F.src(DIC))
    out.append("Definition dictionary_input_text_plugins : string := %s.\n" % q(ws(F.fn_body(d, "input_text_plugins", DIC))))
    k = F.strip_comments(F.src(TOK))
    ri = ws(F.fn_body(k, "rewrite_input", TOK))
    m = re.fullmatch(r"for(\w+)in(.*?)\{(.*)\}Ok\(\(\)\)", ri)
    if not m:
        raise F.FactError("StatefulTokenizer::rewrite_input: loop not recognised")
    out.append("(* rewrite_input: what is iterated and what is done with every plugin *)\n")
    out.append("Definition rewrite_input_iterates : string := %s.\nDefinition rewrite_input_step : string := %s.\n" % (
        q(m.group(2)), q(re.sub(r"(?<![A-Za-z0-9_])%s(?![A-Za-z0-9_])" % re.escape(m.group(1)), "p", m.group(3)))))
    return "".join(out)
