"""Shape facts for the panicking-index model of analysis/lattice.rs (Model/LatticeP.v): per function, the index
expressions in source order, the unwrap calls, the narrowing casts and the usize subtractions."""
import re
import facts as F
import sitekeys as SK

REL = "sudachi/src/analysis/lattice.rs"
FNS = ["reset_vec", "reset", "connect_bos", "connect_eos", "insert", "connect_node", "has_previous_node", "node",
       "fill_top_path", "dump"]


def index_exprs(body):
    """every `base[..][..]` expression, white space removed, in source order"""
    out = []
    i = 0
    n = len(body)
    while i < n:
        if body[i] == "[" and i > 0 and re.match(r"[A-Za-z0-9_\)\]]", body[i - 1]):
            # base: identifier characters and dots (and one trailing call) to the left
            j = i
            while j > 0 and re.match(r"[A-Za-z0-9_\.]", body[j - 1]):
                j -= 1
            base = body[j:i]
            # chained brackets to the right
            k = i
            while k < n and body[k] == "[":
                depth = 0
                while k < n:
                    if body[k] == "[":
                        depth += 1
                    elif body[k] == "]":
                        depth -= 1
                        if depth == 0:
                            k += 1
                            break
                    k += 1
            out.append(re.sub(r"\s+", "", base + body[i:k]))
            i = k
        else:
            i += 1
    return out


def cast_exprs(body):
    """`<operand> as <narrow type>` with the operand found by walking back over identifiers, dots and balanced parentheses"""
    out = []
    for m in re.finditer(r"\s+as\s+(u8|u16|i8|i16|u32|i32)\b", body):
        j = m.start()
        depth = 0
        while j > 0:
            c = body[j - 1]
            if c == ")":
                depth += 1
            elif c == "(":
                if depth == 0:
                    break
                depth -= 1
            elif depth == 0 and not re.match(r"[A-Za-z0-9_\.]", c):
                break
            j -= 1
        out.append("%s as %s" % (re.sub(r"\s+", "", body[j:m.start()]), m.group(1)))
    return out


def gen():
    t = F.strip_comments(F.src(REL))
    # the verif hooks and tests are not part of the analysis path
    m = re.search(r"#\[cfg\(feature\s*=\s*\"verif\"\)\]", t)
    if m:
        t = t[:m.start()]
    t = re.sub(r'"(?:[^"\\]|\\.)*"', '""', t)
    out = [F.HEADER]
    out.append("(* analysis/lattice.rs, per function: (name, index expressions in source order, unwrap calls, narrowing casts, usize subtractions);\n   lattice_index_total counts brackets (v[i][j] = 2), as the inventory of Generated/PanicSites.v does *)\n")
    rows = []
    krows = []
    total_idx = 0
    total_unwrap = 0
    total_cast = 0
    for fn in FNS:
        body = F.fn_body(t, fn, REL)
        # attributes like #[inline] contain brackets
        body = re.sub(r"#!?\[[^\]]*\]", "", body)
        idx = index_exprs(body)
        unwraps = len(re.findall(r"\.unwrap\(\)", body))
        casts = cast_exprs(body)
        subs = [re.sub(r"\s+", "", x) for x in re.findall(r"\b(?:len|size)\s*-\s*1\b", body)]
        total_idx += sum(x.count("[") for x in idx)
        total_unwrap += unwraps
        total_cast += len(casts)
        krows.append((fn, SK.keys(idx, unwraps, 0, casts, subs)))
        rows.append('("%s", [%s], %d%%N, [%s], [%s])' % (fn, "; ".join('"%s"' % x for x in idx), unwraps,
                                                         "; ".join('"%s"' % x for x in casts), "; ".join('"%s"' % x for x in subs)))
    known = set(FNS)
    others = [f for f in re.findall(r"\bfn\s+(\w+)", t) if f not in known]
    out.append("Definition lattice_fns : list (string * list string * N * list string * list string) :=\n  [ %s ].\n" % ";\n    ".join(rows))
    out.append("(* the same constructs as keys (gen/sitekeys.py): what the one-directional obligation C03_fact_lattice_sites compares *)\n")
    out.append("Definition lattice_site_keys : list (string * list string) :=\n  [ %s ].\n" % SK.coq_rows(krows))
    out.append("(* functions of the file outside the list above (trait glue: right_id, total_cost, new, default, fmt) *)\n")
    out.append("Definition lattice_other_fns : list string := [%s].\n" % "; ".join('"%s"' % f for f in others))
    out.append("Definition lattice_index_total : N := %d%%N.\nDefinition lattice_unwrap_total : N := %d%%N.\nDefinition lattice_cast_total : N := %d%%N.\n" % (total_idx, total_unwrap, total_cast))
    return "".join(out)
