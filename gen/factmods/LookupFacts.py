"""Generated/LookupFacts.v: the loop of MorphemeList::lookup (sudachi/src/analysis/mlist.rs) and the glue of Dictionary.lookup
(python/src/dictionary.rs) -- what Model/LookupAll.v mirrors: lookup(query bytes, offset), ONE `continue` guarded by a
comparison of the entry's end with the length of the query, no other way out of the loop, one node pushed per remaining entry,
the requested fields normalised before word infos are loaded."""
import re
import facts as F

MLIST = "sudachi/src/analysis/mlist.rs"
PYDIC = "python/src/dictionary.rs"
ID = r"[A-Za-z_]\w*"


def q(s):
    return '"' + s.replace('"', '""') + '"'


def _block(text, open_idx):
    """text[open_idx] == '{' -> index just behind the matching '}' (string / char literals are skipped)"""
    d, i, n = 0, open_idx, len(text)
    while i < n:
        c = text[i]
        if c == '"':
            i += 1
            while i < n and text[i] != '"':
                i += 2 if text[i] == "\\" else 1
        elif c == "'" and re.match(r"'(\\.|[^'\\])'", text[i:]):
            i += len(re.match(r"'(\\.|[^'\\])'", text[i:]).group(0)) - 1
        elif c == "{":
            d += 1
        elif c == "}":
            d -= 1
            if d == 0:
                return i + 1
        i += 1
    raise F.FactError("unbalanced braces")


def gen():
    out = [F.HEADER]
    t = F.strip_comments(F.src(MLIST))
    b = F.fn_body(t, "lookup", MLIST)
    # --- the loop head: for ENTRY in LEX.lookup(query.as_bytes(), OFFSET)
    # (the skip test may sit on the iterator: `lex.lookup(..).filter(|e| e.end == query.len())` keeps what `continue` does not skip)
    filt = r"(?:\s*\.\s*filter\(\s*\|\s*&?(?P<fv>%s)\s*\|\s*(?:(?P=fv)\.end\s*(?P<fop>==|!=|<=|>=|<|>)\s*query\.len\(\)|query\.len\(\)\s*(?P<fop_r>==|!=|<=|>=|<|>)\s*(?P=fv)\.end)\s*\))?" % ID
    heads = list(re.finditer(r"\bfor\s+(%s)\s+in\s+(%s)\s*\.\s*lookup\(\s*query\.as_bytes\(\)\s*,\s*(\d+)\s*\)%s\s*\{" % (ID, ID, filt), b))
    if len(heads) != 1 or len(re.findall(r"\b(?:for|while|loop)\b", b)) != 1:
        raise F.FactError("MorphemeList::lookup: expected exactly one loop, `for entry in lex.lookup(query.as_bytes(), K)`")
    h = heads[0]
    ent, lex, off = h.group(1), h.group(2), int(h.group(3))
    if not re.search(r"\blet\s+%s\s*=\s*self\.dict\.lexicon\(\)\s*;" % re.escape(lex), b[:h.start()]):
        raise F.FactError("MorphemeList::lookup: `%s` is no longer the dictionary's lexicon set" % lex)
    end = _block(b, h.end() - 1)
    loop = b[h.end():end - 1]
    # --- ways out of the loop
    conts = re.findall(r"\bcontinue\b", loop)
    breaks = re.findall(r"\bbreak\b", loop)
    rets = re.findall(r"\breturn\b", loop)
    flip = {"==": "==", "!=": "!=", "<": ">", ">": "<", "<=": ">=", ">=": "<="}
    guard = re.match(r"\s*if\s+%s\.end\s*(==|!=|<=|>=|<|>)\s*query\.len\(\)\s*\{" % re.escape(ent), loop)
    guard_r = re.match(r"\s*if\s+query\.len\(\)\s*(==|!=|<=|>=|<|>)\s*%s\.end\s*\{" % re.escape(ent), loop)
    g = guard or guard_r
    neg = {"==": "!=", "!=": "==", "<": ">=", ">=": "<", ">": "<=", "<=": ">"}
    implicit = 0
    if h.group("fop") or h.group("fop_r"):
        # filter(keep): the entries with `not keep` are skipped before the body runs -- one implicit `continue`
        if g:
            raise F.FactError("MorphemeList::lookup: a filter on the iterator AND a test of entry.end in the body")
        cmp_ = neg[h.group("fop") or flip[h.group("fop_r")]]
        skip_block, rest, implicit = "continue;", loop, 1
    else:
        if not g:
            raise F.FactError("MorphemeList::lookup: the loop no longer starts with `if entry.end <cmp> query.len() { .. }`")
        cmp_ = g.group(1) if guard else flip[g.group(1)]
        gend = _block(loop, g.end() - 1)
        skip_block = re.sub(r"\s+", "", loop[g.end():gend - 1])
        rest = loop[gend:]
        if re.match(r"\s*else\b", rest):
            raise F.FactError("MorphemeList::lookup: the skip test has an else branch")
        if not rest.strip() and "continue" not in skip_block:
            # the guard the other way round: `if e.end == len { <everything> }` and nothing behind it -- the entries with
            # the negated test fall through to the next iteration: one implicit `continue`
            cmp_, rest, skip_block, implicit = neg[cmp_], loop[g.end():gend - 1], "continue;", 1
    out.append("(* %s MorphemeList::lookup: `for e in lex.lookup(query.as_bytes(), offset)`; `if e.end <skip_cmp> query.len() { continue; }` *)\n" % MLIST)
    out.append("Definition lookup_offset : N := %s.\nDefinition skip_cmp : string := %s.\n" % (F.coq_int(off), q(cmp_)))
    out.append("(* the block of that test, white space removed *)\nDefinition skip_block : string := %s.\n" % q(skip_block))
    out.append("(* ways out of the loop body, counted over the whole body: continue / break / return *)\n")
    out.append("Definition loop_continues : N := %s.\nDefinition loop_breaks : N := %s.\nDefinition loop_returns : N := %s.\n" %
               (F.coq_int(len(conts) + implicit), F.coq_int(len(breaks)), F.coq_int(len(rets))))
    # --- what happens to an entry that is kept: no further condition, one push of a node carrying the entry's word id
    conds = re.findall(r"\b(?:if|match|while)\b", rest)
    pushes = re.findall(r"\.push\(", rest)
    carries = re.search(r"Node::new\([^;]*\b%s\.word_id\s*\)" % re.escape(ent), rest) is not None
    counted = re.search(r"\b(%s)\s*\+=\s*1\s*;" % ID, rest)
    returned = counted is not None and re.search(r"Ok\(\s*%s\s*\)\s*$" % re.escape(counted.group(1)), b.rstrip()) is not None
    out.append("(* behind the guard: further conditions, pushes onto the node list, the pushed node carries entry.word_id, every push is counted in the returned number *)\n")
    out.append("Definition kept_conditions : N := %s.\nDefinition kept_pushes : N := %s.\nDefinition kept_carries_word_id : bool := %s.\nDefinition kept_counted : bool := %s.\n" %
               (F.coq_int(len(conds)), F.coq_int(len(pushes)), "true" if carries else "false", "true" if returned else "false"))
    # --- the requested fields are normalised before the loop, and the loop loads with the normalised value
    norm = re.search(r"\blet\s+(%s)\s*=\s*subset\.normalize\(\)\s*;" % ID, b[:h.start()])
    loads = re.search(r"%s\.get_word_info_subset\(\s*%s\.word_id\s*,\s*(%s)\s*\)" % (re.escape(lex), re.escape(ent), ID), rest)
    ok = norm is not None and loads is not None and loads.group(1) == norm.group(1)
    out.append("(* `let subset = subset.normalize();` before the loop and get_word_info_subset(entry.word_id, <that value>) inside *)\n")
    out.append("Definition subset_normalized : bool := %s.\n" % ("true" if ok else "false"))
    # --- python glue
    p = F.strip_comments(F.src(PYDIC))
    pb = F.fn_body(p, "lookup", PYDIC)
    call = re.search(r"(%s)\.lookup\(\s*(%s)\s*,\s*([^()]*(?:\(\))?)\s*\)" % (ID, ID), pb)
    if not call:
        raise F.FactError("Dictionary.lookup: call of MorphemeList::lookup not recognised")
    lst, arg, sub = call.group(1), call.group(2), re.sub(r"\s+", "", call.group(3))
    if re.fullmatch(ID, sub):
        # a name given to the fields: `let all = InfoSubset::all();` (bound once, not mut)
        bound = re.findall(r"\blet\s+%s\s*(?::[^=;]+)?=\s*([^;]+);" % re.escape(sub), pb[:call.start()])
        if len(bound) == 1 and not re.search(r"\blet\s+mut\s+%s\b" % re.escape(sub), pb):
            sub = re.sub(r"\s+", "", bound[0])
    cleared = re.search(r"\b%s\.clear\(\)\s*;" % re.escape(lst), pb[:call.start()]) is not None
    sig = re.search(r"fn\s+lookup\s*(?:<[^>]*>)?\s*\(([^)]*)\)", p)
    is_param = sig is not None and re.search(r"\b%s\s*:\s*&(?:'\w+\s+)?str\b" % re.escape(arg), sig.group(1)) is not None
    rebound = re.search(r"\blet\s+(?:mut\s+)?%s\b" % re.escape(arg), pb) is not None
    out.append("(* %s Dictionary.lookup: the list is cleared, then out_list.lookup(<the str parameter, untouched>, <fields>) *)\n" % PYDIC)
    out.append("Definition py_clears_first : bool := %s.\nDefinition py_passes_parameter : bool := %s.\nDefinition py_fields : string := %s.\n" %
               ("true" if cleared else "false", "true" if (is_param and not rebound) else "false", q(sub)))
    return "".join(out)
