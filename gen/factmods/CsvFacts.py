"""Generated/CsvFacts.v — the lexicon reader's own text handling (dic/build/parse.rs, dic/build/lexicon.rs), as far as the
model Model/CodecCsv.v mirrors it: the two regexes, the `\\u` decoding loop, the limits and their comparison operators,
the column -> parser table of parse_record, the fields of an inline split reference, the mode table, the POS numbering
(pos_of, preload_pos, write_pos_table) and the POS table reader (grammar.rs)."""
import re
import facts as F
import shapealpha as SA


def q(s):
    return '"%s"' % s.replace("\\", "\\\\").replace('"', '""') if False else '"%s"' % s.replace('"', '""')


def norm_ws(s):
    return re.sub(r"\s+", "", F.strip_comments(s))


CMP = {">": "CGt", ">=": "CGe", "<": "CLt", "<=": "CLe"}


def gen():
    out = [F.HEADER, "From SudachiVerif Require Import Model.GuardLang.\n\n"]
    rel = "sudachi/src/dic/build/parse.rs"
    t = F.src(rel)
    ts = F.strip_comments(t)
    # --- regexes (raw string literals)
    m = re.search(r'static\s+ref\s+UNICODE_LITERAL\s*:\s*Regex\s*=\s*Regex::new\(r"([^"]*)"\)', t)
    if not m:
        raise F.FactError("UNICODE_LITERAL regex not found")
    out.append("(* the escape forms unescape recognises *)\nDefinition unicode_literal_regex : string := %s.\n" % q(m.group(1)))
    m = re.search(r'static\s+ref\s+WORD_ID_LITERAL\s*:\s*Regex\s*=\s*Regex::new\(r"([^"]*)"\)', t)
    if not m:
        raise F.FactError("WORD_ID_LITERAL regex not found")
    out.append("Definition word_id_literal_regex : string := %s.\n" % q(m.group(1)))
    # --- unescape / unescape_cow / unescape_slow / check_str_len
    for fn_, conv in (("unescape", "Ok(data.to_owned())"), ("unescape_cow", "Ok(Cow::Borrowed(data))")):
        b = norm_ws(F.fn_body(ts, fn_, rel))
        tails = ["unescape_slow(data)"] if fn_ == "unescape" else ["unescape_slow(data).map(|s| Cow::Owned(s))", "unescape_slow(data).map(Cow::Owned)"]
        # F.strip_comments brings `if !c {A} else {B}` to `if c {B} else {A}`: either orientation is read alike
        if SA.alpha_any(F.fn_body(ts, fn_, rel), ["check_str_len(data)?; if UNICODE_LITERAL.is_match(data) { %s } else { %s }" % (tl, conv) for tl in tails]) < 0:
            raise F.FactError("%s changed shape: %r" % (fn_, b))
    # unescape_slow: the text between the matches is copied, every match is decoded as a hexadecimal scalar value and pushed,
    # a value that is no char (or no number) is InvalidCharLiteral(digits).  The decoding statement may be spelled with nested
    # matches, with `.ok().and_then(char::from_u32)` and one match / if-let, or with `ok_or_else(..)?`; bound names are free.
    b = norm_ws(F.fn_body(ts, "unescape_slow", rel))
    head = ("let mut result = String::with_capacity(original.len()); let mut start = 0; for c in UNICODE_LITERAL.captures_iter(original) {"
            " let whole = c.get(0).unwrap(); ")
    push = " result.push_str(&original[start..whole.start()]); "
    post = " start = whole.end(); } result.push_str(&original[start..]); Ok(result)"
    shapes = []
    # the digits: the capture (read with .as_str() where used) or its text bound at once
    for bind, dg in (("let braces = c.get(1).or_else(|| c.get(2)).unwrap();", "braces.as_str()"),
                     ("let braces = c.get(1).or_else(|| c.get(2)).unwrap().as_str();", "braces")):
        err = "Err(BuildFailure::InvalidCharLiteral(%s.to_owned()))" % dg
        dec = "u32::from_str_radix(%s, 16)" % dg
        orelse = "ok_or_else(|| BuildFailure::InvalidCharLiteral(%s.to_owned()))?" % dg
        decode = [
            "match %s { Ok(v) => match char::from_u32(v) { Some(cx) => result.push(cx), None => return %s, }, Err(_) => return %s, }" % (dec, err, err),
            "let decoded = %s.ok().and_then(char::from_u32); match decoded { Some(cx) => result.push(cx), None => return %s, }" % (dec, err),
            "let decoded = %s.ok().and_then(|v| char::from_u32(v)); match decoded { Some(cx) => result.push(cx), None => return %s, }" % (dec, err),
            "match %s.ok().and_then(char::from_u32) { Some(cx) => result.push(cx), None => return %s, }" % (dec, err),
            "match %s.ok().and_then(|v| char::from_u32(v)) { Some(cx) => result.push(cx), None => return %s, }" % (dec, err),
            "if let Some(cx) = %s.ok().and_then(char::from_u32) { result.push(cx); } else { return %s; }" % (dec, err),
            "let cx = %s.ok().and_then(char::from_u32).%s; result.push(cx);" % (dec, orelse),
            "let cx = %s.ok().and_then(|v| char::from_u32(v)).%s; result.push(cx);" % (dec, orelse),
            "result.push(%s.ok().and_then(char::from_u32).%s);" % (dec, orelse),
        ]
        shapes += [head + bind + push + d + post for d in decode]
    if SA.alpha_any(F.fn_body(ts, "unescape_slow", rel), shapes) < 0:
        raise F.FactError("unescape_slow changed shape: %r" % b)
    b = norm_ws(F.fn_body(ts, "check_str_len", rel))
    m = re.fullmatch(r"ifdata\.len\(\)(>=|>)MAX_DIC_STRING_LEN\{Err\(BuildFailure::InvalidSize\{expected:MAX_DIC_STRING_LEN,actual:data\.len\(\),\}\)\}else\{Ok\(\(\)\)\}", b)
    if not m:
        raise F.FactError("check_str_len changed shape: %r" % b)
    out.append("(* check_str_len: Err iff data.len() CMP MAX_DIC_STRING_LEN *)\nDefinition str_len_cmp : cmp := %s.\n" % CMP[m.group(1)])
    env = {"MAX_POS_IDS": F.find_const("sudachi/src/dic/build/mod.rs", "MAX_POS_IDS")}
    out.append("Definition MAX_POS_IDS : Z := %s.\n" % F.coq_int(env["MAX_POS_IDS"], "Z"))
    out.append("Definition MAX_DIC_STRING_LEN : Z := %s.\n" % F.coq_int(F.find_const("sudachi/src/dic/build/mod.rs", "MAX_DIC_STRING_LEN", env), "Z"))
    out.append("Definition MAX_ARRAY_LEN : Z := %s.\n" % F.coq_int(F.find_const("sudachi/src/dic/build/mod.rs", "MAX_ARRAY_LEN"), "Z"))
    out.append("Definition WORD_MASK : Z := %s.\n" % F.coq_int(F.find_const("sudachi/src/dic/word_id.rs", "WORD_MASK"), "Z"))
    # --- numbers and ids
    for fn_, ty, err in (("parse_i16", "i16", "InvalidI16Literal"), ("parse_u32", "u32", "InvalidU32Literal")):
        b = norm_ws(F.fn_body(ts, fn_, rel))
        if SA.alpha_any(F.fn_body(ts, fn_, rel), [
                "match %s::from_str(data) { Ok(v) => Ok(v), Err(_) => Err(BuildFailure::%s(data.to_owned())), }" % (ty, err),
                "%s::from_str(data).map_err(|_| BuildFailure::%s(data.to_owned()))" % (ty, err)]) < 0:
            raise F.FactError("%s changed shape: %r" % (fn_, b))
    b = norm_ws(F.fn_body(ts, "parse_dic_form", rel))
    if not F.same_shape(F.fn_body(ts, "parse_dic_form", rel), 'ifdata=="*"{Ok(WordId::INVALID)}else{parse_wordid(data)}'):
        raise F.FactError("parse_dic_form changed shape: %r" % b)
    b = norm_ws(F.fn_body(ts, "parse_wordid", rel))
    if not F.same_shape(F.fn_body(ts, "parse_wordid", rel), 'ifdata.starts_with("U"){letwid=parse_wordid_raw(&data[1..]);wid.map(|w|WordId::new(1,w.word()))}else{parse_wordid_raw(data)}'):
        raise F.FactError("parse_wordid changed shape: %r" % b)
    b = norm_ws(F.fn_body(ts, "parse_wordid_raw", rel))
    # parse_wordid_raw: a decimal u32 that WordId::checked(0, .) accepts, every failure is InvalidWordId(data)
    inv = "BuildFailure::InvalidWordId(data.to_owned())"
    if SA.alpha_any(F.fn_body(ts, "parse_wordid_raw", rel), [
            "match u32::from_str(data) { Ok(v) => match WordId::checked(0, v) { Ok(id) => Ok(id), Err(_) => Err(%s), }, Err(_) => Err(%s), }" % (inv, inv),
            "let invalid = || %s; let raw = u32::from_str(data).map_err(|_| invalid())?; WordId::checked(0, raw).map_err(|_| invalid())" % inv,
            "let raw = u32::from_str(data).map_err(|_| %s)?; WordId::checked(0, raw).map_err(|_| %s)" % (inv, inv),
            "match u32::from_str(data) { Ok(v) => WordId::checked(0, v).map_err(|_| %s), Err(_) => Err(%s), }" % (inv, inv),
            "u32::from_str(data).ok().and_then(|v| WordId::checked(0, v).ok()).ok_or_else(|| %s)" % inv]) < 0:
        raise F.FactError("parse_wordid_raw changed shape: %r" % b)
    for fn_, item in (("parse_wordid_list", "parse_wordid"), ("parse_u32_list", "parse_u32")):
        b = norm_ws(F.fn_body(ts, fn_, rel))
        if not F.same_shape(F.fn_body(ts, fn_, rel), 'ifdata.is_empty()||data=="*"{returnOk(Vec::new());}parse_slash_list(data,%s)' % item):
            raise F.FactError("%s changed shape: %r" % (fn_, b))
    b = norm_ws(F.fn_body(ts, "parse_slash_list", rel))
    m = re.fullmatch(r'letmutresult=Vec::with_capacity\(4\);forpartindata\.split\("/"\)\{result\.push\(f\(part\)\?\);\}ifresult\.len\(\)(>=|>)MAX_ARRAY_LEN\{'
                     r'returnErr\(BuildFailure::InvalidSize\{expected:MAX_ARRAY_LEN,actual:result\.len\(\),\}\);\}Ok\(result\)', b)
    if not m:
        raise F.FactError("parse_slash_list changed shape: %r" % b)
    out.append("(* parse_slash_list: Err iff result.len() CMP MAX_ARRAY_LEN, after every item parsed *)\nDefinition list_len_cmp : cmp := %s.\n" % CMP[m.group(1)])
    b = norm_ws(F.fn_body(ts, "none_if_equal", rel))
    if not F.same_shape(F.fn_body(ts, "none_if_equal", rel), "ifsurface==data{None}else{matchdata{Cow::Borrowed(x)=>Some(x.to_owned()),Cow::Owned(x)=>Some(x),}}"):
        raise F.FactError("none_if_equal changed shape: %r" % b)
    # --- parse_mode: literal -> mode
    b = F.fn_body(ts, "parse_mode", rel)
    if not re.search(r"match\s+data\.trim\(\)\s*\{", b):
        raise F.FactError("parse_mode no longer matches on data.trim()")
    arms = re.findall(r'((?:"[^"]*"\s*\|?\s*)+)=>\s*Ok\(Mode::([ABC])\)', b)
    table = []
    for lits, mo in arms:
        for lit in re.findall(r'"([^"]*)"', lits):
            table.append((lit, mo))
    if not table or not re.search(r"_\s*=>\s*Err\(BuildFailure::InvalidSplit", b):
        raise F.FactError("parse_mode arms not recognised")
    out.append("Definition mode_table : list (string * string) := [ %s ].\n" % "; ".join("(%s, %s)" % (q(a), q(b_)) for a, b_ in table))
    # --- parse_record: column -> parser
    rel2 = "sudachi/src/dic/build/lexicon.rs"
    t2 = F.strip_comments(F.src(rel2))
    b = F.fn_body(t2, "parse_record", rel2)
    cols = re.findall(r"let\s+(\(?[a-z0-9_,\s]+?\)?)\s*=\s*rec\.(get|get_or_default)\(\s*(\d+)\s*,\s*\"[^\"]*\"\s*,\s*([^;]+?)\)\?;", b)
    rows = []
    for var, how, idx, parser in cols:
        parser = re.sub(r"\s+", "", parser)
        parser = re.sub(r"^\|(\w+)\|self\.parse_splits\(\1\)$", "parse_splits", parser)
        rows.append((re.sub(r"[()\s]", "", var).split(",")[0], int(idx), parser, how == "get_or_default"))
    if len(rows) != 19:
        raise F.FactError("parse_record: expected 19 rec.get(..) lines, found %d" % len(rows))
    out.append("(* parse_record: variable, column, parser, optional column *)\n")
    out.append("Definition record_columns : list (string * N * string * bool) :=\n  [ %s ].\n" %
               ";\n    ".join("(%s, %s, %s, %s)" % (q(v), F.coq_int(i), q(p), "true" if o else "false") for v, i, p, o in rows))
    nb = norm_ws(b)
    if "letpos=rec.ctx.transform(self.pos_of([p1,p2,p3,p4,p5,p6]))?;" not in nb:
        raise F.FactError("parse_record: pos_of([p1..p6]) after the columns not recognised")
    # order of the checks after the columns
    order = [nb.find("self.pos_of(["), nb.find("ifsplitting==Mode::A{if!split_a.is_empty()||!split_b.is_empty(){returnrec.ctx.err(BuildFailure::InvalidSplit("),
             nb.find("ifsurface.is_empty(){returnrec.ctx.err(BuildFailure::EmptySurface);}"), nb.find("ifsurface.contains('\\0'){")]
    if -1 in order or order != sorted(order):
        raise F.FactError("parse_record: checks after the columns (pos_of, A-mode splits, empty surface, NUL) changed: %r" % order)
    ent = ("letentry=RawLexiconEntry{left_id,right_id,cost,dic_form:dic_form_id,norm_form:none_if_equal(&headword,normalized),"
           "reading:none_if_equal(&headword,reading),headword:none_if_equal(&surface,headword),surface,pos,splitting,"
           "splits_a:split_a,splits_b:split_b,word_structure:parts,synonym_groups:synonyms,};Ok(entry)")
    if ent not in nb:
        raise F.FactError("parse_record: construction of RawLexiconEntry changed shape")
    # --- parse_splits / parse_split
    b = norm_ws(F.fn_body(t2, "parse_splits", rel2))
    if not re.match(r'ifdata\.is_empty\(\)\|\|data=="\*"\{returnOk\(\(Vec::new\(\),0\)\);\}parse_slash_list\(data,\|(\w+)\|self\.parse_split\(\1\)\)', b):
        raise F.FactError("parse_splits changed shape: %r" % b)
    b = F.fn_body(t2, "parse_split", rel2)
    nbs = norm_ws(b)
    if not nbs.startswith("ifWORD_ID_LITERAL.is_match(data){Ok(SplitUnit::Ref(parse_wordid(data)?))}else{"):
        raise F.FactError("parse_split: literal branch changed shape")
    m = re.search(r'data\.splitn\(\s*(\d+)\s*,\s*","\s*\)', b)
    if not m:
        raise F.FactError("parse_split: splitn(N, \",\") not found")
    fields = re.findall(r"let\s+(\w+)\s*=\s*it_next\(data,\s*&mut iter,\s*\"[^\"]*\",\s*(\w+)\)\?;", b)
    out.append("Definition inline_splitn : N := %s.\n" % F.coq_int(int(m.group(1))))
    out.append("Definition inline_fields : list (string * string) := [ %s ].\n" % "; ".join("(%s, %s)" % (q(a), q(p)) for a, p in fields))
    if "letpos=self.pos_of([p1,p2,p3,p4,p5,p6])?;Ok(SplitUnit::Inline{pos,reading:none_if_equal(&surface,reading),surface,})" not in nbs:
        raise F.FactError("parse_split: inline branch changed shape")
    # --- POS numbering
    b = norm_ws(F.fn_body(t2, "pos_of", rel2))
    m = re.fullmatch(r"matchself\.pos\.get\(&data\)\{Some\(pos\)=>Ok\(\*pos\),None=>\{letkey=StrPosEntry::new\(data\);letpos_id=self\.pos\.len\(\);"
                     r"ifpos_id(>=|>)MAX_POS_IDS\{Err\(BuildFailure::PosLimitExceeded\(format!\(\"\{:\?\}\",key\)\)\)\}else\{letpos_id=pos_idasu16;"
                     r"self\.pos\.insert\(key,pos_id\);Ok\(pos_id\)\}\}\}", b)
    if not m:
        raise F.FactError("pos_of changed shape: %r" % b)
    out.append("(* pos_of: a new POS gets id = number of POS known so far; Err iff that id CMP MAX_POS_IDS *)\nDefinition pos_limit_cmp : cmp := %s.\n" % CMP[m.group(1)])
    b = norm_ws(F.fn_body(t2, "preload_pos", rel2))
    if "for(i,pos)in" not in b or "self.pos.insert(key,iasu16);}self.start_pos=self.pos.len();" not in b:
        raise F.FactError("preload_pos changed shape: %r" % b)
    b = norm_ws(F.fn_body(t2, "write_pos_table", rel2))
    exp = ("letmutu16w=Utf16Writer::new();letreal_count=self.pos.len()-self.start_pos;w.write_all(&u16::to_le_bytes(real_countasu16))?;"
           "letmutwritten_bytes=2;letmutctx=DicCompilationCtx::default();ctx.set_filename(\"<pos-table>\".to_owned());"
           "for(row,pos_id)inself.pos.iter(){if(*pos_idasusize)<self.start_pos{continue;}forfieldinrow.fields(){"
           "ctx.apply(||u16w.write(w,field).map(|written|written_bytes+=written))?;}ctx.add_line(1);}Ok(written_bytes)")
    if not F.same_shape(F.fn_body(t2, "write_pos_table", rel2), exp):
        raise F.FactError("write_pos_table changed shape: %r" % b)
    rel3 = "sudachi/src/dic/grammar.rs"
    t3 = F.strip_comments(F.src(rel3))
    b = norm_ws(F.fn_body(t3, "pos_list_parser", rel3))
    if not F.same_shape(F.fn_body(t3, "pos_list_parser", rel3), "let(rest,pos_size)=le_u16(input)?;nom::multi::count(nom::multi::count(utf16_string_parser,POS_DEPTH),pos_sizeasusize,)(rest)"):
        raise F.FactError("pos_list_parser changed shape: %r" % b)
    out.append("Definition POS_DEPTH : N := %s.\n" % F.coq_int(F.find_const("sudachi/src/dic/mod.rs", "POS_DEPTH")))
    return "".join(out)
