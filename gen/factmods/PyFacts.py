"""Generated/PyFacts.v — the glue between the Python binding and the core library that C19's model consumes:
names accepted by `SurfaceProjection::try_from` and the subset each kind requires (sudachi/src/config.rs), how each kind
computes its string (python/src/projection.rs: matcher, accessor of the then- and else-branch, the POS component each
matcher tests and the values it compares with), the names documented in python/py_src/sudachipy/config.py, the field
names of `parse_field_subset` and how `Dictionary.create` combines them with the projection's subset
(python/src/dictionary.rs, tokenizer.rs), and the accessors behind Morpheme.begin / end / surface / raw_surface
(python/src/morpheme.rs)."""
import re
import facts as F

CFG = "sudachi/src/config.rs"
PROJ = "python/src/projection.rs"
DIC = "python/src/dictionary.rs"
TOK = "python/src/tokenizer.rs"
MOR = "python/src/morpheme.rs"
PYCFG = "python/py_src/sudachipy/config.py"


def q(s):
    return '"%s"' % s


def cps(s):
    return "[%s]" % "; ".join("%d%%N" % ord(c) for c in s)


def ws(s):
    return re.sub(r"\s+", " ", s).strip()


ACCESSORS = {
    "m.surface().deref()": "surface",
    "m.normalized_form()": "normalized_form",
    "m.reading_form()": "reading_form",
    "m.dictionary_form()": "dictionary_form",
}


def gen():
    out = [F.HEADER]
    c = F.strip_comments(F.src(CFG))
    # ---- enum variants
    m = re.search(r"pub\s+enum\s+SurfaceProjection\s*\{(.*?)\}", c, flags=re.S)
    if not m:
        raise F.FactError("enum SurfaceProjection not found in %s" % CFG)
    variants = re.findall(r"\b([A-Z][A-Za-z]*)\b\s*,", m.group(1))
    if not variants:
        raise F.FactError("no variants of SurfaceProjection recognised")
    out.append("Definition projection_variants : list string := [%s].\n" % "; ".join(q(v) for v in variants))
    # ---- try_from
    m = re.search(r"impl\s+TryFrom<&str>\s+for\s+SurfaceProjection\s*\{(.*?)\n\}", c, flags=re.S)
    if not m:
        raise F.FactError("impl TryFrom<&str> for SurfaceProjection not found")
    body = m.group(1)
    arms = re.findall(r'"([^"]*)"\s*=>\s*Ok\(SurfaceProjection::(\w+)\)', body)
    n_arms = len(re.findall(r"=>", body))
    if not arms or n_arms != len(arms) + 1 or not re.search(r"_\s*=>\s*Err\(", body):
        raise F.FactError("SurfaceProjection::try_from: arms not recognised (%d names, %d arms)" % (len(arms), n_arms))
    out.append("(* SurfaceProjection::try_from: accepted name -> variant; every other string is an error *)\n")
    out.append("Definition projection_names : list (string * string) :=\n  [%s].\n" % "; ".join("(%s, %s)" % (q(a), q(b)) for a, b in arms))
    # ---- required_subset
    b = F.fn_body(c, "required_subset", CFG)
    req = re.findall(r"SurfaceProjection::(\w+)\s*=>\s*([^,]+),", b)
    if len(req) != len(variants):
        raise F.FactError("required_subset: %d arms for %d variants" % (len(req), len(variants)))
    rows = []
    for v, e in req:
        e = e.strip()
        if e == "InfoSubset::empty()":
            flags = []
        else:
            flags = []
            for part in e.split("|"):
                mm = re.fullmatch(r"\s*InfoSubset::([A-Z_]+)\s*", part)
                if not mm:
                    raise F.FactError("required_subset: expression %r not recognised" % e)
                flags.append(mm.group(1))
        rows.append("(%s, [%s])" % (q(v), "; ".join(q(f) for f in flags)))
    out.append("(* SurfaceProjection::required_subset *)\nDefinition required_flags : list (string * list string) :=\n  [%s].\n" % ";\n   ".join(rows))
    # ---- projection.rs
    p = F.strip_comments(F.src(PROJ))
    b = F.fn_body(p, "morpheme_projection", PROJ)
    arms = []
    for chunk in re.split(r"(?=SurfaceProjection::\w+\s*=>)", b):
        mm = re.match(r"SurfaceProjection::(\w+)\s*=>\s*Arc::new\((.*)\)\s*,\s*\}?\s*$", chunk.strip(), flags=re.S)
        if mm:
            arms.append((mm.group(1), mm.group(2)))
    if len(arms) != len(variants):
        raise F.FactError("morpheme_projection: %d arms for %d variants" % (len(arms), len(variants)))
    # structs with a matcher
    structs = {}
    for name in set(re.findall(r"impl\s+MorphemeProjection\s+for\s+(\w+)\s*\{", p)):
        mm = re.search(r"impl\s+MorphemeProjection\s+for\s+%s\s*\{(.*?)\n\}" % name, p, flags=re.S)
        body = ws(mm.group(1))
        m1 = re.search(r"if self\.matcher\.matches_id\(m\.part_of_speech_id\(\)\) \{ PyString::new\(py, ([^)]*\)(?:\.deref\(\))?)\) \} else \{ PyString::new\(py, ([^)]*\)(?:\.deref\(\))?)\) \}", body)
        m0 = re.search(r"\{ PyString::new\(py, (m\.surface\(\)\.deref\(\))\) \}$", body)
        if m1:
            if m1.group(1) not in ACCESSORS or m1.group(2) not in ACCESSORS:
                raise F.FactError("projection %s: accessor not recognised: %r / %r" % (name, m1.group(1), m1.group(2)))
            cons = re.search(r"impl\s+%s\s*\{(.*?)\n\}" % name, p, flags=re.S)
            if not cons:
                raise F.FactError("projection %s: constructor not found" % name)
            cb = ws(cons.group(1))
            if "conjugating_matcher(dic)" in cb:
                mk = "conjugating"
            elif re.search(r'make_matcher\(dic, \|p\| p\[(\d+)\] == "([^"]*)"\)', cb):
                mk = "component_equals"
                mm2 = re.search(r'make_matcher\(dic, \|p\| p\[(\d+)\] == "([^"]*)"\)', cb)
                structs.setdefault("__component__", (int(mm2.group(1)), mm2.group(2)))
                if structs["__component__"] != (int(mm2.group(1)), mm2.group(2)):
                    raise F.FactError("two different component matchers")
            else:
                raise F.FactError("projection %s: matcher not recognised" % name)
            structs[name] = (mk, ACCESSORS[m1.group(1)], ACCESSORS[m1.group(2)])
        elif m0 and "matcher" not in body:
            structs[name] = ("", "surface", "surface")
        elif name != "Mapped":
            raise F.FactError("projection %s: project() not recognised" % name)
    impl = []
    for v, e in arms:
        e = ws(e)
        mm = re.fullmatch(r"Mapped \{ func: \|m\| (m\.\w+\(\)), \}", e)
        if mm:
            if mm.group(1) not in ACCESSORS:
                raise F.FactError("morpheme_projection %s: accessor %r not recognised" % (v, mm.group(1)))
            a = ACCESSORS[mm.group(1)]
            impl.append((v, "", a, a))
            continue
        mm = re.fullmatch(r"(\w+) \{\}", e) or re.fullmatch(r"(\w+)::new\(dict\)", e)
        if mm and mm.group(1) in structs:
            mk, a, b2 = structs[mm.group(1)]
            impl.append((v, mk, a, b2))
            continue
        raise F.FactError("morpheme_projection %s: %r not recognised" % (v, e))
    out.append("(* python/src/projection.rs: variant -> (matcher, accessor when the matcher accepts the POS id, accessor otherwise);\n   \"\" = no matcher, the first accessor is used *)\n")
    out.append("Definition projection_impl : list (string * (string * string * string)) :=\n  [%s].\n" % ";\n   ".join("(%s, (%s, %s, %s))" % (q(v), q(mk), q(a), q(b2)) for v, mk, a, b2 in impl))
    b = ws(F.fn_body(p, "conjugating_matcher", PROJ))
    mm = re.search(r'make_matcher\(dic, \|pos\| match pos\[(\d+)\]\.deref\(\) \{ ((?:"[^"]*"(?: \| )?)+) => true, _ => false, \}\)', b)
    if not mm:
        raise F.FactError("conjugating_matcher not recognised")
    vals = re.findall(r'"([^"]*)"', mm.group(2))
    out.append("(* conjugating_matcher: POS component tested and the values accepted *)\nDefinition conjugating_index : N := %d%%N.\nDefinition conjugating_values : list (list N) :=\n  [%s].\n" % (int(mm.group(1)), "; ".join(cps(v) for v in vals)))
    if "__component__" not in structs:
        raise F.FactError("no component matcher (normalized_nouns) found")
    ci, cv = structs["__component__"]
    out.append("(* the other matcher: POS component compared with one value *)\nDefinition component_index : N := %d%%N.\nDefinition component_value : list N := %s.\n" % (ci, cps(cv)))
    b = ws(F.fn_body(p, "make_matcher", PROJ))
    # every (index, POS) of the grammar, in order; kept iff f(pos); as u16 -- closure with a destructuring `let`, a tuple
    # pattern, if / else or bool::then
    b_ = re.sub(r"\s*\.\s*", ".", b)
    chain = r"dic\.grammar\(\)\.pos_list\.iter\(\)\.enumerate\(\)\.filter_map\("
    keep = r"(?:if f\(pos\) \{ Some\(id as u16\) \} else \{ None \}|f\(pos\)\.then\(\|\| id as u16\)|f\(pos\)\.then_some\(id as u16\))"
    if not re.search(chain + r"(?:\|p\| \{ let \(id, pos\) = p; " + keep + r" \}|\|\(id, pos\)\| (?:\{ )?" + keep + r"(?: \})?)\); PosMatcher::new\(ids\)", b_):
        raise F.FactError("make_matcher shape not recognised")
    b = ws(F.fn_body(p, "parse_projection_raw", PROJ))
    if not re.search(r"match SurfaceProjection::try_from\(value\) \{ Ok\(v\) => \{ if v == SurfaceProjection::Surface \{ Ok\(\(None, SurfaceProjection::Surface\)\) \} else \{ Ok\(\(Some\(morpheme_projection\(v, dict\)\), v\)\) \} \} Err\(e\) => Err\(", b):
        raise F.FactError("parse_projection_raw shape not recognised")
    # ---- documented names
    py = F.src(PYCFG)
    mm = re.search(r"Available options:\s*\n((?:\s*\n|\s*\*\s*\w+\s*\n)+)", py)
    if not mm:
        raise F.FactError("documented projection list not found in %s" % PYCFG)
    docs = re.findall(r"\*\s*(\w+)", mm.group(1))
    out.append("(* names listed in the documentation of sudachipy.config.Config.projection *)\nDefinition documented_projections : list string := [%s].\n" % "; ".join(q(d) for d in docs))
    # ---- parse_field_subset
    d = F.strip_comments(F.src(DIC))
    b = F.fn_body(d, "parse_field_subset", DIC)
    if not re.search(r"if\s+data\.is_none\(\)\s*\{\s*return\s+Ok\(InfoSubset::all\(\)\);\s*\}", b):
        raise F.FactError("parse_field_subset: None => all() not recognised")
    if not re.search(r"let\s+mut\s+subset\s*=\s*InfoSubset::empty\(\);", b) or not re.search(r"subset\s*\|=\s*match\s+s\s*\{", b):
        raise F.FactError("parse_field_subset: accumulation not recognised")
    mb = re.search(r"subset\s*\|=\s*match\s+s\s*\{(.*)\};\s*\}\s*Ok\(subset\)", b, flags=re.S)
    if not mb:
        raise F.FactError("parse_field_subset: match not recognised")
    fields = []
    arms = re.findall(r'((?:"[^"]*"\s*\|?\s*)+)=>\s*InfoSubset::([A-Z_]+)\s*,', mb.group(1))
    for names, flag in arms:
        for nme in re.findall(r'"([^"]*)"', names):
            fields.append((nme, flag))
    if not fields or not re.search(r"x\s*=>\s*\{\s*return\s+Err\(", mb.group(1)):
        raise F.FactError("parse_field_subset: arms not recognised")
    if len(re.findall(r"=>", mb.group(1))) != len(arms) + 1:
        raise F.FactError("parse_field_subset: unexpected arm")
    out.append("(* parse_field_subset: field name -> InfoSubset flag; any other name is an error; None = InfoSubset::all() *)\nDefinition field_names : list (string * string) :=\n  [%s].\n" % "; ".join("(%s, %s)" % (q(a), q(f)) for a, f in fields))
    # ---- Dictionary.create
    b = ws(F.fn_body(d, "create", DIC))
    ok = (re.search(r"let fields = parse_field_subset\(fields\)\?;", b)
          and re.search(r"let mut required_fields = self\.config\.projection\.required_subset\(\);", b)
          and re.search(r"let proj = wrap\(SurfaceProjection::try_from\(s\.to_str\(\)\?\)\)\?; required_fields = proj\.required_subset\(\); Some\(morpheme_projection\(proj, &dict\)\)", b)
          and re.search(r"PyTokenizer::new\(dict, mode, fields \| required_fields, projobj\)", b))
    if not ok:
        raise F.FactError("Dictionary.create: combination of fields and projection subset not recognised")
    t = F.strip_comments(F.src(TOK))
    mm = re.search(r"pub\(crate\)\s+fn\s+new\((.*?)\)\s*->\s*Self\s*\{(.*?)\n    \}", t, flags=re.S)
    if not mm or not re.search(r"tok\.tokenizer\.set_subset\(fields\);", mm.group(2)):
        raise F.FactError("PyTokenizer::new: set_subset(fields) not recognised")
    out.append("(* Dictionary.create hands `fields | required_subset(projection)` to PyTokenizer::new, which passes it to set_subset *)\nDefinition create_ors_required_subset : bool := true.\n")
    # ---- Morpheme accessors
    mo = F.strip_comments(F.src(MOR))

    def body_of(fn):
        mm = re.search(r"fn\s+%s\s*(?:<[^>]*>)?\s*\(&(?:'py\s+)?self,\s*py:\s*Python(?:<'py>)?\)\s*->\s*[^{]+\{(.*?)\n    \}" % fn, mo, flags=re.S)
        if not mm:
            raise F.FactError("Morpheme.%s not found in %s" % (fn, MOR))
        return ws(mm.group(1))
    if body_of("begin") != "self.morph(py).begin_c()":
        raise F.FactError("Morpheme.begin is no longer begin_c()")
    if body_of("end") != "self.morph(py).end_c()":
        raise F.FactError("Morpheme.end is no longer end_c()")
    if body_of("raw_surface") != "PyString::new(py, self.morph(py).surface().deref())":
        raise F.FactError("Morpheme.raw_surface is no longer the core surface()")
    plain, projected = "PyString::new(py, morph.surface().deref())", "proj.project(morph.deref(), py)"
    head = "let list = self.list(py); let morph = self.morph(py); "
    if body_of("surface") not in (
            head + "match list.projection() { None => %s, Some(proj) => %s, }" % (plain, projected),
            head + "match list.projection() { Some(proj) => %s, None => %s, }" % (projected, plain),
            head + "if let Some(proj) = list.projection() { %s } else { %s }" % (projected, plain)):
        raise F.FactError("Morpheme.surface shape not recognised")
    out.append("Definition py_begin_is : string := \"begin_c\".\nDefinition py_end_is : string := \"end_c\".\nDefinition py_raw_surface_is : string := \"surface\".\n")
    return "".join(out)
