"""Facts of the numeral parser (C15): the character table, unit predicates, separator characters, group length,
initial StringNumber field values and the comparison that lets `add` succeed."""
import re
import facts as F

MOD = "sudachi/src/plugin/path_rewrite/join_numeric/numeric_parser/mod.rs"
SN = "sudachi/src/plugin/path_rewrite/join_numeric/numeric_parser/string_number.rs"

CMP = {">=": "CGe", ">": "CGt", "<=": "CLe", "<": "CLt", "==": "CEq", "!=": "CNe"}


def gen():
    t = F.strip_comments(F.src(MOD))
    s = F.strip_comments(F.src(SN))
    out = [F.HEADER]
    out.append("Inductive cmp := CGe | CGt | CLe | CLt | CEq | CNe.\n")
    # --- character table
    body = F.fn_body(t, "make_char_to_num_data", MOD)
    m = re.search(r"let\s+char_to_num_data\s*=\s*\[(.*?)\];", body, flags=re.S)
    if not m:
        raise F.FactError("char_to_num_data array not found in %s" % MOD)
    rows = re.findall(r"\(\s*'(.)'\s*,\s*(-?\d+)\s*\)", m.group(1))
    if not rows or len(rows) != len(re.findall(r"\(", m.group(1))):
        raise F.FactError("char_to_num_data rows not recognised in %s" % MOD)
    out.append("(* (code point, value): digits >= 0, units as negated power of ten *)\n")
    out.append("Definition char_to_num_kanji : list (N * Z) :=\n  [ %s ].\n" %
               ";\n    ".join("(%s, %s)" % (F.coq_int(ord(c)), F.coq_int(int(v), "Z")) for c, v in rows))
    m = re.search(r"\.chain\(\s*\(\s*(\d+)\s*\.\.\s*(\d+)\s*\)\s*\.map\(\s*\|i\|\s*\(\s*i\.to_string\(\)\.chars\(\)\.next\(\)\.unwrap\(\)\s*,\s*i\s*\)\s*\)\s*\)", body)
    if not m:
        raise F.FactError("ASCII digit chain (0..10) not recognised in make_char_to_num_data")
    lo, hi = int(m.group(1)), int(m.group(2))
    if not (0 <= lo <= hi <= 10):
        raise F.FactError("ASCII digit chain %d..%d would not map to single characters" % (lo, hi))
    out.append("Definition char_to_num_ascii : list (N * Z) :=\n  [ %s ].\n" %
               "; ".join("(%s, %s)" % (F.coq_int(ord(str(i))), F.coq_int(i, "Z")) for i in range(lo, hi)))
    # --- unit predicates
    b = F.fn_body(t, "is_small_unit", MOD)
    m = re.fullmatch(r"\s*(-?\d+)\s*<=\s*n\s*&&\s*n\s*<\s*(-?\d+)\s*", b)
    if not m:
        # the same test from the other side (canon turns `LO <= n` into `n >= LO`) or as a half-open range
        m = (re.fullmatch(r"\s*n\s*>=\s*(-?\d+)\s*&&\s*n\s*<\s*(-?\d+)\s*", b)
             or re.fullmatch(r"\s*\(\s*(-?\d+)\s*\.\.\s*(-?\d+)\s*\)\.contains\(&n\)\s*", b))
    if not m:
        raise F.FactError("is_small_unit is no longer `LO <= n && n < HI`")
    out.append("Definition small_unit_lo : Z := %s.\nDefinition small_unit_hi : Z := %s.\n" %
               (F.coq_int(int(m.group(1)), "Z"), F.coq_int(int(m.group(2)), "Z")))
    b = F.fn_body(t, "is_large_unit", MOD)
    m = re.fullmatch(r"\s*n\s*<\s*(-?\d+)\s*", b)
    if not m:
        raise F.FactError("is_large_unit is no longer `n < K`")
    out.append("Definition large_unit_below : Z := %s.\n" % F.coq_int(int(m.group(1)), "Z"))
    # --- separators in NumericParser::append
    b = F.fn_body(t, "append", MOD)
    seps = re.findall(r"if\s+\*c\s*==\s*'(.)'\s*\{", b)
    if len(seps) != 2:
        raise F.FactError("NumericParser::append: expected two separator branches, found %r" % seps)
    out.append("Definition point_char : N := %s.\nDefinition comma_char : N := %s.\n" % (F.coq_int(ord(seps[0])), F.coq_int(ord(seps[1]))))
    # order of the checks in the point branch (hanging flag first, then first-digit, comma, set_point)
    pb = b[b.index("if *c == '%s'" % seps[0]):b.index("if *c == '%s'" % seps[1])]
    order = [k for k in re.findall(r"self\.has_hanging_point\s*=\s*true|self\.is_first_digit|self\.check_comma\(\)|self\.tmp\.set_point\(\)|self\.has_comma\s*=\s*false", pb)]
    want = ["self.has_hanging_point = true", "self.is_first_digit", "self.check_comma()", "self.tmp.set_point()", "self.has_comma = false"]
    if [re.sub(r"\s+", " ", k) for k in order] != want:
        raise F.FactError("point branch of NumericParser::append has a different shape: %r" % order)
    # --- check_comma / done group length
    b = F.fn_body(t, "check_comma", MOD)
    m = re.search(r"if\s+!self\.has_comma\s*\{\s*return\s+self\.digit_length\s*(<=|<|==|>=|>)\s*(\d+)\s*&&\s*!self\.tmp\.is_zero\(\)\s*&&\s*!self\.tmp\.is_all_zero\s*;\s*\}\s*self\.digit_length\s*(==|<=|>=|<|>|!=)\s*(\d+)", b)
    if not m or not re.search(r"if\s+self\.is_first_digit\s*\{\s*return\s+false;", b):
        raise F.FactError("check_comma shape not recognised")
    out.append("Definition first_group_cmp : cmp := %s.\nDefinition first_group_len : N := %s.\n" % (CMP[m.group(1)], F.coq_int(int(m.group(2)))))
    out.append("Definition next_group_cmp : cmp := %s.\nDefinition next_group_len : N := %s.\n" % (CMP[m.group(3)], F.coq_int(int(m.group(4)))))
    b = F.fn_body(t, "done", MOD)
    m = re.search(r"if\s+self\.has_comma\s*&&\s*self\.digit_length\s*(!=|==|<|>|<=|>=)\s*(\d+)\s*\{\s*self\.error_state\s*=\s*Error::COMMA", b)
    if not m:
        raise F.FactError("done(): final comma-group check not recognised")
    out.append("(* done() REJECTS when has_comma and digit_length <cmp> n *)\nDefinition last_group_reject_cmp : cmp := %s.\nDefinition last_group_len : N := %s.\n" % (CMP[m.group(1)], F.coq_int(int(m.group(2)))))
    acc = r"self\.subtotal\.add\(&mut\s+self\.tmp\)\s*&&\s*self\.total\.add\(&mut\s+self\.subtotal\)"
    if not re.search(r"(?:let\s+(\w+)\s*=\s*" + acc + r"\s*;\s*if\s+!\1|if\s+!\(\s*" + acc + r"\s*\))\s*\{\s*return\s+false;\s*\}\s*if\s+self\.has_hanging_point", b):
        raise F.FactError("done(): accumulation, early return on a malformed number, hanging point order not recognised")
    # --- StringNumber
    b = F.fn_body(s, "new", SN)
    m = re.search(r"scale\s*:\s*(\d+)\s*,\s*point\s*:\s*(-?\d+)\s*,\s*is_all_zero\s*:\s*(true|false)", b)
    if not m:
        raise F.FactError("StringNumber::new field values not recognised")
    if int(m.group(2)) >= 0:
        raise F.FactError("StringNumber::new: point starts at %s (the model encodes `no point` as a negative value)" % m.group(2))
    out.append("Definition new_scale : N := %s.\nDefinition new_all_zero : bool := %s.\n" % (F.coq_int(int(m.group(1))), m.group(3)))
    b = F.fn_body(s, "add", SN)
    m = re.search(r"if\s+" + F.cmp_alt(r"self\.scale", "length", "fit", (">=", ">", "<=", "<", "==")) + r"\s*\{\s*self\.fill_zero\(self\.scale\s*-\s*length\)", b)
    fit = F.cmp_op(m, "fit") if m else None
    if not m:
        # the same test as a guard clause: `if self.scale <negated cmp> length { return false; }` in front of the fill
        m = re.search(r"if\s+" + F.cmp_alt(r"self\.scale", "length", "fit", (">=", ">", "<=", "<")) +
                      r"\s*\{\s*return\s+false;\s*\}\s*self\.fill_zero\(self\.scale\s*-\s*length\)", b)
        if m:
            fit = {"<": ">=", "<=": ">", ">": "<=", ">=": "<"}[F.cmp_op(m, "fit")]
    if not m:
        raise F.FactError("StringNumber::add: fit test `self.scale >= length` not recognised")
    out.append("(* add succeeds when scale <cmp> int_length(addend) *)\nDefinition add_fit_cmp : cmp := %s.\n" % CMP[fit])
    b = F.fn_body(s, "set_point", SN)
    m = re.search(r"if\s+self\.scale\s*==\s*(\d+)\s*&&\s*self\.point\s*<\s*(\d+)\s*\{\s*self\.point\s*=\s*self\.significand\.len\(\)", b)
    if not m or m.group(1) != "0" or m.group(2) != "0":
        raise F.FactError("StringNumber::set_point guard not recognised")
    b = F.fn_body(s, "shift_scale", SN)
    m = re.search(r"if\s+self\.is_zero\(\)\s*\{\s*self\.significand\s*\+=\s*\"(\d)\"", b)
    if not m:
        raise F.FactError("StringNumber::shift_scale: implicit coefficient not recognised")
    out.append("Definition implicit_coefficient : N := %s.\n" % F.coq_int(int(m.group(1))))
    b = F.fn_body(s, "normalize_scale", SN)
    m = re.search(r"if\s+" + F.cmp_alt("n_scale", r"\(?self\.scale\s+as\s+i32\)?", "norm", (">=", ">")), b)
    if not m:
        raise F.FactError("StringNumber::normalize_scale comparison not recognised")
    out.append("Definition normalize_cmp : cmp := %s.\n" % CMP[F.cmp_op(m, "norm")])
    return "".join(out)
