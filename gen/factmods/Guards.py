"""Generated/Guards.v: the range guards of the load-time parameter checks (C20).

For every checked value: the list of `if <value> OP <rhs> { return Err(..) }` guards in source order, the integer type
the value is parsed into, and which CheckParams function each plugin applies to which setting."""
import re
import facts as F

CMP = {"<": "CLt", "<=": "CLe", ">": "CGt", ">=": "CGe", "==": "CEq", "!=": "CNe"}
ITY = {"i16": "I16", "i32": "I32", "i64": "I64", "u16": "U16", "u32": "U32"}


DIMPAT = r"(?:self\.|grammar\.|matrix\.|cm\.)?(?:conn_matrix\(\)\.)?(?:num_%s(?:\(\))?|max_%s)"


def rhs_term(rhs, where, lets=None):
    r = rhs.strip()
    r = re.sub(r"^\((.*)\)$", r"\1", r).strip()
    if lets and re.fullmatch(r"[a-z_][a-z_0-9]*", r) and r in lets:
        r = lets[r].strip()
    for side, name in (("left", "NumLeft"), ("right", "NumRight")):
        if re.search(r"\b(num_%s|max_%s)\b" % (side, side), r):
            if re.fullmatch(DIMPAT % (side, side), r):
                return "ODim %s" % name
            m = re.fullmatch((DIMPAT % (side, side)) + r"\.max\(([0-9]+)\)", r)
            if m:
                return "ODimMax %s %s" % (name, F.coq_int(int(m.group(1)), "Z"))
            raise F.FactError("unrecognised right-hand side %r in %s" % (rhs, where))
    return "OConst %s" % F.coq_int(F.const_eval(r), "Z")


def guards_of(body, aliases, where):
    """all guards on the value named by `aliases` ({source name: cast}) whose block returns an error, in source order.
    Conditions may be disjunctions; a conjunction mentioning the value is not understood."""
    out = []
    lets = dict(re.findall(r"\blet\s+([a-z_][a-z_0-9]*)\s*=\s*([^;]+);", body))
    for m in re.finditer(r"\bif\s+([^{};]+?)\s*\{\s*return\s+(?:Err\b|num_error\b|[a-z_]+\.err\b|Err\()", body):
        cond = m.group(1)
        names = set(re.findall(r"[A-Za-z_][A-Za-z_0-9.]*", cond))
        if not (names & set(aliases)):
            continue
        if "&&" in cond:
            raise F.FactError("guard with && on %s in %s: %r" % (sorted(aliases), where, cond))
        for atom in cond.split("||"):
            a = atom.strip()
            a = re.sub(r"^\((.*)\)$", r"\1", a).strip()
            mm = re.fullmatch(r"\(?\*?([A-Za-z_][A-Za-z_0-9.]*)(\s+as\s+usize)?\)?\s*(<=|>=|==|!=|<|>)\s*(.+)", a)
            if not mm or mm.group(1) not in aliases:
                # the checked value may stand on the right: `limit <= x` is `x >= limit`
                mr = re.fullmatch(r"(.+?)\s*(<=|>=|==|!=|<|>)\s*\(?\*?([A-Za-z_][A-Za-z_0-9.]*)(\s+as\s+usize)?\)?", a)
                if mr and mr.group(3) in aliases:
                    turned = {"<": ">", ">": "<", "<=": ">=", ">=": "<=", "==": "==", "!=": "!="}[mr.group(2)]
                    name, asus, op, rhs = mr.group(3), mr.group(4), turned, mr.group(1)
                    cast = "CastUsize" if (asus or aliases[name] == "usize") else "CastNone"
                    out.append("mkG %s %s (%s)" % (cast, CMP[op], rhs_term(rhs, where, lets)))
                    continue
            if not mm:
                raise F.FactError("unrecognised guard atom %r in %s" % (atom, where))
            name, asus, op, rhs = mm.groups()
            if name not in aliases:
                continue
            cast = "CastUsize" if (asus or aliases[name] == "usize") else "CastNone"
            out.append("mkG %s %s (%s)" % (cast, CMP[op], rhs_term(rhs, where, lets)))
    return out


def coq_list(name, items, ty="guard"):
    return "Definition %s : list %s := [ %s ].\n" % (name, ty, "; ".join(items))


def field_type(text, struct, field, where):
    m = re.search(r"struct\s+%s\s*\{(.*?)\n\}" % struct, text, flags=re.S)
    if not m:
        raise F.FactError("struct %s not found in %s" % (struct, where))
    # the type runs to the comma that ends the field (at bracket depth 0), over line breaks
    fields = re.sub(r"\s+", " ", m.group(1))
    mm = re.search(r"\b%s\s*:\s*" % field, fields)
    if not mm:
        raise F.FactError("field %s.%s not found in %s" % (struct, field, where))
    depth, i = 0, mm.end()
    while i < len(fields) and not (fields[i] == "," and depth == 0):
        depth += fields[i] in "<(["
        depth -= fields[i] in ">)]"
        i += 1
    return re.sub(r"\s*([<>(),])\s*", r"\1", fields[mm.end():i].strip()).replace(",", ", ").replace(", )", ")")


def gen():
    out = [F.HEADER, "From SudachiVerif Require Import Model.GuardLang.\nOpen Scope Z_scope.\n\n"]
    # ---- util/check_params.rs
    rel = "sudachi/src/util/check_params.rs"
    t = F.strip_comments(F.src(rel))
    impl = t[t.index("impl<'a> CheckParams for Grammar"):] if "impl<'a> CheckParams for Grammar" in t else None
    if impl is None:
        raise F.FactError("impl CheckParams for Grammar not found in %s" % rel)
    for fn in ("check_left_id", "check_right_id", "check_cost"):
        b = F.fn_body(impl, fn, rel)
        if not re.search(r"let\s+x\s*=\s*raw\.into\(\)\s*;", b):
            raise F.FactError("%s: `let x = raw.into();` not found" % fn)
        aliases = {"x": "none"}
        if re.search(r"let\s+ux\s*=\s*x\s+as\s+usize\s*;", b):
            aliases["ux"] = "usize"
        elif re.search(r"\bux\b", b):
            raise F.FactError("%s: ux is not `x as usize`" % fn)
        gs = guards_of(b, aliases, "%s:%s" % (rel, fn))
        out.append(coq_list(fn + "_guards", gs))
        res = {"check_left_id": "u16", "check_right_id": "u16", "check_cost": "i16"}[fn]
        if not re.search(r"return\s+Ok\(x\s+as\s+%s\)" % res, b):
            raise F.FactError("%s no longer returns `x as %s`" % (fn, res))
    # ---- simple_oov / regex_oov: which check is applied to which setting, and the JSON field types
    for mod, struct, prefix in (("simple_oov", "PluginSettings", "simple"), ("regex_oov", "RegexProviderConfig", "regex")):
        rel = "sudachi/src/plugin/oov/%s/mod.rs" % mod
        t = F.strip_comments(F.src(rel))
        b = F.fn_body(t, "set_up", rel)
        for fn, fld in (("check_left_id", "leftId"), ("check_right_id", "rightId"), ("check_cost", "cost")):
            if not re.search(r"grammar\.%s\(\s*\w+\.%s\s*\)\s*\?" % (fn, fld), b):
                raise F.FactError("%s set_up no longer applies %s to %s" % (mod, fn, fld))
            ty = field_type(t, struct, fld, rel)
            if ty not in ITY:
                raise F.FactError("%s.%s has unsupported type %s" % (struct, fld, ty))
            out.append("Definition %s_%s_ty : ity := %s.\n" % (prefix, fld, ITY[ty]))
        if not re.search(r"grammar\.handle_user_pos\(", b):
            raise F.FactError("%s set_up no longer calls handle_user_pos" % mod)
    # ---- mecab_oov: unk.def
    rel = "sudachi/src/plugin/oov/mecab_oov/mod.rs"
    t = F.strip_comments(F.src(rel))
    # range checks moved into a private helper (`Self::check(&oov, grammar)?`) are read where the helper is called
    b = F.inline_calls(t, F.fn_body(t, "read_oov", rel))
    for fld, col in (("left_id", 1), ("right_id", 2), ("cost", 3)):
        if not re.search(r"\b%s\s*:\s*cols\[%d\]\.parse\(\)\?" % (fld, col), b):
            raise F.FactError("read_oov: %s is no longer parsed from column %d" % (fld, col))
        ty = field_type(t, "OOV", fld, rel)
        if ty not in ITY:
            raise F.FactError("OOV.%s has unsupported type %s" % (fld, ty))
        out.append("Definition unk_%s_ty : ity := %s.\n" % (fld, ITY[ty]))
    mo = re.search(r"\blet\s+([a-z_][a-z_0-9]*)\s*=\s*OOV\s*\{", b)
    if not mo:
        raise F.FactError("read_oov: `let <name> = OOV { .. }` not found")
    oov_var = mo.group(1)
    for fld in ("left_id", "right_id"):
        gs = guards_of(b, {oov_var + "." + fld: "none"}, "%s:read_oov" % rel)
        out.append(coq_list("unk_%s_guards" % fld, gs))
    nb = F.fn_body(t, "get_oov_node", rel)
    if not re.search(r"\b(\w+)\.left_id\s+as\s+u16\s*,\s*\1\.right_id\s+as\s+u16\s*,\s*\1\.cost\s*,", nb):
        raise F.FactError("get_oov_node no longer passes (left_id as u16, right_id as u16, cost)")
    # ---- inhibit_connection.rs
    rel = "sudachi/src/plugin/connect_cost/inhibit_connection.rs"
    t = F.strip_comments(F.src(rel))
    t = t.split("#[cfg(test)]")[0]
    ty = field_type(t, "PluginSettings", "inhibitPair", rel)
    m = re.fullmatch(r"Vec<\((\w+),(\w+)\)>", re.sub(r"\s+", "", ty))
    if not m or m.group(1) not in ITY or m.group(2) not in ITY:
        raise F.FactError("inhibitPair has unsupported type %s" % ty)
    out.append("Definition inhibit_left_ty : ity := %s.\nDefinition inhibit_right_ty : ity := %s.\n" % (ITY[m.group(1)], ITY[m.group(2)]))
    # a range check moved into a private helper (`Self::check(.., *left, matrix.num_left())?`) is read where it is called
    b = F.inline_calls(t, F.fn_body(t, "set_up", rel))
    out.append(coq_list("inhibit_left_guards", guards_of(b, {"left": "none"}, rel + ":set_up")))
    out.append(coq_list("inhibit_right_guards", guards_of(b, {"right": "none"}, rel + ":set_up")))
    eb = F.fn_body(t, "edit", rel)
    if not re.search(r"for\s+\(left,\s*right\)\s+in\s+&self\.inhibit_pairs\s*\{\s*InhibitConnectionPlugin::inhibit_connection\(grammar,\s*\*left,\s*\*right\)", eb):
        raise F.FactError("InhibitConnectionPlugin::edit has an unrecognised shape")
    ib = F.fn_body(t, "inhibit_connection", rel)
    if not re.search(r"grammar\.set_connect_cost\(left,\s*right,\s*Grammar::INHIBITED_CONNECTION\)", ib):
        raise F.FactError("inhibit_connection no longer calls set_connect_cost(left, right, INHIBITED_CONNECTION)")
    out.append("Definition INHIBITED_CONNECTION : Z := %s.\n" % F.coq_int(F.find_const("sudachi/src/dic/grammar.rs", "INHIBITED_CONNECTION"), "Z"))
    # ---- util/user_pos.rs: the mode a provider gets when its settings do not mention userPOS (Default of UserPosMode),
    # read from a manual `impl Default` or from `#[derive(Default)]` + `#[default]` on a variant
    rel = "sudachi/src/util/user_pos.rs"
    t = F.strip_comments(F.src(rel))
    me = re.search(r"((?:#\[[^\]]*\]\s*)*)pub\s+enum\s+UserPosMode\s*\{(.*?)\}", t, flags=re.S)
    if not me:
        raise F.FactError("enum UserPosMode not found in %s" % rel)
    variants = re.findall(r"((?:#\[[^\]]*\]\s*)*)([A-Z][A-Za-z]*)\s*,", me.group(2))
    if sorted(v for _, v in variants) != ["Allow", "Forbid"]:
        raise F.FactError("UserPosMode no longer has exactly the variants Allow and Forbid")
    manual = re.search(r"impl\s+Default\s+for\s+UserPosMode\s*\{\s*fn\s+default\(\)\s*->\s*Self\s*\{\s*(?:UserPosMode|Self)::([A-Za-z]+)\s*\}\s*\}", t)
    derived = re.search(r"derive\([^)]*\bDefault\b[^)]*\)", me.group(1)) is not None
    marked = [v for attrs, v in variants if re.search(r"#\[default\]", attrs)]
    if manual and not derived and not marked:
        dflt = manual.group(1)
    elif derived and not manual and len(marked) == 1:
        dflt = marked[0]
    else:
        raise F.FactError("Default of UserPosMode: neither a manual impl nor derive(Default) + one #[default] variant")
    if dflt not in ("Allow", "Forbid"):
        raise F.FactError("Default of UserPosMode is the unknown variant %s" % dflt)
    out.append("(* UserPosMode::default(): what a provider gets when its settings do not mention userPOS *)\nDefinition user_pos_default_allow : bool := %s.\n" % ("true" if dflt == "Allow" else "false"))
    if not re.search(r"#\[serde\(rename_all\s*=\s*\"lowercase\"\)\]", me.group(1)):
        raise F.FactError("UserPosMode is no longer #[serde(rename_all = \"lowercase\")]")
    opt = []
    for mod, struct in (("simple_oov", "PluginSettings"), ("regex_oov", "RegexProviderConfig"), ("mecab_oov", "PluginSettings")):
        tt = F.strip_comments(F.src("sudachi/src/plugin/oov/%s/mod.rs" % mod))
        ms = re.search(r"struct\s+%s\s*\{(.*?)\n\}" % struct, tt, flags=re.S)
        if not ms:
            raise F.FactError("struct %s not found in %s" % (struct, mod))
        opt.append(re.search(r"#\[serde\(default\)\]\s*userPOS:\s*UserPosMode\s*,", ms.group(1)) is not None)
    out.append("(* userPOS is `#[serde(default)] userPOS: UserPosMode` in the settings of SimpleOov / RegexOov / MeCabOov *)\nDefinition user_pos_key_optional : bool := %s.\n" % ("true" if all(opt) else "false"))
    # ---- register_pos limit
    rel = "sudachi/src/dic/grammar.rs"
    t = F.strip_comments(F.src(rel))
    b = F.fn_body(t, "register_pos", rel)
    m = re.search(r"if\s+new_id\s*(>=|>)\s*u16::MAX\s+as\s+usize", b)
    if not m:
        raise F.FactError("register_pos limit check not recognised")
    out.append("Definition register_pos_limit_guard : guard := mkG CastNone %s (OConst 65535).\n" % CMP[m.group(1)])
    return "".join(out)
