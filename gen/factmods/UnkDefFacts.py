"""Generated/UnkDefFacts.v: shape of the two text readers of MeCabOovPlugin (C20, text layer).

  read_character_property  -- the category-definition lines `NAME invoke group length` of char.def
  read_oov                 -- unk.def lines `category,left,right,cost,pos1..pos6`
Extracted: which lines are skipped, the tokeniser, the minimum column count and its comparison, which column feeds which field,
the literal compared for the boolean flags, the integer type of `length`, the duplicate / undefined category rules and the
error value each check returns, the POS column slice, the order of the checks."""
import re
import facts as F

REL = "sudachi/src/plugin/oov/mecab_oov/mod.rs"
CMP = {"<": "CLt", "<=": "CLe", ">": "CGt", ">=": "CGe", "==": "CEq", "!=": "CNe"}
ITY = {"i16": "I16", "i32": "I32", "i64": "I64", "u16": "U16", "u32": "U32"}


def positions(body, pats, what):
    """each pattern must occur, in this order"""
    pos = []
    for name, p in pats:
        m = re.search(p, body, flags=re.S)
        if not m:
            raise F.FactError("%s: %s not recognised" % (what, name))
        pos.append(m.start())
    if pos != sorted(pos):
        raise F.FactError("%s: the order of the checks changed (%s)" % (what, ", ".join(n for n, _ in pats)))


def codes(s):
    return "[ %s ]" % "; ".join("%d%%N" % ord(c) for c in s)


def gen():
    out = [F.HEADER, "From SudachiVerif Require Import Model.GuardLang.\n\n"]
    t = F.strip_comments(F.src(REL))
    t = t.split("#[cfg(test)]\nmod test;")[0] + t.split("#[cfg(test)]\nmod test;")[-1]
    # ------------------------------------------------------------ read_character_property
    b = F.fn_body(t, "read_character_property", REL)
    if not re.search(r"for\s+\(i,\s*line\)\s+in\s+reader\.lines\(\)\.enumerate\(\)", b):
        raise F.FactError("read_character_property: no longer `for (i, line) in reader.lines().enumerate()`")
    if not re.search(r"let\s+line\s*=\s*line\?;\s*let\s+line\s*=\s*line\.trim\(\);", b):
        raise F.FactError("read_character_property: `let line = line?; let line = line.trim();` not found")
    m = re.search(r"if\s+line\.is_empty\(\)\s*\|\|\s*line\.chars\(\)\.next\(\)\.unwrap\(\)\s*==\s*'(.)'\s*\|\|\s*line\.chars\(\)\.take\(2\)\.collect::<Vec<_>>\(\)\s*==\s*vec!\['(.)',\s*'(.)'\]\s*\{\s*continue;", b)
    if not m:
        raise F.FactError("read_character_property: skip rule (empty / comment / range line) not recognised")
    out.append("(* read_character_property: skipped are empty lines, lines starting with this character, and lines starting with this prefix *)\n")
    out.append("Definition charprop_comment : N := %d%%N.\nDefinition charprop_range_prefix : list N := %s.\n" % (ord(m.group(1)), codes(m.group(2) + m.group(3))))
    if not re.search(r"let\s+cols:\s*Vec<_>\s*=\s*line\.split_whitespace\(\)\.collect\(\);", b):
        raise F.FactError("read_character_property: columns are no longer line.split_whitespace()")
    m = re.search(r"if\s+cols\.len\(\)\s*(<=|<|>=|>)\s*([0-9]+)\s*\{\s*return\s+Err\(SudachiError::InvalidCharacterCategory\(\s*CharacterCategoryError::InvalidFormat\(i\)", b)
    if not m:
        raise F.FactError("read_character_property: column-count check not recognised")
    out.append("(* error InvalidFormat(i) iff  cols.len() CMP N *)\nDefinition charprop_cols_guard : guard := mkG CastNone %s (OConst (%s)%%Z).\n" % (CMP[m.group(1)], m.group(2)))
    positions(b, [
        ("column count check", r"cols\.len\(\)"),
        ("category parse -> InvalidCategoryType(i, ..)", r"let\s+category_type:\s*CategoryType\s*=\s*match\s+cols\[0\]\.parse\(\)\s*\{\s*Ok\(t\)\s*=>\s*t,\s*Err\(_\)\s*=>\s*\{\s*return\s+Err\(SudachiError::InvalidCharacterCategory\(\s*CharacterCategoryError::InvalidCategoryType\(i,"),
        ("duplicate check -> MultipleTypeDefinition(i, ..)", r"if\s+categories\.contains_key\(&category_type\)\s*\{\s*return\s+Err\(SudachiError::InvalidCharacterCategory\(\s*CharacterCategoryError::MultipleTypeDefinition\(i,"),
        ("insert", r"categories\.insert\(\s*category_type,\s*CategoryInfo\s*\{"),
    ], "read_character_property")
    m = re.search(r"CategoryInfo\s*\{\s*category_type,\s*is_invoke:\s*cols\[([0-9]+)\]\s*==\s*\"([^\"]*)\",\s*is_group:\s*cols\[([0-9]+)\]\s*==\s*\"([^\"]*)\",\s*length:\s*cols\[([0-9]+)\]\.parse\(\)\?,\s*\}", b)
    if not m:
        raise F.FactError("read_character_property: CategoryInfo { category_type, is_invoke: cols[..] == \"..\", is_group: .., length: cols[..].parse()? } not recognised")
    out.append("Definition charprop_invoke_col : nat := %s.\nDefinition charprop_group_col : nat := %s.\nDefinition charprop_length_col : nat := %s.\n" % (m.group(1), m.group(3), m.group(5)))
    if m.group(2) != m.group(4):
        raise F.FactError("read_character_property: is_invoke and is_group compare with different literals")
    out.append("(* a flag is true iff its column is exactly this text *)\nDefinition charprop_true_literal : list N := %s.\n" % codes(m.group(2)))
    ms = re.search(r"struct\s+CategoryInfo\s*\{(.*?)\n\}", t, flags=re.S)
    ml = re.search(r"\blength\s*:\s*([a-z0-9]+)", ms.group(1)) if ms else None
    if not ml or ml.group(1) not in ITY:
        raise F.FactError("CategoryInfo.length: type not recognised")
    out.append("Definition charprop_length_ty : ity := %s.\n" % ITY[ml.group(1)])
    # ------------------------------------------------------------ read_oov
    b = F.fn_body(t, "read_oov", REL)
    if not re.search(r"for\s+\(i,\s*line\)\s+in\s+reader\.lines\(\)\.enumerate\(\)", b):
        raise F.FactError("read_oov: no longer `for (i, line) in reader.lines().enumerate()`")
    if not re.search(r"let\s+line\s*=\s*line\?;\s*let\s+line\s*=\s*line\.trim\(\);", b):
        raise F.FactError("read_oov: `let line = line?; let line = line.trim();` not found")
    m = re.search(r"if\s+line\.is_empty\(\)\s*\|\|\s*line\.chars\(\)\.next\(\)\.unwrap\(\)\s*==\s*'(.)'\s*\{\s*continue;", b)
    if not m:
        raise F.FactError("read_oov: skip rule (empty / comment) not recognised")
    out.append("(* read_oov: skipped are empty lines and lines starting with this character *)\nDefinition unk_comment : N := %d%%N.\n" % ord(m.group(1)))
    m = re.search(r"let\s+cols:\s*Vec<_>\s*=\s*line\.split\('(.)'\)\.collect\(\);", b)
    if not m:
        raise F.FactError("read_oov: columns are no longer line.split(<char>)")
    out.append("Definition unk_separator : N := %d%%N.\n" % ord(m.group(1)))
    m = re.search(r"if\s+cols\.len\(\)\s*(<=|<|>=|>)\s*([0-9]+)\s*\{\s*return\s+Err\(SudachiError::InvalidDataFormat\(i,", b)
    if not m:
        raise F.FactError("read_oov: column-count check not recognised")
    out.append("(* error InvalidDataFormat(i, line) iff  cols.len() CMP N *)\nDefinition unk_cols_guard : guard := mkG CastNone %s (OConst (%s)%%Z).\n" % (CMP[m.group(1)], m.group(2)))
    positions(b, [
        ("column count check", r"cols\.len\(\)"),
        ("category parse", r"let\s+category_type:\s*CategoryType\s*=\s*cols\[0\]\.parse\(\)\?;"),
        ("undefined-category check -> InvalidDataFormat(i, ..)", r"if\s+!categories\.contains_key\(&category_type\)\s*\{\s*return\s+Err\(SudachiError::InvalidDataFormat\(\s*i,"),
        ("left_id", r"left_id:\s*cols\[1\]\.parse\(\)\?"),
        ("right_id", r"right_id:\s*cols\[2\]\.parse\(\)\?"),
        ("cost", r"cost:\s*cols\[3\]\.parse\(\)\?"),
        ("pos", r"pos_id:\s*grammar\.handle_user_pos\(&cols\[[0-9]+\.\.[0-9]+\],\s*user_pos\)\?"),
        ("left_id range check", r"oov\.left_id\s+as\s+usize"),
        ("right_id range check", r"oov\.right_id\s+as\s+usize"),
        ("push", r"oov_list\.get_mut\(&category_type\)"),
    ], "read_oov")
    m = re.search(r"handle_user_pos\(&cols\[([0-9]+)\.\.([0-9]+)\]", b)
    out.append("(* POS = cols[from..to] *)\nDefinition unk_pos_from : nat := %s.\nDefinition unk_pos_to : nat := %s.\n" % (m.group(1), m.group(2)))
    if not re.search(r"None\s*=>\s*\{\s*oov_list\.insert\(category_type,\s*vec!\[oov\]\);\s*\}\s*Some\(l\)\s*=>\s*\{\s*l\.push\(oov\);\s*\}", b):
        raise F.FactError("read_oov: templates are no longer appended to the list of their category")
    # both readers are fed from files opened in set_up, charDef first
    sb = F.fn_body(t, "set_up", REL)
    positions(sb, [
        ("read_character_property", r"MeCabOovPlugin::read_character_property\(reader\)\?"),
        ("read_oov", r"MeCabOovPlugin::read_oov\(reader,\s*&categories,\s*grammar,\s*settings\.userPOS\)\?"),
    ], "MeCabOovPlugin::set_up")
    # CategoryType::from_str = bitflags text parser
    ct = F.strip_comments(F.src("sudachi/src/dic/category_type.rs"))
    if not re.search(r"bitflags::parser::from_str::<CategoryType>\(s\)", F.fn_body(ct, "from_str", "category_type.rs")):
        raise F.FactError("CategoryType::from_str is no longer bitflags::parser::from_str")
    pd = F.find_const("sudachi/src/dic/mod.rs", "POS_DEPTH")
    out.append("Definition POS_DEPTH : nat := %d.\n" % pd)
    return "".join(out)
