"""Generated/UnkDefFacts.v: shape of the two text readers of MeCabOovPlugin (C20, text layer).

  read_character_property  -- the category-definition lines `NAME invoke group length` of char.def
  read_oov                 -- unk.def lines `category,left,right,cost,pos1..pos6`
Extracted: which lines are skipped, the tokeniser, the minimum column count and its comparison, which column feeds which field,
the literal compared for the boolean flags, the integer type of `length`, the duplicate / undefined category rules and the
error value each check returns, the POS column slice, the order of the checks."""
import re
import facts as F

REL = "sudachi/src/plugin/oov/mecab_oov/mod.rs"
CMP = {"<": "CLt", "<=": "CLe", ">": "CGt", ">=": "CGe", "==": "CEq", "!=": "CNe"}
ITY = {"i16": "I16", "i32": "I32", "i64": "I64", "u16": "U16", "u32": "U32"}


def positions(body, pats, what):
    """each pattern must occur, in this order"""
    pos = []
    for name, p in pats:
        m = re.search(p, body, flags=re.S)
        if not m:
            raise F.FactError("%s: %s not recognised" % (what, name))
        pos.append(m.start())
    if pos != sorted(pos):
        raise F.FactError("%s: the order of the checks changed (%s)" % (what, ", ".join(n for n, _ in pats)))


def codes(s):
    return "[ %s ]" % "; ".join("%d%%N" % ord(c) for c in s)


class Steps:
    """every shape is extracted on its own: an unrecognised one is recorded (the obligation `unrecognised_shapes = []` of
    Properties/C20.v then fails) and its fact keeps the value the model was written for, so that the model still builds and
    the differential run can look for a concrete input on which the changed reader and the model differ"""

    def __init__(self):
        self.bad = []

    def get(self, what, fn, default):
        try:
            return fn()
        except F.FactError as e:
            self.bad.append("%s: %s" % (what, str(e)))
            return default


def must(m, msg):
    if not m:
        raise F.FactError(msg)
    return m


def gen():
    out = [F.HEADER, "From SudachiVerif Require Import Model.GuardLang.\n\n"]
    t = F.strip_comments(F.src(REL))
    S = Steps()
    # ------------------------------------------------------------ read_character_property
    b = F.fn_body(t, "read_character_property", REL)
    S.get("charprop loop", lambda: must(re.search(r"for\s+\(i,\s*\w+\)\s+in\s+reader\.lines\(\)\.enumerate\(\)", b), "no longer `for (i, line) in reader.lines().enumerate()`"), None)
    S.get("charprop trim", lambda: must(re.search(r"let\s+\w+\s*=\s*\w+\?;\s*let\s+\w+\s*=\s*\w+\.trim\(\);", b), "`let line = line?; let line = line.trim();` not found"), None)
    m = S.get("charprop skip rule", lambda: must((re.search(r"if\s+\w+\.is_empty\(\)\s*\|\|\s*\w+\.chars\(\)\.next\(\)\.unwrap\(\)\s*==\s*'(.)'\s*\|\|\s*\w+\.chars\(\)\.take\(2\)\.collect::<Vec<_>>\(\)\s*==\s*vec!\['(.)',\s*'(.)'\]\s*\{\s*continue;", b) or re.search(r"if\s+\w+\.is_empty\(\)\s*\|\|\s*\w+\.starts_with\('(.)'\)\s*\|\|\s*\w+\.starts_with\(\"(.)(.)\"\)\s*\{\s*continue;", b)), "skip rule (empty / comment / range line) not recognised").groups(), ("#", "0", "x"))
    out.append("(* read_character_property: skipped are empty lines, lines starting with this character, and lines starting with this prefix *)\n")
    out.append("Definition charprop_comment : N := %d%%N.\nDefinition charprop_range_prefix : list N := %s.\n" % (ord(m[0]), codes(m[1] + m[2])))
    S.get("charprop tokeniser", lambda: must(re.search(r"let\s+cols:\s*Vec<_>\s*=\s*\w+\.split_whitespace\(\)\.collect\(\);", b), "columns are no longer line.split_whitespace()"), None)
    m = S.get("charprop column count", lambda: must(re.search(r"if\s+cols\.len\(\)\s*(<=|<|>=|>)\s*([0-9]+)\s*\{\s*return\s+Err\(SudachiError::InvalidCharacterCategory\(\s*CharacterCategoryError::InvalidFormat\(i\)", b), "column-count check not recognised").groups(), ("<", "4"))
    out.append("(* error InvalidFormat(i) iff  cols.len() CMP N *)\nDefinition charprop_cols_guard : guard := mkG CastNone %s (OConst (%s)%%Z).\n" % (CMP[m[0]], m[1]))
    S.get("charprop order of checks", lambda: positions(b, [
        ("column count check", r"cols\.len\(\)"),
        # `match parse() { Ok(t) => t, Err(_) => return Err(E) }`  or  `parse().map_err(|_| E)?`
        ("category parse -> InvalidCategoryType(i, ..)", r"let\s+category_type:\s*CategoryType\s*=\s*(?:match\s+cols\[0\]\.parse\(\)\s*\{\s*Ok\((\w+)\)\s*=>\s*\1,\s*Err\(_\)\s*=>\s*\{\s*return\s+Err\(|cols\[0\]\.parse\(\)\.map_err\(\|_\|\s*\{?\s*)SudachiError::InvalidCharacterCategory\(\s*CharacterCategoryError::InvalidCategoryType\(\s*i,"),
        ("duplicate check -> MultipleTypeDefinition(i, ..)", r"if\s+\w+\.contains_key\(&category_type\)\s*\{\s*return\s+Err\(SudachiError::InvalidCharacterCategory\(\s*CharacterCategoryError::MultipleTypeDefinition\(i,"),
        ("insert", r"\w+\.insert\(\s*category_type,\s*CategoryInfo\s*\{"),
    ], "read_character_property"), None)

    def info():
        m = must(re.search(r"CategoryInfo\s*\{\s*category_type,\s*is_invoke:\s*cols\[([0-9]+)\]\s*==\s*\"([^\"]*)\",\s*is_group:\s*cols\[([0-9]+)\]\s*==\s*\"([^\"]*)\",\s*length:\s*cols\[([0-9]+)\]\.parse\(\)\?,\s*\}", b),
                 "CategoryInfo { category_type, is_invoke: cols[..] == \"..\", is_group: .., length: cols[..].parse()? } not recognised")
        if m.group(2) != m.group(4):
            raise F.FactError("is_invoke and is_group compare with different literals")
        return m.groups()
    m = S.get("charprop fields", info, ("1", "1", "2", "1", "3"))
    out.append("Definition charprop_invoke_col : nat := %s.\nDefinition charprop_group_col : nat := %s.\nDefinition charprop_length_col : nat := %s.\n" % (m[0], m[2], m[4]))
    out.append("(* a flag is true iff its column is exactly this text *)\nDefinition charprop_true_literal : list N := %s.\n" % codes(m[1]))

    def lenty():
        ms = must(re.search(r"struct\s+CategoryInfo\s*\{(.*?)\n\}", t, flags=re.S), "struct CategoryInfo not found")
        ml = must(re.search(r"\blength\s*:\s*([a-z0-9]+)", ms.group(1)), "CategoryInfo.length not found")
        if ml.group(1) not in ITY:
            raise F.FactError("CategoryInfo.length has unsupported type %s" % ml.group(1))
        return ml.group(1)
    out.append("Definition charprop_length_ty : ity := %s.\n" % ITY[S.get("charprop length type", lenty, "u32")])
    # ------------------------------------------------------------ read_oov
    # checks moved into a private helper of the file are read where the helper is called
    b = F.inline_calls(t, F.fn_body(t, "read_oov", REL))
    S.get("unk loop", lambda: must(re.search(r"for\s+\(i,\s*\w+\)\s+in\s+reader\.lines\(\)\.enumerate\(\)", b), "no longer `for (i, line) in reader.lines().enumerate()`"), None)
    S.get("unk trim", lambda: must(re.search(r"let\s+\w+\s*=\s*\w+\?;\s*let\s+\w+\s*=\s*\w+\.trim\(\);", b), "`let line = line?; let line = line.trim();` not found"), None)
    m = S.get("unk skip rule", lambda: must(re.search(r"if\s+\w+\.is_empty\(\)\s*\|\|\s*(?:\w+\.chars\(\)\.next\(\)\.unwrap\(\)\s*==\s*|\w+\.starts_with\()'(.)'\)?\s*\{\s*continue;", b), "skip rule (empty / comment) not recognised").groups(), ("#",))
    out.append("(* read_oov: skipped are empty lines and lines starting with this character *)\nDefinition unk_comment : N := %d%%N.\n" % ord(m[0]))
    m = S.get("unk separator", lambda: must(re.search(r"let\s+cols:\s*Vec<_>\s*=\s*\w+\.split\('(.)'\)\.collect\(\);", b), "columns are no longer line.split(<char>)").groups(), (",",))
    out.append("Definition unk_separator : N := %d%%N.\n" % ord(m[0]))
    m = S.get("unk column count", lambda: must(re.search(r"if\s+cols\.len\(\)\s*(<=|<|>=|>)\s*([0-9]+)\s*\{\s*return\s+Err\(SudachiError::InvalidDataFormat\(i,", b), "column-count check not recognised").groups(), ("<", "10"))
    out.append("(* error InvalidDataFormat(i, line) iff  cols.len() CMP N *)\nDefinition unk_cols_guard : guard := mkG CastNone %s (OConst (%s)%%Z).\n" % (CMP[m[0]], m[1]))
    S.get("unk order of checks", lambda: positions(b, [
        ("column count check", r"cols\.len\(\)"),
        ("category parse", r"let\s+category_type:\s*CategoryType\s*=\s*cols\[0\]\.parse\(\)\?;"),
        ("undefined-category check -> InvalidDataFormat(i, ..)", r"if\s+!\w+\.contains_key\(&category_type\)\s*\{\s*return\s+Err\(SudachiError::InvalidDataFormat\(\s*i,"),
        ("left_id", r"left_id:\s*cols\[1\]\.parse\(\)\?"),
        ("right_id", r"right_id:\s*cols\[2\]\.parse\(\)\?"),
        ("cost", r"cost:\s*cols\[3\]\.parse\(\)\?"),
        ("pos", r"pos_id:\s*grammar\.handle_user_pos\(&cols\[[0-9]+\.\.[0-9]+\],\s*user_pos\)\?"),
        ("left_id range check", r"\w+\.left_id\s+as\s+usize"),
        ("right_id range check", r"\w+\.right_id\s+as\s+usize"),
        ("push", r"\w+\.(?:get_mut\(&category_type\)|entry\(category_type\))"),
    ], "read_oov"), None)
    m = S.get("unk POS slice", lambda: must(re.search(r"handle_user_pos\(&cols\[([0-9]+)\.\.([0-9]+)\]", b), "POS slice not recognised").groups(), ("4", "10"))
    out.append("(* POS = cols[from..to] *)\nDefinition unk_pos_from : nat := %s.\nDefinition unk_pos_to : nat := %s.\n" % (m[0], m[1]))
    # `match m.get_mut(&c) { None => { m.insert(c, vec![x]); } Some(l) => { l.push(x); } }`  or
    # `if let Some(l) = m.get_mut(&c) { l.push(x); } else { m.insert(c, vec![x]); }`
    S.get("unk grouping", lambda: must(
        re.search(r"match\s+(\w+)\.get_mut\(&category_type\)\s*\{\s*None\s*=>\s*\{\s*\1\.insert\(category_type,\s*vec!\[(\w+)\]\);\s*\}\s*Some\((\w+)\)\s*=>\s*\{\s*\3\.push\(\2\);\s*\}", b)
        or re.search(r"\b\w+\.entry\(category_type\)\.(?:or_insert_with\(Vec::new\)|or_default\(\))\.push\(\w+\);", b)
        or re.search(r"if\s+let\s+Some\((\w+)\)\s*=\s*(\w+)\.get_mut\(&category_type\)\s*\{\s*\1\.push\((\w+)\);\s*\}\s*else\s*\{\s*\2\.insert\(category_type,\s*vec!\[\3\]\);\s*\}", b),
        "templates are no longer appended to the list of their category"), None)
    # both readers are fed from files opened in set_up, charDef first
    sb = F.fn_body(t, "set_up", REL)
    S.get("set_up", lambda: positions(sb, [
        ("read_character_property", r"MeCabOovPlugin::read_character_property\(reader\)\?"),
        ("read_oov", r"MeCabOovPlugin::read_oov\(reader,\s*&\w+,\s*grammar,\s*settings\.userPOS\)\?"),
    ], "MeCabOovPlugin::set_up"), None)
    ct = F.strip_comments(F.src("sudachi/src/dic/category_type.rs"))
    S.get("CategoryType::from_str", lambda: must(re.search(r"bitflags::parser::from_str::<CategoryType>\(s\)", F.fn_body(ct, "from_str", "category_type.rs")), "CategoryType::from_str is no longer bitflags::parser::from_str"), None)
    pd = F.find_const("sudachi/src/dic/mod.rs", "POS_DEPTH")
    out.append("Definition POS_DEPTH : nat := %d.\n" % pd)
    out.append("(* shapes of the two readers that were not recognised in the source as it is now (their facts above then hold the\n   values the model was written for; Properties/C20.v demands this list to be empty) *)\n")
    out.append("Definition unrecognised_shapes : list string := [ %s ].\n" % "; ".join('"%s"' % x.replace('"', "'").replace("\\", "/")[:200] for x in S.bad))
    return "".join(out)
