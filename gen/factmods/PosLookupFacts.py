"""Grammar::get_part_of_speech_id (sudachi/src/dic/grammar.rs): the lookup that plugin set-up uses to turn a configured
part of speech (six strings) into an id.  Extracted: POS_DEPTH, the length guard, WHAT is compared with every row of the table
(the whole requested vector, or -- not the documented behaviour -- only a part of it), and that the first match is returned."""
import re
import facts as F

GR = "sudachi/src/dic/grammar.rs"


def ws(s):
    return re.sub(r"\s+", "", s)


def gen():
    out = [F.HEADER]
    t = F.strip_comments(F.src(GR))
    out.append("Definition pos_depth : nat := %d.\n" % F.find_const("sudachi/src/dic/mod.rs", "POS_DEPTH"))
    b = ws(F.fn_body(t, "get_part_of_speech_id", GR))
    # fn get_part_of_speech_id<S>(&self, pos1: &[S]): the requested vector is the first parameter
    m = re.search(r"fn\s+get_part_of_speech_id\s*<\s*S\s*>\s*\(\s*&self\s*,\s*(\w+)\s*:\s*&\[S\]\s*\)", t)
    if not m:
        raise F.FactError("signature of Grammar::get_part_of_speech_id not recognised")
    req = m.group(1)
    out.append("(* `if <requested>.len() != POS_DEPTH { return None; }` comes first *)\n")
    out.append("Definition lookup_length_guard : bool := %s.\n" % ("true" if b.startswith("if%s.len()!=POS_DEPTH{returnNone;}" % req) else "false"))
    # the loop: for (i, row) in self.pos_list.iter().enumerate() { if <X>.iter().zip(row).all(|(a, b)| a.as_ref() == b) { return Some(i as u16); } } None
    m = re.search(r"for\((\w+),(\w+)\)inself\.pos_list\.iter\(\)\.enumerate\(\)\{if(.+?)\.iter\(\)\.zip\(\2\)\.all\(\|\((\w+),(\w+)\)\|\4\.as_ref\(\)==\5\)\{returnSome\(\1asu16\);\}\}None$", b)
    if m:
        what = m.group(3)
        what = "requested" if what == req else what.replace(req, "requested")
        out.append("(* what is compared, component by component, with every row of the table, in table order; first match wins *)\n")
        out.append('Definition lookup_compares : string := "%s".\n' % what.replace('"', '""'))
        out.append("Definition lookup_first_match_in_table_order : bool := true.\n")
    elif re.search(r"self\.pos_list\.iter\(\)\.position\(\|(\w+)\|(.+?)\.iter\(\)\.zip\(\1\)\.all\(\|\((\w+),(\w+)\)\|\3\.as_ref\(\)==\4\)\)\.map\(\|(\w+)\|\5asu16\)$", b):
        # the same traversal as an iterator chain: `position` yields the index of the FIRST row for which the predicate holds
        mp = re.search(r"self\.pos_list\.iter\(\)\.position\(\|(\w+)\|(.+?)\.iter\(\)\.zip\(\1\)\.all\(", b)
        what = mp.group(2)
        what = "requested" if what == req else what.replace(req, "requested")
        out.append("(* what is compared, component by component, with every row of the table, in table order; first match wins *)\n")
        out.append('Definition lookup_compares : string := "%s".\n' % what.replace('"', '""'))
        out.append("Definition lookup_first_match_in_table_order : bool := true.\n")
    else:
        m2 = re.search(r"if(.+?)==\*?(\w+)(?:\.as_slice\(\))?\{returnSome\((\w+)asu16\);\}", b)
        if not m2:
            raise F.FactError("Grammar::get_part_of_speech_id: the comparison loop is not recognised")
        out.append('Definition lookup_compares : string := "%s".\n' % ("requested" if m2.group(1) in (req, "*" + req) else m2.group(1).replace(req, "requested")))
        out.append("Definition lookup_first_match_in_table_order : bool := %s.\n" % ("true" if "self.pos_list.iter().enumerate()" in b else "false"))
    # how a partial comparison was derived, if any (recorded for the report; `requested` alone is the documented behaviour)
    md = re.search(r"let(\w+)=%s\.iter\(\)\.position\(\|(\w+)\|\2\.as_ref\(\)==\"\*\"\)\.unwrap_or\(POS_DEPTH\);" % req, b)
    out.append("Definition lookup_prefix_before_star : bool := %s.\n" % ("true" if md else "false"))
    return "".join(out)
