"""Generated/SubsetUse.v — where the loaded field subset and the word infos enter an analysis:
  * the order of the stages of StatefulTokenizer::do_tokenize and which of them are handed `self.subset`;
  * that the lattice stage (build_lattice / LatticeBuilder, analysis/lattice.rs) mentions neither the subset nor a word info;
  * the WordInfo accessors / WordInfoData fields that occur in the path-rewrite plugins and in the two concat functions.
Model/SubsetPipeline.v and Proofs/SubsetBoundaries.v were written for exactly these."""
import re
import facts as F


def q(s):
    return '"%s"' % s


def ql(l):
    return "[ %s ]" % "; ".join(q(x) for x in l)


def gen():
    out = [F.HEADER]
    rel = "sudachi/src/analysis/stateful_tokenizer.rs"
    t = F.strip_comments(F.src(rel))
    b = F.fn_body(t, "do_tokenize", rel)
    # the stages, in source order
    marks = [("build_lattice", r"self\.build_lattice\(\)\?"),
             ("resolve_best_path", r"self\.resolve_best_path\(\)\?"),
             ("plugin_rewrite", r"plugin\.rewrite\(&self\.input,\s*path,\s*&self\.lattice\)\?"),
             ("split_path", r"split_path\(&self\.dictionary,\s*path,\s*self\.mode,\s*self\.subset,\s*&self\.input\)\?")]
    pos = []
    for name, pat in marks:
        m = re.search(pat, b)
        if not m:
            raise F.FactError("do_tokenize: stage %s not recognised" % name)
        pos.append((m.start(), name))
    if [n for _, n in sorted(pos)] != [n for n, _ in marks]:
        raise F.FactError("do_tokenize: stages are no longer in the order lattice, resolve, rewrite, split")
    out.append("Definition stage_order : list string := %s.\n" % ql([n for n, _ in marks]))
    if len(re.findall(r"\bsubset\b", b)) != 1:
        raise F.FactError("do_tokenize mentions the subset elsewhere than in the split_path call")
    # functions of the tokenizer that mention the subset
    users = []
    for m in re.finditer(r"\bfn\s+(\w+)\b", t):
        name = m.group(1)
        try:
            body = F.fn_body(t[m.start():], name, rel)
        except F.FactError:
            continue
        if re.search(r"\bsubset\b", body) and name not in users:
            users.append(name)
    out.append("(* functions of stateful_tokenizer.rs whose body mentions the subset *)\n")
    out.append("Definition subset_users : list string := %s.\n" % ql(users))
    # resolve_best_path: the word info is fetched with the subset, OOV nodes get one made from the input
    rb = F.fn_body(t, "resolve_best_path", rel)
    if not re.search(r"lex\.get_word_info_subset\(inner\.word_id\(\),\s*self\.subset\)\?", rb):
        raise F.FactError("resolve_best_path no longer fetches get_word_info_subset(word_id, self.subset)")
    if not re.search(r"if\s+inner\.word_id\(\)\.is_oov\(\)\s*\{\s*let\s+curr_slice\s*=\s*self\.input\.curr_slice_c\(inner\.char_range\(\)\)\.to_owned\(\);\s*"
                     r"WordInfoData\s*\{\s*pos_id:\s*inner\.word_id\(\)\.word\(\)\s+as\s+u16,\s*surface:\s*curr_slice,\s*\.\.Default::default\(\)", rb):
        raise F.FactError("resolve_best_path: the word info of an OOV node changed shape")
    # the lattice stage: neither subset nor word infos
    bl_all = [m.start() for m in re.finditer(r"\bfn\s+build_lattice\b", t)]
    lattice_mentions = []
    for st in bl_all:
        body = F.fn_body(t[st:], "build_lattice", rel)
        if re.search(r"\bsubset\b|get_word_info|word_info", body):
            lattice_mentions.append("build_lattice")
    for f2 in ("sudachi/src/analysis/lattice.rs",):
        t2 = F.strip_comments(F.src(f2))
        # dump() prints word infos for debugging; it is not part of an analysis
        t2_wo_dump = t2
        try:
            d = F.fn_body(t2, "dump", f2)
            t2_wo_dump = t2.replace(d, "")
        except F.FactError:
            pass
        t2_wo_dump = re.sub(r"(?m)^\s*use\s[^;]*;", "", t2_wo_dump)
        if re.search(r"InfoSubset|get_word_info_subset", t2_wo_dump):
            lattice_mentions.append(f2)
    out.append("(* places of the lattice stage that mention the subset or a word info (must be none) *)\n")
    out.append("Definition lattice_stage_mentions : list string := %s.\n" % ql(lattice_mentions))

    # accessors in the plugins
    def accessors(text):
        acc = set(re.findall(r"word_info\(\)\s*\.\s*(\w+)\(\)", text))
        acc |= set(re.findall(r"\bword_info\s*\.\s*(\w+)\(\)", text))
        acc |= set(re.findall(r"borrow_data\(\)\s*\.\s*(\w+)", text))
        acc |= set(re.findall(r"\bdata\s*\.\s*(\w+)", text))
        acc.discard("borrow_data")
        return sorted(acc)
    num = ""
    import os
    base = os.path.join(F.REPO, "sudachi/src/plugin/path_rewrite/join_numeric")
    for fn_ in sorted(os.listdir(base)):
        if fn_.endswith(".rs") and fn_ != "test.rs":
            num += F.strip_comments(F.src("sudachi/src/plugin/path_rewrite/join_numeric/" + fn_))
    # unit tests at the end of a file are not plugin code
    num = re.sub(r"#\[cfg\(test\)\]\s*mod\s+\w+\s*\{.*", "", num, flags=re.S)
    kat = F.strip_comments(F.src("sudachi/src/plugin/path_rewrite/join_katakana_oov/mod.rs"))
    kat = re.sub(r"#\[cfg\(test\)\]\s*mod\s+\w+\s*\{.*", "", kat, flags=re.S)
    node = F.strip_comments(F.src("sudachi/src/analysis/node.rs"))
    out.append("(* WordInfo accessors / WordInfoData fields occurring in the sources *)\n")
    out.append("Definition numeric_reads : list string := %s.\n" % ql(accessors(num)))
    out.append("Definition katakana_reads : list string := %s.\n" % ql(accessors(kat)))
    out.append("Definition concat_nodes_fields : list string := %s.\n" % ql(accessors(F.fn_body(node, "concat_nodes", "node.rs"))))
    out.append("Definition concat_oov_nodes_fields : list string := %s.\n" % ql(accessors(F.fn_body(node, "concat_oov_nodes", "node.rs"))))
    # what else of a node the plugins look at
    nodeacc = sorted(set(re.findall(r"\bnode\.(\w+)\(", kat)) | set(re.findall(r"\bnode\.(\w+)\(", num)))
    out.append("Definition plugin_node_methods : list string := %s.\n" % ql(nodeacc))
    # the split stage: NodeSplitIterator reads the unit ids, fetches their infos with the subset, uses head_word_length
    it = F.fn_body(node, "next", "node.rs")
    if not re.search(r"get_word_info_subset\(word_id,\s*self\.subset\)", it) or "word_info.head_word_length()" not in it:
        raise F.FactError("NodeSplitIterator::next changed shape")
    return "".join(out)
