"""Facts the C10 theorems are sensitive to: field inventories of StatefulTokenizer / InputBuffer / Lattice /
MorphemeList and which fields every reset / build step clears or overwrites.  -> coq/Generated/ResetFacts.v"""
import re
import facts as F
import rewrites as R


def struct_fields(text, name, rel):
    m = re.search(r"\bstruct\s+%s\b(?:<[^>{]*>)?\s*\{(.*?)\n\}" % re.escape(name), text, flags=re.S)
    if not m:
        raise F.FactError("struct %s not found in %s" % (name, rel))
    body = m.group(1)
    fields = re.findall(r"^\s*(?:pub(?:\([a-z]+\))?\s+)?([a-z_][a-z0-9_]*)\s*:", body, flags=re.M)
    if not fields:
        raise F.FactError("no fields recognised in struct %s of %s" % (name, rel))
    return fields


def strs(xs):
    return "[" + "; ".join('"%s"' % x for x in xs) + "]"


def clears(body):
    """fields X with a statement `self.X.clear();`"""
    return sorted(set(re.findall(r"\bself\.([a-z_0-9]+)\.clear\(\)", body)))


def need(pattern, text, what):
    if not re.search(pattern, text, flags=re.S):
        raise F.FactError(what)


def guard(body, lhs_pat, where):
    m = re.search(r"\bif\s+%s\s*(>=|<=|==|!=|>|<)\s*([A-Z_]+)\s*\{" % lhs_pat, body)
    if not m:
        raise F.FactError("length guard not found in %s" % where)
    return m.group(1), m.group(2)


def reset_top_path(b):
    """what StatefulTokenizer::reset does to top_path, decided on the STATEMENTS of the function's top level:
         clear_or_recreate  Some(p) -> p.clear(), None -> Some(Vec::new())   (match / if let .. else / unconditional assignment)
         clear_if_some      Some(p) -> p.clear(), None stays                 (Option::map for its effect / if let without else)
         recreate_if_none   None -> Some(Vec::new()), Some(p) is left as it is
         none"""
    bb = R.map_to_if_let("{" + b + "}")[1:-1]
    new_vec = r"(?:Vec::new\(\)|vec!\[\]|Vec::default\(\)|Default::default\(\))"
    for s0, e0 in R._top_level_statements(bb):
        st = re.sub(r"\s+", " ", bb[s0:e0]).strip()
        if re.fullmatch(r"match self\.top_path\.as_mut\(\) \{ Some\((\w+)\) => \1\.clear\(\), None => self\.top_path = Some\(%s\),? \}" % new_vec, st) or \
           re.fullmatch(r"match self\.top_path\.as_mut\(\) \{ None => self\.top_path = Some\(%s\), Some\((\w+)\) => \1\.clear\(\),? \}" % new_vec, st) or \
           re.fullmatch(r"if let Some\((\w+)\) = self\.top_path\.as_mut\(\) \{ \1\.clear\(\);? \} else \{ self\.top_path = Some\(%s\);? \}" % new_vec, st) or \
           re.fullmatch(r"self\.top_path = Some\(%s\);" % new_vec, st):
            return "clear_or_recreate"
        if re.fullmatch(r"if let Some\((\w+)\) = (?:self\.top_path\.as_mut\(\)|&mut self\.top_path) \{ \1\.clear\(\);? \}", st):
            return "clear_if_some"
        if re.fullmatch(r"if self\.top_path\.is_none\(\) \{ self\.top_path = Some\(%s\);? \}" % new_vec, st):
            return "recreate_if_none"
    return "none"


def is_mode_bits(t, expr, arg):
    """expr computes the split list a mode needs: `match ARG { Mode::A => InfoSubset::SPLIT_A, Mode::B => InfoSubset::SPLIT_B,
    _ | Mode::C => InfoSubset::empty() }` written in place, or a call F(ARG) / Self::F(ARG) of a one-parameter function of the same
    file whose whole body is that match on its parameter"""
    def table(e, a):
        e = re.sub(r"\s+", "", e)
        a = re.escape(re.sub(r"\s+", "", a))
        return re.fullmatch(r"match%s\{Mode::A=>InfoSubset::SPLIT_A,Mode::B=>InfoSubset::SPLIT_B,(?:_|Mode::C)=>InfoSubset::empty\(\),?\}" % a, e) is not None
    if table(expr, arg):
        return True
    m = re.fullmatch(r"\s*(?:Self::|self\.)?(\w+)\(\s*%s\s*\)\s*" % re.escape(arg), expr)
    if not m:
        return False
    f = R._fn(t, m.group(1))
    if f is None or len(f[0]) != 1:
        return False
    body = f[1].strip()
    r = re.fullmatch(r"return\b(.*);", body, flags=re.S)
    return table(r.group(1) if r else body, f[0][0])


def set_mode_subset(t, rel):
    """set_mode(mode): `self.subset |= <split list of mode>; mem::replace(&mut self.mode, mode)`;
    set_subset(subset): `let M = <split list of self.mode>; let S = (subset | M).normalize(); mem::replace(&mut self.subset, S | M)`"""
    b = F.fn_body(t, "set_mode", rel)
    m = re.fullmatch(r"\s*self\.subset\s*\|=\s*([^;]*?);\s*std::mem::replace\(&mut\s+self\.mode,\s*mode\)\s*", b, flags=re.S)
    if not m or not is_mode_bits(t, m.group(1), "mode"):
        raise F.FactError("set_mode: not in the recognised shape")
    b = F.fn_body(t, "set_subset", rel)
    m = re.fullmatch(r"\s*let\s+(\w+)\s*=\s*([^;]*?);\s*let\s+(\w+)\s*=\s*\(subset\s*\|\s*\1\)\.normalize\(\);\s*"
                     r"std::mem::replace\(&mut\s+self\.subset,\s*\3\s*\|\s*\1\)\s*", b, flags=re.S)
    if not m or not is_mode_bits(t, m.group(2), "self.mode"):
        raise F.FactError("set_subset: not in the recognised shape")


def collect_results_swaps(t, b):
    """MorphemeList::collect_results(&mut self, A): `A.swap_result(&mut P.input, &mut self.nodes.mut_data(), &mut P.subset)` where
    P is `G.deref_mut()` of the guard G of `self.input.try_borrow_mut()` -- obtained through `match .. { Ok(mut G) => .. }` or through
    `let mut G = self.input.try_borrow_mut()<error conversion>?;`"""
    what = "collect_results: call of swap_result not recognised"
    sig = re.search(r"\bfn\s+collect_results\s*(?:<[^>]*>)?\s*\(\s*&mut\s+self\s*,\s*(\w+)\s*:", t)
    if not sig:
        raise F.FactError(what)
    m = re.search(r"\b%s\.swap_result\(\s*&mut\s+(\w+)\.input,\s*&mut\s+self\.nodes\.mut_data\(\),\s*&mut\s+(\w+)\.subset,?\s*\);" % re.escape(sig.group(1)), b)
    if not m or m.group(1) != m.group(2):
        raise F.FactError(what)
    part = re.escape(m.group(1))
    g = re.search(r"\blet\s+%s\s*=\s*(\w+)\.deref_mut\(\);" % part, b[:m.start()])
    if not g:
        raise F.FactError(what)
    guard_name = re.escape(g.group(1))
    borrow = r"self\s*\.\s*input\s*\.\s*try_borrow_mut\(\)"
    by_match = re.search(r"\bmatch\s+%s\s*\{\s*Ok\(mut\s+%s\)\s*=>" % (borrow, guard_name), b[:g.start()])
    by_let = re.search(r"\blet\s+mut\s+%s\s*=\s*%s\s*(?:\.\s*map_err\((?:[^()]|\([^()]*\))*\)\s*)?\?;" % (guard_name, borrow), b[:g.start()])
    if not by_match and not by_let:
        raise F.FactError(what)


def python_mode_guard(t):
    """PyTokenizer::tokenize: `let D = mode.map(|m| self.tokenizer.set_mode(m.into()));` (the previous mode, when one is given)
    and a scopeguard on the tokenizer whose closure puts it back: `D.map(|m| T.set_mode(m));` or `if let Some(m) = D { T.set_mode(m); }`"""
    what = "python tokenizer: mode override is not restored by a scope guard"
    tt = R.map_to_if_let(t)
    m = re.search(r"let\s+(\w+)\s*=\s*mode\.map\(\|(\w+)\|\s*self\.tokenizer\.set_mode\(\2\.into\(\)\)\);\s*"
                  r"let\s+mut\s+tokenizer\s*=\s*scopeguard::guard\(&mut\s+self\.tokenizer,\s*\|(\w+)\|\s*\{\s*"
                  r"if\s+let\s+Some\((\w+)\)\s*=\s*\1\s*\{\s*\3\.set_mode\(\4\);\s*\}\s*\}\);", tt)
    if not m:
        raise F.FactError(what)


def gen():
    out = [F.HEADER]
    # ------------------------------------------------------------------ StatefulTokenizer
    rel = "sudachi/src/analysis/stateful_tokenizer.rs"
    t = F.strip_comments(F.src(rel))
    out.append("Definition tokenizer_fields : list string := %s.\n" % strs(struct_fields(t, "StatefulTokenizer", rel)))
    b = F.fn_body(t, "reset", rel)
    cl = clears(b)
    top = reset_top_path(b)
    if re.search(r"self\.input\.reset\(\)", b):
        cl = sorted(set(cl + ["input"]))
    out.append("(* StatefulTokenizer::reset: fields cleared; treatment of top_path: clear_if_some | clear_or_recreate | none *)\n")
    out.append("Definition tokenizer_reset_clears : list string := %s.\n" % strs(cl))
    out.append('Definition tokenizer_reset_top_path : string := "%s".\n' % top)
    b = F.fn_body(t, "do_tokenize", rel)
    steps = []
    pats = [("start_build", r"self\.input\.start_build\(\)\?;"), ("rewrite_input", r"self\.rewrite_input\(\)\?;"),
            ("build", r"self\.input\.build\(self\.dictionary\.grammar\(\)\)\?;"),
            ("return_if_empty", r"if\s+self\.input\.current\(\)\.is_empty\(\)\s*\{\s*return\s+Ok\(\(\)\);\s*\}"),
            ("build_lattice", r"self\.build_lattice\(\)\?;"), ("resolve_best_path", r"let\s+mut\s+path\s*=\s*self\.resolve_best_path\(\)\?;"),
            ("path_rewrite", r"for\s+plugin\s+in\s+self\.dictionary\.path_rewrite_plugins\(\)\s*\{\s*path\s*=\s*plugin\.rewrite\(&self\.input,\s*path,\s*&self\.lattice\)\?;\s*\}"),
            ("split_path", r"path\s*=\s*split_path\(&self\.dictionary,\s*path,\s*self\.mode,\s*self\.subset,\s*&self\.input\)\?;"),
            ("store_top_path", r"self\.top_path\s*=\s*Some\(path\);")]
    pos = []
    for name, p in pats:
        m = re.search(p, b, flags=re.S)
        if not m:
            raise F.FactError("do_tokenize: step %s not found in the recognised shape" % name)
        pos.append((m.start(), name))
    steps = [n for _, n in sorted(pos)]
    out.append("Definition do_tokenize_steps : list string := %s.\n" % strs(steps))
    b = F.fn_body(t, "resolve_best_path", rel)
    # the stored vector is TAKEN (top_path is left None) and reused, an empty one is used when there is none: any spelling of
    # take (mem::replace(.., None) / Option::take / mem::take) followed by any spelling of "or an empty Vec"
    take = r"(?:std::mem::replace\(&mut\s+self\.top_path,\s*None\)|self\.top_path\.take\(\)|std::mem::take\(&mut\s+self\.top_path\))"
    empty = r"(?:unwrap_or_else\(\|\|\s*Vec::new\(\)\)|unwrap_or_else\(Vec::new\)|unwrap_or_default\(\)|unwrap_or\(Vec::new\(\)\)|unwrap_or\(vec!\[\]\))"
    need(take + r"\s*\.\s*" + empty, b, "resolve_best_path: taking of top_path not recognised")
    need(r"self\.lattice\.fill_top_path\(&mut\s+self\.top_path_ids\);\s*self\.top_path_ids\.reverse\(\);\s*for\s+pid\s+in\s+self\.top_path_ids\.drain\(\.\.\)", b,
         "resolve_best_path: fill / reverse / drain of top_path_ids not recognised")
    out.append("Definition top_path_ids_drained : bool := true.\n")
    b = F.fn_body(t, "swap_result", rel)
    need(r"std::mem::swap\(&mut\s+self\.input,\s*input\);\s*std::mem::swap\(self\.top_path\.as_mut\(\)\.unwrap\(\),\s*result\);\s*\*subset\s*=\s*self\.subset;", b,
         "swap_result: not in the recognised shape")
    out.append("Definition swap_result_recognised : bool := true.\n")
    set_mode_subset(t, rel)
    out.append("Definition set_mode_subset_recognised : bool := true.\n")
    m = re.search(r"impl<'a>\s+LatticeBuilder<'a>\s*\{(.*)\Z", t, flags=re.S)
    if not m:
        raise F.FactError("impl LatticeBuilder not found")
    b = F.fn_body(m.group(1), "build_lattice", rel)
    need(r"self\.lattice\.reset\(self\.input\.current_chars\(\)\.len\(\)\);", b, "build_lattice: lattice.reset(len of current chars) not found")
    # private helpers of the builder are read as if inlined at their call
    bx = R.inline_calls(b, m.group(1), skip=("build_lattice",))
    m1 = re.search(r"self\.node_buffer\.clear\(\);", bx)
    m2 = re.search(r"self\.lexicon\.lookup\(", bx)
    if not m1 or not m2 or m1.start() > m2.start():
        raise F.FactError("build_lattice: node_buffer is not cleared before it is filled")
    out.append("Definition node_buffer_cleared_before_use : bool := true.\n")

    # ------------------------------------------------------------------ InputBuffer
    rel = "sudachi/src/input_text/buffer/mod.rs"
    t = F.strip_comments(F.src(rel))
    out.append("Definition input_buffer_fields : list string := %s.\n" % strs(struct_fields(t, "InputBuffer", rel)))
    b = F.fn_body(t, "reset", rel)
    cl = clears(b)
    if re.search(r"self\.state\s*=\s*BufferState::Clean\s*;", b):
        cl = sorted(set(cl + ["state"]))
    out.append("Definition input_buffer_reset_clears : list string := %s.\n" % strs(cl))
    b = F.fn_body(t, "start_build", rel)
    op, k = guard(b, r"self\.original\.len\(\)", "start_build")
    out.append('Definition start_build_guard : string * string := ("%s", "%s").\n' % (op, k))
    need(r"self\.state\s*=\s*BufferState::RW;\s*self\.modified\.push_str\(&self\.original\);\s*self\.m2o\.extend\(0\.\.self\.modified\.len\(\)\s*\+\s*1\);", b,
         "start_build: body not in the recognised shape")
    if clears(b):
        raise F.FactError("start_build now clears fields: the model appends")
    b = F.fn_body(t, "commit", rel)
    out.append("Definition commit_clears : list string := %s.\n" % strs(clears(b)))
    need(r"if\s+self\.replaces\.is_empty\(\)\s*\{\s*return\s+Ok\(\(\)\);\s*\}", b, "commit: early return on no edits not found")
    op, k = guard(b, r"sz", "commit")
    out.append('Definition commit_guard : string * string := ("%s", "%s").\n' % (op, k))
    need(r"std::mem::swap\(&mut\s+self\.modified,\s*&mut\s+self\.modified_2\);\s*std::mem::swap\(&mut\s+self\.m2o,\s*&mut\s+self\.m2o_2\);", b, "commit: swaps not found")
    b = F.fn_body(t, "build", rel)
    out.append("Definition build_clears : list string := %s.\n" % strs(clears(b)))
    need(r"self\.state\s*=\s*BufferState::RO;", b, "build: state change not found")
    need(r"self\.fill_cat_continuity\(\);\s*self\.fill_orig_b2c\(\);", b, "build: continuity / orig_b2c calls not found")
    b = F.fn_body(t, "fill_orig_b2c", rel)
    out.append("Definition fill_orig_b2c_clears : list string := %s.\n" % strs(clears(b)))
    b = F.fn_body(t, "rollback", rel)
    out.append("Definition rollback_clears : list string := %s.\n" % strs(clears(b)))
    b = F.fn_body(t, "refresh_chars", rel)
    need(r"if\s+self\.mod_chars\.is_empty\(\)\s*\{\s*self\.mod_chars\.extend\(self\.modified\.chars\(\)\);\s*\}", b, "refresh_chars: not in the recognised shape")
    rel2 = "sudachi/src/input_text/buffer/edit.rs"
    t2 = F.strip_comments(F.src(rel2))
    b = F.fn_body(t2, "resolve_edits", rel2)
    need(r"for\s+edit\s+in\s+edits\.drain\(\.\.\)", b, "resolve_edits no longer drains the edit list")
    out.append("Definition resolve_edits_drains : bool := true.\n")
    env = {"MAX_LENGTH": F.find_const(rel, "MAX_LENGTH"), "REALLY_MAX_LENGTH": F.find_const(rel, "REALLY_MAX_LENGTH")}
    out.append("Definition limit_of (name : string) : N :=\n  if String.eqb name \"MAX_LENGTH\" then %s else if String.eqb name \"REALLY_MAX_LENGTH\" then %s else 0%%N.\n"
               % (F.coq_int(env["MAX_LENGTH"]), F.coq_int(env["REALLY_MAX_LENGTH"])))

    # ------------------------------------------------------------------ Lattice
    rel = "sudachi/src/analysis/lattice.rs"
    t = F.strip_comments(F.src(rel))
    out.append("Definition lattice_fields : list string := %s.\n" % strs(struct_fields(t, "Lattice", rel)))
    b = F.fn_body(t, "reset", rel)
    rows = sorted(set(re.findall(r"Self::reset_vec\(&mut\s+self\.([a-z_]+),\s*length\s*\+\s*1\);", b)))
    scal = []
    if re.search(r"self\.eos\s*=\s*None;", b):
        scal.append("eos")
    if re.search(r"self\.size\s*=\s*length\s*\+\s*1;", b):
        scal.append("size")
    need(r"self\.connect_bos\(\);", b, "Lattice::reset: connect_bos not found")
    out.append("Definition lattice_reset_rows : list string := %s.\n" % strs(rows))
    out.append("Definition lattice_reset_scalars : list string := %s.\n" % strs(sorted(scal)))
    b = F.fn_body(t, "reset_vec", rel)
    need(r"for\s+v\s+in\s+data\.iter_mut\(\)\s*\{\s*v\.clear\(\);\s*\}", b, "reset_vec no longer clears every row")
    need(r"if\s+cur_len\s*<=\s*target\s*\{\s*data\.reserve\(target\s*-\s*cur_len\);\s*for\s+_\s+in\s+cur_len\.\.target\s*\{\s*data\.push\(Vec::with_capacity\(16\)\)\s*;?\s*\}\s*\}", b,
         "reset_vec: growth loop not in the recognised shape")
    out.append("Definition reset_vec_clears_every_row : bool := true.\n")

    # ------------------------------------------------------------------ MorphemeList
    rel = "sudachi/src/analysis/mlist.rs"
    t = F.strip_comments(F.src(rel))
    out.append("Definition morpheme_list_fields : list string := %s.\n" % strs(struct_fields(t, "MorphemeList", rel)))
    out.append("Definition input_part_fields : list string := %s.\n" % strs(struct_fields(t, "InputPart", rel)))
    out.append("Definition nodes_fields : list string := %s.\n" % strs(struct_fields(t, "Nodes", rel)))
    b = F.fn_body(t, "collect_results", rel)
    collect_results_swaps(t, b)
    b = F.fn_body(t, "lookup", rel)
    need(r"input\.reset\(\)\.push_str\(query\);\s*input\.start_build\(\)\?;\s*input\.build\(self\.dict\.grammar\(\)\)\?;", b, "MorphemeList::lookup: buffer preparation not recognised")
    out.append("Definition mlist_recognised : bool := true.\n")

    # ------------------------------------------------------------------ Python bindings: same protocol
    rel = "python/src/tokenizer.rs"
    t = F.strip_comments(F.src(rel))
    need(r"tokenizer\.reset\(\)\.push_str\(text\);\s*tokenizer\.do_tokenize\(\)", t, "python tokenizer: reset/push_str/do_tokenize protocol not recognised")
    python_mode_guard(t)
    need(r"\.collect_results\(tokenizer\.deref_mut\(\)\)", t, "python tokenizer: collect_results not found")
    rel = "python/src/pretokenizer.rs"
    t = F.strip_comments(F.src(rel))
    need(r"self\.tokenizer\.reset\(\)\.push_str\(data\);\s*wrap\(self\.tokenizer\.do_tokenize\(\)\)\?;", t, "python pretokenizer: reset/push_str/do_tokenize protocol not recognised")
    need(r"\.collect_results\(&mut\s+self\.tokenizer\)", t, "python pretokenizer: collect_results not found")
    out.append("Definition python_protocol_recognised : bool := true.\n")
    return "".join(out)
